#!/usr/bin/env python3
"""tools/seed_prompt.py PID N -> creates worktree /tmp/seed-PID and prints the prompt for a fresh seeding sub-agent."""
import json, sys, subprocess, os
pid, n = sys.argv[1], sys.argv[2]
wt = f"/tmp/seed-{pid.lower()}"
if not os.path.exists(wt):
    subprocess.run(["git", "-C", "/repo", "worktree", "add", "--detach", wt, "HEAD", "-q"], check=True)
p = [json.loads(l) for l in open("/verif/properties.jsonl") if json.loads(l)["id"] == pid][0]
t = open("/root/agent_prompts/seed.txt").read()
print(t.format(WT=wt, N=n, OUT="/tmp/seed-out", PID=pid, TITLE=p["title"], STATEMENT=p["statement"], QUANT=p["quantifier"]["text"], FILES=", ".join(p["anchors"]["files"])))
