#!/usr/bin/env python3
"""tools/seed_prompt.py PID N [WAVE] -> creates worktree /tmp/seed<WAVE>-PID and prints the prompt for a fresh seeding sub-agent.
Wave >= 2 lists the titles of the changes already kept for that property so that new ones differ."""
import json, sys, subprocess, os
pid, n = sys.argv[1], int(sys.argv[2])
wave = int(sys.argv[3]) if len(sys.argv) > 3 else 1
wt = f"/tmp/seed{'' if wave == 1 else wave}-{pid.lower()}"
if not os.path.exists(wt):
    subprocess.run(["git", "-C", "/repo", "worktree", "add", "--detach", wt, "HEAD", "-q"], check=True)
p = [json.loads(l) for l in open("/verif/properties.jsonl") if json.loads(l)["id"] == pid][0]
t = open("/root/agent_prompts/seed.txt").read()
have = sorted(d for d in os.listdir("/verif/seeded") if d.startswith(pid + "-")) if os.path.isdir("/verif/seeded") else []
avoid = ""
if wave > 1 and have:
    titles = [json.load(open(f"/verif/seeded/{d}/meta.json")).get("title", "") for d in have]
    avoid = ("Changes ALREADY produced for this property by other people (do not repeat these ideas or trivial variations of them; "
             "pick other clauses of the property, other files / functions among the anchored code, or other triggering conditions):\n"
             + "\n".join("  - " + x for x in titles) + "\n\n")
    if wave >= 3:
        avoid += ("The easy ideas are taken. Look for regressions of these kinds: an interaction between two features that each work alone "
                  "(resuming with a non-zero starting step, a logger or checkpointer attached, the multi-task wrappers, several gradient steps per "
                  "environment step, vector environments with more than two sub-environments, optional arguments that callers rarely pass); a "
                  "boundary of a counter or index that is only reached after a long or oddly shaped history; a numerically special but legal value; "
                  "state that survives between calls; a change in one function that is only wrong for the way ANOTHER function of the library calls it.\n\n")
    if wave >= 4:
        avoid += ("Many changes per property exist already (listed above), so be inventive: prefer (a) code paths selected by NON-DEFAULT arguments or by the less common "
                  "class / wrapper / variant among those the property quantifies over; (b) helper functions shared by several routines where the change is "
                  "right for most callers and wrong for one; (c) effects that depend on the dtype, number type, shape (batch of one, extra leading axis, "
                  "zero-length) or magnitude (very small / very large but finite) of legal inputs; (d) an object used a second time (after pickling / "
                  "restoring, after a reset, in a second call of the same routine, after the buffer wrapped around twice); (e) a clause of the property "
                  "that none of the listed changes touches. Re-read the property sentence by sentence and the listed titles before choosing.\n\n")
k0 = len(have) + 1 if wave > 1 else 1
print(t.format(WT=wt, N=n, OUT="/tmp/seed-out" + ("" if wave == 1 else str(wave)), PID=pid, TITLE=p["title"], STATEMENT=p["statement"],
               QUANT=p["quantifier"]["text"], FILES=", ".join(p["anchors"]["files"]), AVOID=avoid, K0=k0, K1=k0 + n - 1))
