#!/bin/bash
# tools/run_all.sh [tier] [ids...] - runs every check sequentially, prints one summary line per check
cd "$(dirname "$0")/.."
tier=${1:-quick}; shift
ids=${@:-C01 C02 C03 C04 C05 C06 C07 C08 C09 C10 C11 C12 C13 C14 C15 C16 C17 C18 C19 C20}
for c in $ids; do
  out=$(./check $c --tier $tier 2>&1); rc=$?
  echo "$c exit=$rc $(echo "$out" | grep ' tier=' | tail -1 | sed 's/^[^ ]* //')"
  echo "$out" | grep "^VIOLATION\|^KNOWN\|^HARNESS" | head -5
done
