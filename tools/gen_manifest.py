#!/usr/bin/env python3
"""Regenerates /verif/MANIFEST.json from tools/manifest_table.json (one entry per built check)."""
import json, os
V = os.path.dirname(os.path.dirname(os.path.abspath(__file__)))
table = json.load(open(os.path.join(V, "tools", "manifest_table.json")))
props = [json.loads(l) for l in open(os.path.join(V, "properties.jsonl"))]
checks, na = [], []
for p in props:
    pid = p["id"]
    t = table.get(pid)
    if not t or not os.path.exists(os.path.join(V, "checks", pid.lower() + ".py")):
        na.append({"property_id": pid, "reason": (t or {}).get("na_reason", "check not built yet in this session (planned, see DESIGN.md section 3); no claim is made for it")})
        continue
    checks.append({
        "property_id": pid,
        "quick_cmd": f"./check {pid} --tier quick",
        "thorough_cmd": f"./check {pid} --tier thorough",
        "evidence_file": f"/verif/evidence/{pid}.json",
        "replay_cmd_template": f"./check {pid} --replay {{path}}",
        "engine": t["engine"],
        "level_claimed": {"category": t["level"], "text": t["text"], "design_ref": f"DESIGN.md section 3, {pid}"},
        "level_note": t["note"],
        "technique": t["technique"],
    })
m = {
    "version": 1,
    "setup_cmd": "./setup.sh",
    "hooks": {
        "guard": "RL_BLOX_VERIF",
        "enable": "no hooks exist: checks import /repo's working tree directly (PYTHONPATH=/repo, editable install) and set RL_BLOX_VERIF=1, which nothing in /repo reads",
        "baseline_off_cmd": "cd /repo && /venv/bin/python -m pytest -ra -q -p no:cacheprovider --timeout=900 --continue-on-collection-errors",
        "source_commits": [],
        "add_only": True,
    },
    "engines": [
        {"name": "E1", "path": "vlib/e1.py", "serves_properties": ["C02", "C04", "C08", "C11", "C15", "C19", "C20"], "kind_free_text": "explicit-state BFS over operation histories of the real objects with canonical-state dedup, reference model stepped alongside, fresh-object replay of every BFS tree path"},
        {"name": "E2", "path": "vlib/e2.py", "serves_properties": ["C01", "C06", "C09", "C10", "C11", "C13", "C14", "C15"], "kind_free_text": "deviation-bounded / full-product enumeration of scripted environment answers for run-to-completion training loops"},
        {"name": "E3", "path": "vlib/e3.py", "serves_properties": ["C03", "C05", "C06", "C07", "C10", "C12", "C13", "C14", "C16", "C17", "C18"], "kind_free_text": "small-scope exhaustive input products for pure functions against float64 reference models"},
    ],
    "checks": checks,
    "not_applicable": na,
    "notes": "All checks: ./check <ID> --tier quick|thorough; exit 0 held / 1 VIOLATION / 2 harness error. Known findings in known_findings.json (signature = property|entry point|failure kind).",
}
json.dump(m, open(os.path.join(V, "MANIFEST.json"), "w"), indent=1)
print("claimed:", [c["property_id"] for c in checks], "na:", [n["property_id"] for n in na])
