#!/bin/bash
# imports finished deliverables from /tmp/seed-out*/ into /verif/seeded and prints the new ids
cd "$(dirname "$0")/.."
for d in /tmp/seed-out*/C*-*; do n=$(basename $d); if [ -f $d/patch.diff ] && [ -f $d/meta.json ] && [ -f $d/demo.py ] && [ ! -d seeded/$n ]; then mkdir -p seeded/$n; cp $d/patch.diff $d/meta.json $d/demo.py seeded/$n/; echo -n "$n "; fi; done; echo
