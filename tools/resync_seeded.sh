#!/bin/bash
# tools/resync_seeded.sh PID... - re-copies the deliverables of finished seeding agents (overwrites earlier partial imports)
cd "$(dirname "$0")/.."
for pid in "$@"; do for d in /tmp/seed-out6/$pid-*; do n=$(basename $d); if [ -f $d/patch.diff ] && [ -f $d/meta.json ] && [ -f $d/demo.py ]; then mkdir -p seeded/$n; for f in patch.diff meta.json demo.py; do cmp -s $d/$f seeded/$n/$f || { [ $f = meta.json ] && [ -f seeded/$n/result-quick.json ] && continue; cp $d/$f seeded/$n/$f; echo "updated $n/$f"; }; done; fi; done; done
