#!/usr/bin/env python3
"""(operates on the scratch worktree $MUT_WT, default /tmp/wt-main, never on /repo)
tools/mutate.py <file-relative-to-/repo> <old> <new> -- <check args...>
Applies a textual mutation to /repo (first occurrence unless COUNT given), runs ./check, reverts."""
import subprocess, sys, os
args = sys.argv[1:]
sep = args.index("--")
f, old, new = args[:3]
nth = int(os.environ.get("NTH", "1"))
WT = os.environ.get("MUT_WT", "/tmp/wt-main")
if not os.path.exists(WT):
    subprocess.run(["git", "-C", "/repo", "worktree", "add", "--detach", WT, "HEAD", "-q"], check=True)
os.environ["VERIF_REPO"] = WT
path = os.path.join(WT, f)
src = open(path).read()
parts = src.split(old)
if len(parts) <= nth:
    sys.exit(f"pattern not found {nth}x in {f}")
mut = old.join(parts[:nth]) + new + old.join(parts[nth:])
open(path, "w").write(mut)
try:
    for cmd in " ".join(args[sep + 1:]).split(";;"):
        r = subprocess.run(cmd, shell=True, cwd="/verif", capture_output=True, text=True)
        out = (r.stdout + r.stderr).strip().splitlines()
        keep = [l for l in out if l.startswith(("VIOLATION", "KNOWN", "HARNESS", "  signature")) or " tier=" in l or "passed" in l or "failed" in l]
        print(f"$ {cmd} -> exit {r.returncode}")
        print("\n".join(l[:300] for l in keep[:12]))
finally:
    open(path, "w").write(src)
    subprocess.run(f"git -C {WT} status --short", shell=True)
