#!/usr/bin/env python3
"""tools/design_counts.py - rewrites the count column of the per-check table in DESIGN.md section 9.4 from evidence/*.json."""
import json, os, re
V = os.path.dirname(os.path.dirname(os.path.abspath(__file__)))
p = os.path.join(V, "DESIGN.md")
s = open(p).read()
def fmt(n):
    n = int(n)
    if n >= 10**6:
        return f"{n/1e6:.2f}M"
    if n >= 10**4:
        return f"{n/1e3:.0f}k"
    if n >= 10**3:
        return f"{n/1e3:.1f}k"
    return str(n)
out = []
tot = 0.0
in94 = False
for line in s.splitlines():
    if line.startswith("### "):
        in94 = line.startswith("### 9.4 ")
    m = in94 and re.match(r"^\| (C\d\d) \| ([^|]*) \| ([^|]*) \| (.*) \|$", line)
    if m and os.path.exists(os.path.join(V, "evidence", m.group(1) + ".json")):
        e = json.load(open(os.path.join(V, "evidence", m.group(1) + ".json")))
        c = e["coverage"]
        cell = f"{c.get('work_items', c.get('items', '?'))} / {fmt(c['evaluations'])}"
        if c.get("states"):
            cell += f" / {fmt(c['states'])} states"
        cell += f" ({e.get('wall_s', 0):.0f} s)"
        tot += float(e.get("wall_s", 0))
        line = f"| {m.group(1)} | {m.group(2)} | {cell} | {m.group(4)} |"
    out.append(line)
open(p, "w").write("\n".join(out) + "\n")
print(f"total quick wall {tot:.0f} s")
