#!/usr/bin/env python3
"""tools/confirm_seeded.py [ids...] - confirms, in scratch worktrees under /tmp, for every seeded change:
  (1) demo.py passes on the clean tree and fails with the patch applied;
  (2) the repository's full test suite still passes with the patch (patches touching disjoint files are
      applied together, one suite run per group; a failing group is re-run patch by patch).
Results are written into seeded/<id>/meta.json under "confirmed".  /repo itself is never touched.
"""
import json
import os
import re
import subprocess
import sys

V = os.path.dirname(os.path.dirname(os.path.abspath(__file__)))
ROOT = os.path.join(V, "seeded")
SUITE = "/venv/bin/python -m pytest -q -p no:cacheprovider --timeout=900"


def sh(cmd, **kw):
    return subprocess.run(cmd, shell=True, capture_output=True, text=True, **kw)


def files_of(patch):
    return set(re.findall(r"^\+\+\+ b/(\S+)", open(patch).read(), flags=re.M))


def worktree(path):
    sh(f"git -C /repo worktree remove --force {path}")
    r = sh(f"git -C /repo worktree add --detach {path} HEAD -q")
    assert r.returncode == 0, r.stderr


def apply(wt, sid):
    p = os.path.join(ROOT, sid, "patch.diff")
    r = sh(f"git -C {wt} apply --3way {p}")
    if r.returncode:
        r = sh(f"git -C {wt} apply {p}")
    return r.returncode == 0, r.stderr[-300:]


def run_demo(wt, sid):
    src = os.path.join(ROOT, sid, "demo.py")
    if not os.path.exists(src):
        return None
    dst = os.path.join(wt, f"_demo_{sid.replace('-', '_')}.py")
    sh(f"cp {src} {dst}")
    if "def test_" in open(src).read():
        cmd = f"cd {wt} && PYTHONPATH={wt} JAX_PLATFORMS=cpu /venv/bin/python -m pytest -q -p no:cacheprovider {os.path.basename(dst)}"
    else:
        cmd = f"cd {wt} && PYTHONPATH={wt} JAX_PLATFORMS=cpu /venv/bin/python {os.path.basename(dst)}"
    r = sh(cmd, timeout=1800)
    sh(f"rm -f {dst}")
    return r.returncode


def suite(wt):
    r = sh(f"cd {wt} && JAX_PLATFORMS=cpu {SUITE} 2>&1 | tail -8", timeout=5400)
    lines = [l for l in r.stdout.strip().splitlines() if " passed" in l or " failed" in l or " error" in l]
    tail = lines[-1] if lines else (r.stdout.strip().splitlines()[-1] if r.stdout.strip() else "")
    m = re.search(r"(\d+) passed", tail)
    failed = re.search(r"(\d+) failed", tail)
    return (int(m.group(1)) if m else 0, int(failed.group(1)) if failed else 0, tail)


def main():
    args = [a for a in sys.argv[1:] if not a.startswith("--")]
    skip_demo = "--suite-only" in sys.argv
    ids = args or sorted(d for d in os.listdir(ROOT) if os.path.isdir(os.path.join(ROOT, d)))
    metas = {s: json.load(open(os.path.join(ROOT, s, "meta.json"))) for s in ids}
    wt = "/tmp/confirm-seeded"
    # (1) demos
    for sid in ([] if skip_demo else ids):
        if "demo_exit_patched" in metas[sid].get("confirmed", {}):
            continue
        worktree(wt)
        clean = run_demo(wt, sid)
        ok, err = apply(wt, sid)
        patched = run_demo(wt, sid) if ok else None
        c = metas[sid].setdefault("confirmed", {})
        c.update(repo_head=sh("git -C /repo rev-parse --short HEAD").stdout.strip(), patch_applies=ok, demo_exit_clean=clean, demo_exit_patched=patched)
        print(sid, "applies" if ok else "DOES NOT APPLY " + err, "demo clean", clean, "patched", patched, flush=True)
        json.dump(metas[sid], open(os.path.join(ROOT, sid, "meta.json"), "w"), indent=1)
    # (2) test suite, grouped by disjoint files
    groups = []
    for sid in ids:
        metas[sid] = json.load(open(os.path.join(ROOT, sid, "meta.json")))  # re-read
        if "suite_passed" in metas[sid].get("confirmed", {}):
            continue
        fs = files_of(os.path.join(ROOT, sid, "patch.diff"))
        for g in groups:
            if not (g["files"] & fs):
                g["ids"].append(sid)
                g["files"] |= fs
                break
        else:
            groups.append(dict(ids=[sid], files=set(fs)))
    for g in groups:
        worktree(wt)
        applied = [s for s in g["ids"] if apply(wt, s)[0]]
        passed, failed, tail = suite(wt)
        print("suite with", applied, "->", tail, flush=True)
        if failed or passed < 31:
            for s in applied:
                worktree(wt)
                apply(wt, s)
                p1, f1, t1 = suite(wt)
                metas[s].setdefault("confirmed", {}).update(suite_run="alone", suite_passed=p1, suite_failed=f1, suite_tail=t1)
                print("  alone", s, t1, flush=True)
        else:
            for s in applied:
                metas[s].setdefault("confirmed", {}).update(suite_run="together with " + ",".join(x for x in applied if x != s), suite_passed=passed, suite_failed=failed, suite_tail=tail)
        for s in g["ids"]:
            json.dump(metas[s], open(os.path.join(ROOT, s, "meta.json"), "w"), indent=1)
    sh(f"git -C /repo worktree remove --force {wt}")


if __name__ == "__main__":
    main()
