#!/usr/bin/env python3
"""tools/run_seeded.py [--tier quick] [--demo] [--tests 'tests/test_x.py ...'] <seeded-id>...   (default: all)

For every /verif/seeded/<id>/ : make a scratch worktree of /repo HEAD under /tmp, apply patch.diff,
run the property's check against it (VERIF_REPO), record exit code and violation signatures in
seeded/<id>/result.json, remove the worktree.  /repo itself is never touched.
"""
import argparse
import json
import os
import re
import shutil
import subprocess
import sys
import time

V = os.path.dirname(os.path.dirname(os.path.abspath(__file__)))


def sh(cmd, **kw):
    return subprocess.run(cmd, shell=True, capture_output=True, text=True, **kw)


def main():
    ap = argparse.ArgumentParser()
    ap.add_argument("ids", nargs="*")
    ap.add_argument("--tier", default="quick")
    ap.add_argument("--demo", action="store_true", help="also run demo.py on the clean and the patched tree")
    ap.add_argument("--tests", default=None, help="pytest targets to run on the patched tree (relative to the repo)")
    ap.add_argument("--nproc", default="16")
    a = ap.parse_args()
    root = os.path.join(V, "seeded")
    ids = a.ids or sorted(os.listdir(root))
    rc_all = 0
    for sid in ids:
        d = os.path.join(root, sid)
        meta = json.load(open(os.path.join(d, "meta.json")))
        pid = meta["property"]
        wt = f"/tmp/seeded-run-{sid}"
        sh(f"git -C /repo worktree remove --force {wt}")
        r = sh(f"git -C /repo worktree add --detach {wt} HEAD -q")
        if r.returncode:
            print(sid, "worktree failed", r.stderr)
            continue
        res = dict(id=sid, property=pid, repo_head=sh("git -C /repo rev-parse --short HEAD").stdout.strip(), tier=a.tier)
        try:
            if a.demo and os.path.exists(os.path.join(d, "demo.py")):
                shutil.copy(os.path.join(d, "demo.py"), os.path.join(wt, "_demo.py"))
                c = sh(f"cd {wt} && PYTHONPATH={wt} JAX_PLATFORMS=cpu /venv/bin/python -m pytest -q -p no:cacheprovider _demo.py -x 2>&1 | tail -3")
                res["demo_clean"] = c.stdout.strip()[-300:]
            ap_ = sh(f"git -C {wt} apply --3way {os.path.join(d, 'patch.diff')}")
            if ap_.returncode:
                ap_ = sh(f"git -C {wt} apply {os.path.join(d, 'patch.diff')}")
            if ap_.returncode:
                res["error"] = "patch does not apply to current HEAD: " + ap_.stderr[-300:]
                print(sid, res["error"])
                continue
            if a.demo and os.path.exists(os.path.join(d, "demo.py")):
                c = sh(f"cd {wt} && PYTHONPATH={wt} JAX_PLATFORMS=cpu /venv/bin/python -m pytest -q -p no:cacheprovider _demo.py -x 2>&1 | tail -3")
                res["demo_patched"] = c.stdout.strip()[-300:]
            if a.tests:
                c = sh(f"cd {wt} && JAX_PLATFORMS=cpu /venv/bin/python -m pytest -q -p no:cacheprovider {a.tests} 2>&1 | tail -3")
                res["tests_patched"] = c.stdout.strip()[-300:]
            t0 = time.time()
            checks = meta.get("checks") or [pid]
            res["runs"] = []
            for chk in checks:
                c = sh(f"cd {V} && VERIF_REPO={wt} ./check {chk} --tier {a.tier} --nproc {a.nproc}")
                sigs = sorted(set(re.findall(r"signature=(\S.*?) count=", c.stdout)))
                res["runs"].append(dict(check=chk, exit=c.returncode, signatures=sigs, wall_s=round(time.time() - t0, 1), tail=c.stdout.strip().splitlines()[-1:] ))
            res["caught"] = any(r_["exit"] == 1 for r_ in res["runs"])
            res["harness_error"] = any(r_["exit"] not in (0, 1) for r_ in res["runs"])
            print(sid, pid, "CAUGHT" if res["caught"] else ("HARNESS-ERROR" if res["harness_error"] else "MISSED"), [s for r_ in res["runs"] for s in r_["signatures"]][:4])
            if not res["caught"]:
                rc_all = 1
        finally:
            json.dump(res, open(os.path.join(d, f"result-{a.tier}.json"), "w"), indent=1)
            sh(f"git -C /repo worktree remove --force {wt}")
    return rc_all


if __name__ == "__main__":
    sys.exit(main())
