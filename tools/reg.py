#!/usr/bin/env python3
"""tools/reg.py ID engine level 'technique' 'text' 'note' -> updates manifest_table.json and MANIFEST.json"""
import json, sys, subprocess, os
V = os.path.dirname(os.path.dirname(os.path.abspath(__file__)))
pid, engine, level, technique, text, note = sys.argv[1:7]
p = os.path.join(V, "tools", "manifest_table.json")
t = json.load(open(p))
t[pid] = {"engine": engine, "level": level, "technique": technique, "text": text, "note": note}
json.dump(t, open(p, "w"), indent=1)
subprocess.run([sys.executable, os.path.join(V, "tools", "gen_manifest.py")], check=True)
