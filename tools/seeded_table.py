#!/usr/bin/env python3
"""Writes seeded/README.md: one row per seeded change (property, what it needs, which signatures caught it)."""
import json, os
V = os.path.dirname(os.path.dirname(os.path.abspath(__file__)))
R = os.path.join(V, "seeded")
rows = []
NOTES = json.load(open(os.path.join(R, "strengthened.json"))) if os.path.exists(os.path.join(R, "strengthened.json")) else {}
for s in sorted(os.listdir(R), key=lambda x: (x.split("-")[0], int(x.split("-")[1])) if "-" in x and x[0] == "C" else ("Z", 0)):
    d = os.path.join(R, s)
    if not os.path.isdir(d):
        continue
    m = json.load(open(os.path.join(d, "meta.json")))
    res = {}
    for t in ("quick", "thorough"):
        p = os.path.join(d, f"result-{t}.json")
        if os.path.exists(p):
            res[t] = json.load(open(p))
    r = res.get("quick", {})
    sigs = sorted({x for run in r.get("runs", []) for x in run.get("signatures", [])})
    c = m.get("confirmed", {})
    conf = []
    if c:
        conf.append("demo clean %s / patched %s" % ("pass" if c.get("demo_exit_clean") == 0 else c.get("demo_exit_clean"), "fail" if c.get("demo_exit_patched") not in (0, None) else c.get("demo_exit_patched")))
        if "suite_passed" in c:
            conf.append(f"suite {c['suite_passed']} passed ({c.get('suite_run','')[:40]})")
    rows.append((s, m.get("property"), m.get("title", "").replace("|", "/"), (m.get("needs_to_manifest", "") or "").replace("|", "/").replace("\n", " ")[:260],
                 "CAUGHT" if r.get("caught") else ("not run" if not r else "MISSED"), "; ".join(x.split("|", 1)[1] for x in sigs[:3]) + (" ..." if len(sigs) > 3 else ""), ", ".join(conf), NOTES.get(s, "")))
with open(os.path.join(R, "README.md"), "w") as f:
    f.write("# Seeded property-breaking changes\n\nWritten by sub-agents that saw only the property text and a scratch worktree (nothing from /verif). "
            "`tools/run_seeded.py` applies each patch to a scratch worktree of /repo HEAD and runs the property's quick check against it; "
            "`tools/confirm_seeded.py` confirms that demo.py passes on the clean tree and fails with the patch and that the repository's test suite still passes with the patch.\n\n")
    f.write("| id | change | needs to manifest | quick check | signatures (first 3) | confirmation | check strengthened because of it |\n|---|---|---|---|---|---|---|\n")
    for r in rows:
        f.write("| " + " | ".join(str(x) for x in (r[0], r[2], r[3], r[4], r[5], r[6], r[7])) + " |\n")
print(len(rows), "rows;", sum(1 for r in rows if r[4] == "CAUGHT"), "caught;", [r[0] for r in rows if r[4] == "MISSED"])
