"""C13 - policy heads: sampling, log-probability and entropy describe one distribution (E3 + E2).

E3: SoftmaxPolicy / GaussianPolicy / GaussianTanhPolicy, every public method, every input rank
(unbatched, N = 1..n), every action dimension 1..m, parameter sets including logits +-50 and
log-variances beyond the clip range, a key alphabet; tabular and network greedy policies over the
complete product of small tables (with ties), epsilon in {0, 1} with explorer-owned rolls.
E2: the epsilon-greedy acting of train_dqn / train_nature_dqn / train_ddqn / train_ddqn_per with
the roll vector owned by the explorer (all placements just below / just above / exactly on the
documented schedule over a 6-step window) and of the five tabular trainers (epsilon 0 and 1).
"""

import itertools
import math
from unittest import mock

import gymnasium as gym
import jax
import jax.numpy as jnp
import numpy as np
from flax import nnx

from vlib import num
from vlib.senv import HorizonExceeded, ScriptEnv

PROPERTY = "C13"
LEVEL = "exploration"
USES_JAX = True
CLEAR_EVERY = 40
BUDGET_S = {"quick": 900, "thorough": 3600}  # generous: the machine is shared; unloaded 16 cores need ~1 / ~4 min
RULE = (
    "heads: full product class x head layout x action dim x parameter set x input rank (unbatched, N=1..n) x "
    "observation block x {__call__, entropy, log_probability over an action alphabet (every discrete action / "
    "mean+k*std, k in {0,+-0.5,+-1,3}), sample over a key alphabet}; one evaluation = one public call compared with the "
    "float64 closed form; non-trivial = the head is not the canonical one (zero mean, unit std / uniform logits) and, "
    "for log_probability, the action is not the mode; distinct = distinct (class, layout, dim, parameter set, rank, "
    "observation block, method, action pattern or key). greedy: full product of tables over a 3-value alphabet "
    "(ties included) x observation [x epsilon in {0,1} x key / owned roll]; non-trivial = the queried row is not "
    "constant. loops: per (routine, total_timesteps, window start, learning_starts, episode script) the full product "
    "of roll placements {below band, above band, exactly epsilon} over a 6-step window; one evaluation = one acting "
    "decision; non-trivial = every decision (its expectation depends on the placement); distinct = distinct "
    "(config, step, placement vector)"
)
ASSUMPTIONS = [
    "network forward passes are trusted: the float64 references take the float32 logits / mean / log-variance from the same forward pass of the wrapped network",
    "the standard noise of a Gaussian head is read off the canonical head (mean 0, std 1) of the same class for the same key and shape; other heads must reproduce mean + std*noise to 8 float32 ulps of the operands",
    "a sampled discrete action with reference probability < 1e-12 is judged impossible (false-alarm probability < 1e-7 per run)",
    "epsilon schedule of the DQN family restated from the docstrings: 1.0 -> 0.1 linearly over the first 10% of total_timesteps, 0.1 afterwards; both the endpoint-inclusive discretisation and the continuous line are admitted (band), rolls are placed 1e-4 outside the band; on the flat part a roll exactly equal to float32(0.1) must act greedily (explore iff roll < epsilon, the only convention under which P(explore) = epsilon for a uniform roll in [0,1))",
    "action alphabets, observations, parameter sets, keys and table values are the finite alphabets listed in the evidence; real-valued inputs outside them are not covered",
]
SIG = "C13|{}|{}"

# failure kinds (fixed vocabulary)
K_UNDEF = "not-defined-for-input-shape"  # raises, or result has the wrong shape / dtype kind
K_VALUE = "wrong-value"
K_NOTDIST = "probabilities-not-a-distribution"
K_SUPPORT = "sample-outside-support-or-negligible-probability"
K_AFFINE = "sample-not-mean+std*noise"
K_NOISE = "sample-noise-degenerate"
K_STD = "std-not-exp-clip-half-logvar"
K_NOTMAX = "returned-action-not-a-maximiser"
K_EPS0 = "epsilon0-not-greedy"
K_EPS1 = "epsilon1-depends-on-values"
K_RANGE = "action-out-of-range"
K_EXPLORE_HI = "explores-when-roll>epsilon"
K_GREEDY_LO = "greedy-when-roll<epsilon"
K_TIE = "explores-when-roll==epsilon"
K_WARM = "not-random-before-learning_starts"
K_ARGMAX = "greedy-step-action-not-argmax-of-current-q"
K_SAMPLED = "explore-step-action-not-the-sampled-one"
K_MULTI = "sampler-called-more-than-once-per-step"
K_RAISED = "raised"
K_EPS0_LOOP = "epsilon0-action-not-greedy-on-current-estimates"
K_EPS1_LOOP = "epsilon1-actions-depend-on-the-table"

D_OBS = 3
HALF_LOG_2PI = 0.5 * math.log(2.0 * math.pi)
LV_CONSTS = [-60.0, -41.0, -39.0, 0.0, 3.9, 4.1, 60.0]
K_ACT = [0.0, 0.5, -0.5, 1.0, -1.0, 3.0]


# =========================================================================================
# enumeration
# =========================================================================================


def items(tier, seed):
    quick = tier == "quick"
    out = []
    dims = [1, 2, 3] if quick else [1, 2, 3, 4]
    nmax = 3 if quick else 4
    seeds = [seed, seed + 1] if quick else [seed, seed + 1, seed + 2]
    nkeys = 6 if quick else 10
    nobs = 2 if quick else 4
    # -- softmax ---------------------------------------------------------------------------
    for A in dims:
        for s in seeds:
            out.append(dict(name=f"softmax-A{A}-s{s}", kind="softmax", A=A, net_seed=s, nmax=nmax, nkeys=nkeys, nobs=nobs, seed=seed))
    # -- gaussian heads -------------------------------------------------------------------
    layouts = [("GaussianPolicy", True), ("GaussianPolicy", False), ("GaussianTanhPolicy", False)]
    if not quick:
        layouts.append(("GaussianTanhPolicy", True))
    for (cls, shared), A, s in itertools.product(layouts, dims, seeds):
        for half in (0, 1):
            out.append(
                dict(name=f"gauss-{cls}-{'shared' if shared else 'split'}-A{A}-s{s}-p{half}", kind="gauss", cls=cls, shared=shared,
                     A=A, net_seed=s, half=half, nmax=nmax, nkeys=nkeys, nobs=nobs, seed=seed)
            )
    # -- greedy policies -----------------------------------------------------------------
    for A in ([1, 2, 3] if quick else [1, 2, 3, 4]):
        out.append(dict(name=f"tabgreedy-A{A}", kind="tabgreedy", A=A, nkeys=8 if quick else 12, seed=seed))
        out.append(dict(name=f"netgreedy-A{A}", kind="netgreedy", A=A, seed=seed, nseeds=2 if quick else 4))
    # -- epsilon-greedy acting in the DQN family ---------------------------------------
    windows = [(6, 0), (20, 0), (60, 0), (60, 3), (1000, 0), (1000, 97)]
    if not quick:
        windows += [(10, 0), (30, 0), (100, 6), (1000, 48), (5000, 250), (5000, 497)]
    scripts_ = ["cccccc", "cTccUc"]
    for algo in ("train_dqn", "train_nature_dqn", "train_ddqn", "train_ddqn_per"):
        for (T, w), sc in itertools.product(windows, scripts_):
            if quick and sc != "cccccc" and (T, w) not in ((6, 0), (60, 3)):
                continue  # episode ends inside the window: two windows suffice in the quick tier
            out.append(dict(name=f"loop-{algo}-T{T}-w{w}-ls0-{sc}", kind="loop", algo=algo, T=T, w=w, ls=0, script=sc, seed=seed))
        if algo != "train_dqn":
            for T in ([6, 1000] if quick else [6, 20, 60, 1000]):
                for ls in ([2] if quick else [2, 5]):
                    out.append(dict(name=f"loop-{algo}-T{T}-w0-ls{ls}-cccccc", kind="loop", algo=algo, T=T, w=0, ls=ls, script="cccccc", seed=seed))
    # -- epsilon in {0,1} inside the tabular trainers --------------------------------------
    for algo in ("train_q_learning", "train_sarsa", "train_double_q_learning", "train_dynaq", "train_monte_carlo"):
        for sc in (["cccccc", "ccTcUc"] if quick else ["cccccccc", "ccTcUccc", "cTcTcUcU"]):
            out.append(dict(name=f"tabloop-{algo}-{sc}", kind="tabloop", algo=algo, script=sc, seed=seed, nseeds=2 if quick else 4))
    return out


def work(item, col):
    {"softmax": work_softmax, "gauss": work_gauss, "tabgreedy": work_tabgreedy, "netgreedy": work_netgreedy,
     "loop": work_loop, "tabloop": work_tabloop}[item["kind"]](item, col)


# =========================================================================================
# shared alphabets
# =========================================================================================

_OBS_ROWS = np.array(
    [[1.0, 0.0, -1.0], [0.5, 2.0, -0.25], [-2.0, 1.0, 3.0], [0.0, 0.0, 0.0], [0.25, -1.5, 0.75], [3.0, -3.0, 1.0], [-0.5, 0.5, 2.5]],
    dtype=np.float32,
)


def obs_block(rank, r, seed):
    """rank None -> one unbatched observation; rank N -> (N, D). r rotates through the rows."""
    off = (r * 2 + seed) % len(_OBS_ROWS)
    if rank is None:
        return _OBS_ROWS[off].copy()
    idx = [(off + i) % len(_OBS_ROWS) for i in range(rank)]
    return _OBS_ROWS[idx].copy()


def keys(n, seed):
    return [jax.random.key(1000 * seed + 7 * i + 5) for i in range(n)]


def call(col, entry, fn, *args, detail=None):
    """Runs one implementation call; an exception is the 'not defined for' violation."""
    try:
        out = fn(*args)
        jax.block_until_ready(out)
        return True, out
    except Exception as ex:  # noqa: BLE001 - the implementation raising IS the observation
        d = dict(detail or {})
        d.update(raised=type(ex).__name__, message=str(ex)[:200])
        col.violation(SIG.format(entry, K_UNDEF), d)
        col.outcome("implementation_raised")
        return False, None


def shape_ok(col, entry, got, want_shape, detail, integer=False):
    a = np.asarray(got)
    if a.shape != tuple(want_shape) or (integer and a.dtype.kind not in "iu") or (not integer and a.dtype.kind != "f"):
        d = dict(detail)
        d.update(got_shape=list(a.shape), want_shape=list(want_shape), dtype=str(a.dtype))
        col.violation(SIG.format(entry, K_UNDEF), d)
        return False
    return True


# =========================================================================================
# softmax head
# =========================================================================================


def softmax_psets(A):
    # "levels": the whole logit row is shifted by an observation-dependent offset of the order of +-300, so rows
    # of one batch sit on very different levels (a per-row softmax does not care; anything batch-wide does)
    ps = [dict(k="init"), dict(k="uniform"), dict(k="scale", s=30.0), dict(k="levels", s=300.0)]
    for j in sorted({0, A - 1}):
        ps.append(dict(k="bias", j=j, v=50.0))
        ps.append(dict(k="bias", j=j, v=-50.0))
    if A >= 2:
        ps.append(dict(k="mixed"))
        # logits whose spread exceeds the float32 range, and an action masked out with a -inf logit: the log-probability of
        # an impossible action is -inf (or hugely negative), every other number stays finite
        ps.append(dict(k="huge"))
        ps.append(dict(k="masked"))
    return ps


def make_softmax(A, net_seed, ps):
    from rl_blox.blox.function_approximator.mlp import MLP
    from rl_blox.blox.function_approximator.policy_head import SoftmaxPolicy

    net = MLP(D_OBS, A, [3], "tanh", nnx.Rngs(net_seed))
    L = net.output_layer
    if ps["k"] == "uniform":
        L.kernel.value = jnp.zeros_like(L.kernel.value)
        L.bias.value = jnp.full((A,), 0.75, dtype=jnp.float32)
    elif ps["k"] == "scale":
        L.kernel.value = L.kernel.value * ps["s"]
    elif ps["k"] == "levels":
        K = np.array(L.kernel.value)
        K = K + ps["s"] * np.sign(K[:, :1] + 1e-6)  # the same large column added to every action's weights
        L.kernel.value = jnp.asarray(K, dtype=jnp.float32)
    elif ps["k"] == "bias":
        b = np.zeros(A, np.float32)
        b[ps["j"]] = ps["v"]
        L.bias.value = jnp.asarray(b)
    elif ps["k"] == "mixed":
        b = np.zeros(A, np.float32)
        b[0], b[-1] = 50.0, -50.0
        L.bias.value = jnp.asarray(b)
    elif ps["k"] in ("huge", "masked"):
        b = np.zeros(A, np.float32)
        if ps["k"] == "huge":
            b[0], b[-1] = 3e38, -3e38
        else:
            b[-1] = -np.inf
        L.kernel.value = jnp.zeros_like(L.kernel.value)
        L.bias.value = jnp.asarray(b)
    return SoftmaxPolicy(net)


def work_softmax(item, col):
    A, seed = item["A"], item["seed"]
    ranks = [None] + list(range(1, item["nmax"] + 1))
    kk = keys(item["nkeys"], seed)
    for pi, ps in enumerate(softmax_psets(A)):
        pol = make_softmax(A, item["net_seed"], ps)
        canonical = ps["k"] == "uniform"
        for rank, r in itertools.product(ranks, range(item["nobs"])):
            obs = jnp.asarray(obs_block(rank, r, seed))
            bshape = obs.shape[:-1]
            base = dict(A=A, net_seed=item["net_seed"], pset=ps, rank=rank, obs=np.asarray(obs))
            ktag = ("softmax", A, item["net_seed"], pi, rank, r)
            logits = np.asarray(pol.net(obs), dtype=np.float64)
            # float32 logits of magnitude M carry a rounding error of ~eps32*M that passes straight into log-probabilities;
            # for the large-offset parameter set the comparison allows for it (the other sets keep the strict policy)
            slack = 16 * float(np.finfo(np.float32).eps) * float(np.max(np.abs(logits))) if ps["k"] == "levels" else 0.0

            extreme = ps["k"] in ("huge", "masked")

            def close_(a, b):
                if extreme:
                    # impossible actions (reference -inf or below -1e30): -inf or hugely negative, never nan; the rest as usual
                    a, b = np.asarray(a, dtype=np.float64), np.asarray(b, dtype=np.float64)
                    if a.shape != b.shape or np.any(np.isnan(a)):
                        return False
                    imp = b < -1e30
                    return bool(np.all(a[imp] < -1e30)) and (not np.any(~imp) or num.close(a[~imp], b[~imp]))
                if slack == 0.0:
                    return num.close(a, b)
                a, b = np.asarray(a, dtype=np.float64), np.asarray(b, dtype=np.float64)
                return a.shape == b.shape and bool(np.all(np.isfinite(a))) and bool(np.all(np.abs(a - b) <= 1e-5 * np.maximum(1.0, np.abs(b)) + slack))

            with np.errstate(all="ignore"):
                lse = np.log(np.sum(np.exp(logits - logits.max(-1, keepdims=True)), -1, keepdims=True)) + logits.max(-1, keepdims=True)
                logp_ref = logits - lse
            p_ref = np.exp(logp_ref)
            if np.any(p_ref < 1e-12):
                col.outcome("softmax_cases_with_negligible_actions")
            # __call__ : action probabilities
            ok, pr = call(col, "SoftmaxPolicy.__call__", pol, obs, detail=base)
            col.tick(1, None if canonical else ktag + ("call",))
            if ok and shape_ok(col, "SoftmaxPolicy.__call__", pr, bshape + (A,), base):
                pr = np.asarray(pr, dtype=np.float64)
                if np.any(pr < 0) or np.any(np.abs(pr.sum(-1) - 1.0) > 1e-5) or not np.all(np.isfinite(pr)):
                    col.violation(SIG.format("SoftmaxPolicy.__call__", K_NOTDIST), dict(base, probs=pr))
                elif not close_(pr, p_ref):
                    col.violation(SIG.format("SoftmaxPolicy.__call__", K_VALUE), dict(base, probs=pr, ref=p_ref))
            # entropy
            ok, en = call(col, "SoftmaxPolicy.entropy", pol.entropy, obs, detail=base)
            col.tick(1, None if canonical else ktag + ("entropy",))
            if ok and shape_ok(col, "SoftmaxPolicy.entropy", en, bshape, base):
                ref = -np.sum(np.where(p_ref > 0, p_ref * logp_ref, 0.0), -1)
                if not close_(en, ref):
                    col.violation(SIG.format("SoftmaxPolicy.entropy", K_VALUE), dict(base, got=en, ref=ref))
            # log_probability of every action (constant patterns) and two rotating patterns
            pats = [("const", a) for a in range(A)]
            if rank is not None and rank > 1 and A > 1:
                pats += [("rot", 0), ("rot", 1)]
            for kind, a0 in pats:
                if rank is None:
                    act = np.int32(a0)
                elif kind == "const":
                    act = np.full(rank, a0, np.int32)
                else:
                    act = np.asarray([(i + a0) % A for i in range(rank)], np.int32)
                d = dict(base, action=act)
                ok, lp = call(col, "SoftmaxPolicy.log_probability", pol.log_probability, obs, jnp.asarray(act), detail=d)
                ref = np.take_along_axis(logp_ref, np.asarray(act, np.int64)[..., None], -1)[..., 0]
                nontriv = not canonical and bool(np.any(np.asarray(act) != np.argmax(logp_ref, -1)))
                col.tick(1, ktag + ("logp", kind, a0) if nontriv else None)
                if ok and shape_ok(col, "SoftmaxPolicy.log_probability", lp, bshape, d):
                    if not close_(lp, ref):
                        col.violation(SIG.format("SoftmaxPolicy.log_probability", K_VALUE), dict(d, got=lp, ref=ref))
                    elif np.max(np.abs(ref)) > 20:
                        col.outcome("softmax_logp_cases_beyond_20_nats")
            # sample: inside the support, never an action of negligible probability
            for ki, key in enumerate(kk):
                d = dict(base, key_index=ki)
                ok, s = call(col, "SoftmaxPolicy.sample", pol.sample, obs, key, detail=d)
                col.tick(1, None if canonical else ktag + ("sample", ki))
                if ok and shape_ok(col, "SoftmaxPolicy.sample", s, bshape, d, integer=True):
                    s = np.asarray(s, np.int64)
                    if np.any(s < 0) or np.any(s >= A):
                        col.violation(SIG.format("SoftmaxPolicy.sample", K_SUPPORT), dict(d, sample=s))
                    else:
                        ps_ = np.take_along_axis(p_ref, s[..., None], -1)[..., 0]
                        if np.any(ps_ < 1e-12):
                            col.violation(SIG.format("SoftmaxPolicy.sample", K_SUPPORT), dict(d, sample=s, prob=ps_))
    col.sample(dict(kind="softmax", A=A, psets=softmax_psets(A)))


# =========================================================================================
# Gaussian heads
# =========================================================================================


def gauss_psets(A):
    ps = [dict(k="init"), dict(k="zero")]
    ps += [dict(k="lv_const", c=c) for c in LV_CONSTS]
    ps += [dict(k="lv_mixed", rot=0), dict(k="lv_mixed", rot=3)]
    ps += [dict(k="scale", s=10.0, shift=0.3), dict(k="lv_obsdep", s=40.0)]
    return ps


def _out_get(net, A):
    if net.shared_head:
        L = net.output_layers[0]
        W, b = np.array(L.kernel.value), np.array(L.bias.value)
        return W[:, :A], b[:A], W[:, A:], b[A:]
    Lm, Ll = net.output_layers
    return np.array(Lm.kernel.value), np.array(Lm.bias.value), np.array(Ll.kernel.value), np.array(Ll.bias.value)


def _out_set(net, Wm, bm, Wl, bl):
    f = lambda x: jnp.asarray(np.asarray(x, np.float32))  # noqa: E731
    if net.shared_head:
        L = net.output_layers[0]
        L.kernel.value = f(np.concatenate([Wm, Wl], 1))
        L.bias.value = f(np.concatenate([bm, bl], 0))
    else:
        Lm, Ll = net.output_layers
        Lm.kernel.value, Lm.bias.value = f(Wm), f(bm)
        Ll.kernel.value, Ll.bias.value = f(Wl), f(bl)


def make_gauss(cls, shared, A, net_seed, ps):
    from rl_blox.blox.function_approximator.gaussian_mlp import GaussianMLP
    from rl_blox.blox.function_approximator import policy_head as ph

    net = GaussianMLP(shared, D_OBS, A, [3], "tanh", nnx.Rngs(net_seed))
    Wm, bm, Wl, bl = _out_get(net, A)
    k = ps["k"]
    if k == "zero":
        Wm, bm, Wl, bl = 0 * Wm, 0 * bm, 0 * Wl, 0 * bl
    elif k == "lv_const":
        Wl, bl = 0 * Wl, np.full(A, ps["c"])
    elif k == "lv_mixed":
        Wl = 0 * Wl
        bl = np.asarray([LV_CONSTS[(ps["rot"] + 2 * d) % len(LV_CONSTS)] for d in range(A)])
    elif k == "scale":
        Wm, Wl, bm = Wm * ps["s"], Wl * ps["s"], bm + ps["shift"]
    elif k == "lv_obsdep":
        Wl = Wl * ps["s"]
    _out_set(net, Wm, bm, Wl, bl)
    if cls == "GaussianPolicy":
        return ph.GaussianPolicy(net), None
    if k == "zero":
        space = gym.spaces.Box(np.full(A, -1.0, np.float32), np.full(A, 1.0, np.float32))
    else:
        lo = np.asarray([-1.0, 0.0, -2.0, -0.5][:A], np.float32)
        hi = np.asarray([2.0, 3.0, 2.0, 0.5][:A], np.float32)
        space = gym.spaces.Box(lo, hi)
    return ph.GaussianTanhPolicy(net, space), space


def work_gauss(item, col):
    cls, shared, A, seed = item["cls"], item["shared"], item["A"], item["seed"]
    ranks = [None] + list(range(1, item["nmax"] + 1))
    kk = keys(item["nkeys"], seed)
    psets = gauss_psets(A)
    mine = [p for i, p in enumerate(psets) if p["k"] == "zero" or i % 2 == item["half"]]
    canon_pol, _ = make_gauss(cls, shared, A, item["net_seed"], dict(k="zero"))
    noise = {}  # (rank, key index) -> standard noise read off the canonical head
    E_S = cls + ".sample"
    for rank in ranks:
        obs = jnp.asarray(obs_block(rank, 0, seed))
        want = obs.shape[:-1] + (A,)
        for ki, key in enumerate(kk):
            d = dict(cls=cls, shared=shared, A=A, pset="zero", rank=rank, key_index=ki)
            ok, e = call(col, E_S, canon_pol.sample, obs, key, detail=d)
            col.tick(1)
            if ok and shape_ok(col, E_S, e, want, d):
                noise[(rank, ki)] = np.asarray(e, np.float64)
        have = [noise[(rank, ki)] for ki in range(len(kk)) if (rank, ki) in noise]
        if len(have) == len(kk):
            flat = np.stack([h.ravel() for h in have])
            degenerate = (
                not np.all(np.isfinite(flat))
                or np.all(flat == 0)
                or all(np.array_equal(flat[0], f) for f in flat[1:])
                or (flat.shape[1] > 1 and np.all(flat == flat[:, :1]))
                or np.max(np.abs(flat)) > 8
            )
            if degenerate:
                col.violation(SIG.format(E_S, K_NOISE), dict(cls=cls, shared=shared, A=A, rank=rank, noise=flat))
    for ps in mine:
        pi = psets.index(ps)
        pol, space = make_gauss(cls, shared, A, item["net_seed"], ps)
        canonical = ps["k"] == "zero"
        for rank, r in itertools.product(ranks, range(item["nobs"])):
            obs = jnp.asarray(obs_block(rank, r, seed))
            bshape = obs.shape[:-1]
            full = bshape + (A,)
            base = dict(cls=cls, shared=shared, A=A, net_seed=item["net_seed"], pset=ps, rank=rank, obs=np.asarray(obs))
            ktag = (cls, shared, A, item["net_seed"], pi, rank, r)
            y32, lv32 = pol.net(obs)
            y32, lv32 = np.asarray(y32), np.asarray(lv32)
            half = 0.5 * lv32.astype(np.float64)
            logstd = np.clip(half, -20.0, 2.0)
            std = np.exp(logstd)
            col.outcome("logvar_dims_clipped_low", int(np.sum(half < -20)))
            col.outcome("logvar_dims_clipped_high", int(np.sum(half > 2)))
            col.outcome("logvar_dims_unclipped", int(np.sum((half >= -20) & (half <= 2))))
            clip_matters = bool(np.any(np.abs(half - logstd) > 1e-3))
            narrow_clip_matters = bool(np.any((half < -5) | (half > 1)))  # a tighter clip range would change the value
            # ---- __call__ ---------------------------------------------------------------
            E = cls + ".__call__"
            ok, out = call(col, E, pol, obs, detail=base)
            col.tick(1, None if canonical else ktag + ("call",))
            mean32 = None
            if ok and cls == "GaussianPolicy":
                if shape_ok(col, E, out, full, base):
                    mean32 = np.asarray(out)
                    if not num.ieee_equal(mean32, y32):
                        col.violation(SIG.format(E, K_VALUE), dict(base, got=mean32, ref=y32))
            elif ok:
                if not (isinstance(out, tuple) and len(out) == 2):
                    col.violation(SIG.format(E, K_UNDEF), dict(base, got=repr(type(out))))
                elif shape_ok(col, E, out[0], full, base) and shape_ok(col, E, out[1], full, base):
                    mean32, std32 = np.asarray(out[0]), np.asarray(out[1])
                    sc = (space.high.astype(np.float64) - space.low) / 2.0
                    bi = (space.high.astype(np.float64) + space.low) / 2.0
                    mref = np.tanh(y32.astype(np.float64)) * sc + bi
                    if not num.close(mean32, mref):
                        col.violation(SIG.format(E, K_VALUE), dict(base, mean=mean32, ref=mref))
                    with np.errstate(divide="ignore", invalid="ignore"):
                        ls_impl = np.log(std32.astype(np.float64))
                    if not num.close(ls_impl, logstd):
                        col.violation(SIG.format(E, K_STD), dict(base, log_std=ls_impl, ref=logstd, half_log_var=half))
                    elif clip_matters:
                        col.outcome("std_cases_where_dropping_the_clip_changes_the_value")
            if mean32 is None:
                # the reference mean of the later comparisons: same forward pass of the wrapped net
                mean32 = y32 if cls == "GaussianPolicy" else None
            if mean32 is None:
                continue
            mean64 = mean32.astype(np.float64)
            # ---- entropy ---------------------------------------------------------------------
            E = cls + ".entropy"
            ok, en = call(col, E, pol.entropy, obs, detail=base)
            col.tick(1, None if canonical else ktag + ("entropy",))
            if ok and shape_ok(col, E, en, full, base):
                ref = 0.5 + HALF_LOG_2PI + logstd
                if not num.close(en, ref):
                    col.violation(SIG.format(E, K_VALUE), dict(base, got=en, ref=ref, half_log_var=half))
                else:
                    if clip_matters:
                        col.outcome("entropy_cases_where_dropping_the_clip_changes_the_value")
                    if narrow_clip_matters:
                        col.outcome("entropy_cases_where_a_narrower_clip_changes_the_value")
            # ---- log_probability -----------------------------------------------------------
            E = cls + ".log_probability"
            std32 = std.astype(np.float32)
            pats = [("const", k) for k in K_ACT]
            if rank is not None and rank > 1 or A > 1:
                pats.append(("rot", 0))
            for kind, k0 in pats:
                if kind == "const":
                    kmat = np.full(full, k0, np.float32)
                else:
                    kmat = np.asarray([K_ACT[i % len(K_ACT)] for i in range(int(np.prod(full)))], np.float32).reshape(full)
                act32 = (mean32 + kmat * std32).astype(np.float32)
                d = dict(base, k=kmat, action=act32)
                ok, lp = call(col, E, pol.log_probability, obs, jnp.asarray(act32), detail=d)
                z = (act32.astype(np.float64) - mean64) / std
                ref = np.sum(-logstd - HALF_LOG_2PI - 0.5 * z * z, -1)
                nontriv = not canonical and bool(np.any(z != 0))
                col.tick(1, ktag + ("logp", kind, k0) if nontriv else None)
                if ok and shape_ok(col, E, lp, bshape, d):
                    if not num.close(lp, ref):
                        col.violation(SIG.format(E, K_VALUE), dict(d, got=lp, ref=ref, mean=mean32, half_log_var=half))
                    else:
                        if clip_matters:
                            col.outcome("logp_cases_where_dropping_the_clip_changes_the_value")
                        if narrow_clip_matters:
                            col.outcome("logp_cases_where_a_narrower_clip_changes_the_value")
                        if A > 1 and np.any(np.abs(z) > 0):
                            col.outcome("logp_cases_summing_over_several_dimensions")
            # ---- sample = mean + std * key-determined noise ---------------------------------
            # (i) each sample against mean + std*noise with the 1e-5 policy (the jitted sample recomputes the
            #     forward pass, so its mean may differ from the eager one by network rounding);
            # (ii) differences of samples under consecutive keys cancel the mean: std*(noise_i - noise_j) sharp.
            got = {}
            for ki, key in enumerate(kk):
                if (rank, ki) not in noise:
                    continue
                d = dict(base, key_index=ki)
                ok, s = call(col, E_S, pol.sample, obs, key, detail=d)
                col.tick(1, None if canonical else ktag + ("sample", ki))
                if ok and shape_ok(col, E_S, s, full, d):
                    eps = noise[(rank, ki)]
                    ref = mean64 + std * eps
                    s64 = np.asarray(s, np.float64)
                    tol = 1e-5 * np.maximum(1.0, np.abs(ref)) + 1e-5 * np.abs(std * eps)
                    if not np.all(np.abs(s64 - ref) <= tol):
                        col.violation(SIG.format(E_S, K_AFFINE), dict(d, sample=s64, ref=ref, mean=mean32, std=std, noise=eps))
                        continue
                    got[ki] = s64
                    if clip_matters:
                        col.outcome("sample_cases_where_dropping_the_clip_changes_the_value")
                    if np.any(np.abs(std * eps) > tol):
                        col.outcome("sample_cases_where_the_noise_term_is_visible")
            for ki in sorted(got):
                kj = ki + 1
                if kj not in got:
                    continue
                dn = noise[(rank, ki)] - noise[(rank, kj)]
                ref = std * dn
                tol = 4 * num.EPS32 * (np.abs(got[ki]) + np.abs(got[kj])) + 1e-5 * np.abs(ref) + 1e-30
                col.tick(1, None if canonical else ktag + ("sample-diff", ki))
                if not np.all(np.abs((got[ki] - got[kj]) - ref) <= tol):
                    col.violation(SIG.format(E_S, K_AFFINE), dict(base, key_index=[ki, kj], sample_i=got[ki], sample_j=got[kj], std=std, noise_difference=dn))
                elif np.any(np.abs(ref) > 10 * tol):
                    col.outcome("sample_difference_cases_where_std_is_resolved")
    col.sample(dict(kind="gauss", cls=cls, shared=shared, A=A, psets=mine))


# =========================================================================================
# greedy / epsilon-greedy on tables and networks
# =========================================================================================

TAB_VALUES = [-1.0, 0.0, 2.0]


def _patched_uniform(roll):
    real = jax.random.uniform

    def fake(key, shape=(), *a, **k):
        if tuple(shape) == ():
            return jnp.asarray(roll, dtype=jnp.float32)
        return real(key, shape, *a, **k)

    return mock.patch("jax.random.uniform", fake)


def work_tabgreedy(item, col):
    from rl_blox.blox import value_policy as vp

    A, seed = item["A"], item["seed"]
    rows = [np.asarray(v, np.float32) for v in itertools.product(TAB_VALUES, repeat=A)]
    other = np.asarray([TAB_VALUES[(i + seed) % 3] for i in range(A)], np.float32)
    # greedy_policy: complete product of 2-row tables
    E = "value_policy.greedy_policy"
    for r0, r1 in itertools.product(range(len(rows)), repeat=2):
        tab = np.stack([rows[r0], rows[r1]])
        jt = jnp.asarray(tab)
        for obs in (0, 1):
            d = dict(table=tab, observation=obs)
            ok, a = call(col, E, vp.greedy_policy, jt, obs if (r0 + obs) % 2 else np.int64(obs), detail=d)
            row = tab[obs]
            nontriv = row.max() != row.min()
            col.tick(1, ("tabgreedy", A, r0, r1, obs) if nontriv else None)
            if not ok:
                continue
            if np.asarray(a).shape != () or np.asarray(a).dtype.kind not in "iu":
                col.violation(SIG.format(E, K_UNDEF), dict(d, got=repr(a)))
                continue
            a = int(a)
            if not (0 <= a < A):
                col.violation(SIG.format(E, K_RANGE), dict(d, action=a))
            elif row[a] != row.max():
                col.violation(SIG.format(E, K_NOTMAX), dict(d, action=a))
            elif nontriv and np.sum(row == row.max()) > 1:
                col.outcome("greedy_rows_with_tied_maximum")
    # epsilon_greedy_policy, epsilon in {0, 1}; the queried row runs over the full product
    E = "value_policy.epsilon_greedy_policy"
    kk = keys(item["nkeys"], seed)
    modes = [("key", None)] + [("roll", r) for r in (0.0, 0.5, float(np.nextafter(np.float32(1.0), np.float32(0.0))))]
    for (mode, roll), obs in itertools.product(modes, (0, 1)):
        for ki, key in enumerate(kk if mode == "key" else kk[:2]):
            eps1_results = {}
            for ri, row in enumerate(rows):
                tab = np.stack([row, other] if obs == 0 else [other, row])
                jt = jnp.asarray(tab)
                for eps in (0, 1, 0.0, 1.0):
                    d = dict(table=tab, observation=obs, epsilon=eps, key_index=ki, roll=roll)
                    if mode == "roll":
                        with _patched_uniform(roll):
                            ok, a = call(col, E, vp.epsilon_greedy_policy, jt, obs, eps, key, detail=d)
                    else:
                        ok, a = call(col, E, vp.epsilon_greedy_policy, jt, obs, eps, key, detail=d)
                    nontriv = row.max() != row.min()
                    col.tick(1, ("epsgreedy", A, ri, obs, mode, roll, ki, repr(eps)) if nontriv else None)
                    if not ok:
                        continue
                    if np.asarray(a).shape != () or np.asarray(a).dtype.kind not in "iu":
                        col.violation(SIG.format(E, K_UNDEF), dict(d, got=repr(a)))
                        continue
                    a = int(a)
                    if not (0 <= a < A):
                        col.violation(SIG.format(E, K_RANGE), dict(d, action=a))
                    elif eps == 0:
                        if row[a] != row.max():
                            col.violation(SIG.format(E, K_EPS0), dict(d, action=a))
                        elif nontriv:
                            col.outcome("epsilon0_cases_with_a_non_maximiser_available")
                    else:
                        eps1_results.setdefault(repr(eps), {})[ri] = a
            for eps, res in eps1_results.items():
                if len(set(res.values())) > 1:
                    col.violation(SIG.format(E, K_EPS1), dict(observation=obs, epsilon=eps, key_index=ki, roll=roll, action_by_row={str(k): v for k, v in res.items()}, rows=rows))
                elif A > 1:
                    # the rows' unique maximisers cover every action, so a value-dependent choice would have shown
                    col.outcome("epsilon1_row_sets_whose_greedy_actions_differ")
    # near-ties: the best and the second-best value are distinct float32 numbers that are relatively close (or both tiny);
    # with epsilon = 0 the maximiser is still the only legal answer, for every key
    if A > 1:
        for lo, hi in ((100.0, 100.0005), (-2500.01, -2500.0), (2e-9, 3e-9), (1.0, 1.000001), (-1.000001, -1.0)):
            for j in range(A):
                row = np.full(A, lo, np.float32)
                row[j] = np.float32(hi)
                if not row[j] > row[(j + 1) % A]:
                    continue  # not distinct in float32
                tab = np.stack([row, other])
                jt = jnp.asarray(tab)
                for key in kk:
                    d = dict(table=tab, observation=0, epsilon=0.0, near_tie=[lo, hi])
                    ok, a = call(col, E, vp.epsilon_greedy_policy, jt, 0, 0.0, key, detail=d)
                    col.tick(1, ("epsgreedy-near", A, lo, j))
                    if not ok:
                        continue
                    col.outcome("epsilon0_cases_with_a_near_tie")
                    if np.asarray(a).shape != () or int(a) != j:
                        col.violation(SIG.format(E, K_EPS0), dict(d, action=repr(a), maximiser=j))
    # tables with several observation axes (Tuple-of-Discrete observation spaces, as make_q_table builds them): the
    # observation is a tuple of indices, the addressed row has A entries whatever the sizes of the other axes
    for dims in ((3, 5), (2, A + 3)):
        tab = np.zeros(dims + (A,), np.float32)
        for idx in itertools.product(*[range(d) for d in dims]):
            tab[idx] = rows[(7 * idx[0] + 3 * idx[1] + seed) % len(rows)]
        jt = jnp.asarray(tab)
        for idx in itertools.product(*[range(d) for d in dims]):
            row = tab[idx]
            for eps, key in itertools.product((0.0, 1.0), kk):
                d = dict(table_shape=list(tab.shape), observation=list(idx), row=row, epsilon=eps)
                ok, a = call(col, E, vp.epsilon_greedy_policy, jt, tuple(int(i) for i in idx), eps, key, detail=d)
                col.tick(1, ("epsgreedy-nd", A, dims, idx, eps) if A > 1 else None)
                if not ok:
                    continue
                if np.asarray(a).shape != () or np.asarray(a).dtype.kind not in "iu":
                    col.violation(SIG.format(E, K_UNDEF), dict(d, got=repr(a)))
                    continue
                a = int(a)
                col.outcome("epsilon_greedy_calls_on_tables_with_several_observation_axes")
                if not (0 <= a < A):
                    col.violation(SIG.format(E, K_RANGE), dict(d, action=a))
                elif eps == 0.0 and row[a] != row.max():
                    col.violation(SIG.format(E, K_EPS0), dict(d, action=a))
    col.sample(dict(kind="tabgreedy", A=A, n_rows=len(rows), values=TAB_VALUES))


def work_netgreedy(item, col):
    from rl_blox.blox import q_policy
    from rl_blox.blox.function_approximator.mlp import MLP

    A, seed = item["A"], item["seed"]
    E = "q_policy.greedy_policy"
    nets = []
    for s in range(item["nseeds"]):
        nets.append((("init", seed + s), MLP(D_OBS, A, [3], "relu", nnx.Rngs(seed + s))))
        big = MLP(D_OBS, A, [3], "tanh", nnx.Rngs(seed + s))
        big.output_layer.kernel.value = big.output_layer.kernel.value * 100.0
        nets.append((("x100", seed + s), big))
    for bias in itertools.product(TAB_VALUES, repeat=A):
        n = MLP(D_OBS, A, [3], "relu", nnx.Rngs(seed))
        n.output_layer.kernel.value = jnp.zeros_like(n.output_layer.kernel.value)
        n.output_layer.bias.value = jnp.asarray(bias, dtype=jnp.float32)
        nets.append((("bias", list(bias)), n))
    for (tag, net), oi in itertools.product(nets, range(len(_OBS_ROWS))):
        obs = _OBS_ROWS[oi]
        arg = obs if oi % 2 else jnp.asarray(obs)
        d = dict(net=tag, A=A, observation=obs)
        q = np.asarray(net(jnp.asarray(obs)[None]), np.float64)[0]
        ok, a = call(col, E, q_policy.greedy_policy, net, arg, detail=d)
        nontriv = q.max() != q.min()
        col.tick(1, ("netgreedy", A, repr(tag), oi) if nontriv else None)
        if not ok:
            continue
        if np.asarray(a).shape != () or np.asarray(a).dtype.kind not in "iu":
            col.violation(SIG.format(E, K_UNDEF), dict(d, got=repr(a)))
            continue
        a = int(a)
        if not (0 <= a < A):
            col.violation(SIG.format(E, K_RANGE), dict(d, action=a))
        elif q[a] < q.max() - 4 * num.EPS32 * max(1.0, np.abs(q).max()):
            col.violation(SIG.format(E, K_NOTMAX), dict(d, action=a, q=q))
        elif nontriv and np.sum(q == q.max()) > 1:
            col.outcome("greedy_rows_with_tied_maximum")
    col.sample(dict(kind="netgreedy", A=A, nets=len(nets)))


# =========================================================================================
# epsilon-greedy acting inside the DQN-family loops (E2)
# =========================================================================================

DELTA = 1e-4
WINDOW = 6
N_ACT = 3


class ScriptedDiscrete(gym.spaces.Discrete):
    """Action-space sampler owned by the explorer: returns a non-greedy action and logs the call."""

    def sample(self, mask=None, probability=None):
        g = greedy_of_k(self.envref.k)
        a = (g + 1 + len(self.calls) % 2) % N_ACT
        self.calls.append(a)
        return a


def greedy_of_k(k):
    # the fixed Q-network below: q = (1.5, k, 2k - 3.5) on observation (episode, k)
    return 0 if k < 2 else (1 if k < 4 else 2)


def fixed_qnet():
    from rl_blox.blox.function_approximator.mlp import MLP

    q = MLP(2, N_ACT, [3], "relu", nnx.Rngs(0))
    W1 = np.zeros((2, 3), np.float32)
    W1[1, 0] = 1.0
    W1[0, 1] = 1.0
    q.hidden_layers[0].kernel.value = jnp.asarray(W1)
    q.hidden_layers[0].bias.value = jnp.zeros(3)
    W2 = np.zeros((3, N_ACT), np.float32)
    W2[0, 1], W2[0, 2] = 1.0, 2.0
    q.output_layer.kernel.value = jnp.asarray(W2)
    q.output_layer.bias.value = jnp.asarray([1.5, 0.0, -3.5])
    return q


def eps_band(t, T):
    """Documented schedule: 1.0 -> 0.1 linearly over the first 10 % of T steps, then 0.1.
    lo = endpoint-inclusive discretisation over floor(0.1 T) steps, hi = continuous line."""
    n = int(math.floor(0.1 * T + 1e-9))
    if t >= n:
        lo = 0.1
    elif n == 1:
        lo = 1.0
    else:
        lo = 1.0 - 0.9 * t / (n - 1)
    hi = max(0.1, 1.0 - 0.9 * t / (0.1 * T))
    return lo, max(lo, hi)


def roll_options(t, T):
    lo, hi = eps_band(t, T)
    opts = [("b", np.float32(lo - DELTA))]
    if hi + DELTA < 1.0:
        opts.append(("a", np.float32(hi + DELTA)))
    if lo == hi == 0.1:
        opts.append(("e", np.float32(0.1)))
    return opts


def run_loop(item, rolls):
    import optax
    from rl_blox.blox.replay_buffer import PrioritizedReplayBuffer, ReplayBuffer

    algo, T, w, ls = item["algo"], item["T"], item["w"], item["ls"]
    if algo == "train_dqn":
        from rl_blox.algorithm.dqn import train_dqn as fn
    elif algo == "train_nature_dqn":
        from rl_blox.algorithm.nature_dqn import train_nature_dqn as fn
    elif algo == "train_ddqn":
        from rl_blox.algorithm.ddqn import train_ddqn as fn
    else:
        from rl_blox.algorithm.per import train_ddqn_per as fn
    env = ScriptEnv(item["script"], discrete=True, n_actions=N_ACT, horizon=WINDOW)
    sp = ScriptedDiscrete(N_ACT)
    sp.calls, sp.envref = [], env
    env.action_space = sp
    marks = []
    env.on_step = lambda e: marks.append(len(sp.calls))
    q = fixed_qnet()
    opt = nnx.Optimizer(q, optax.sgd(0.0), wrt=nnx.Param)
    buf = (PrioritizedReplayBuffer if algo == "train_ddqn_per" else ReplayBuffer)(16)
    real = jax.random.uniform
    vec = jnp.asarray(rolls, dtype=jnp.float32)

    def fake(key, shape=(), *a, **k):
        if tuple(shape) == (T,):
            return vec
        return real(key, shape, *a, **k)

    kw = dict(batch_size=10**6, total_timesteps=T, global_step=w, progress_bar=False, seed=item["seed"])
    if algo != "train_dqn":
        kw["learning_starts"] = ls
        # a target network whose arg-max is always a different action: acting must use the online estimates
        qt = fixed_qnet()
        qt.output_layer.kernel.value = jnp.roll(qt.output_layer.kernel.value, 1, axis=1)
        qt.output_layer.bias.value = jnp.roll(qt.output_layer.bias.value, 1)
        kw["q_target_net"] = qt
    err = None
    try:
        with mock.patch("jax.random.uniform", fake):
            fn(q, env, buf, opt, **kw)
    except HorizonExceeded:
        pass
    except Exception as ex:  # noqa: BLE001
        err = f"{type(ex).__name__}: {str(ex)[:200]}"
    return env, sp, marks, q, err


def work_loop(item, col):
    algo, T, w, ls = item["algo"], item["T"], item["w"], item["ls"]
    nsteps = min(WINDOW, T - w)
    opts = [roll_options(w + i, T) for i in range(nsteps)]
    base_rolls = np.full(T, 0.5, np.float32)
    for t in range(T):
        lo, hi = eps_band(t, T)
        base_rolls[t] = np.float32(hi + DELTA) if hi + DELTA < 1.0 else np.float32(lo - DELTA)
    col.append("loop_configs", dict(name=item["name"], options_per_step=[[o[0] for o in op] for op in opts]))
    for choice in itertools.product(*[range(len(o)) for o in opts]):
        rolls = base_rolls.copy()
        tags = []
        for i, c in enumerate(choice):
            tags.append(opts[i][c][0])
            rolls[w + i] = opts[i][c][1]
        env, sp, marks, q, err = run_loop(item, rolls)
        d = dict(algo=algo, total_timesteps=T, global_step=w, learning_starts=ls, script=item["script"], placements="".join(tags),
                 rolls=rolls[w:w + nsteps])
        if err is not None:
            col.violation(SIG.format(algo, K_RAISED), dict(d, error=err))
            col.tick(1)
            continue
        steps = [e for e in env.log if e[0] in ("reset", "step")]
        cur = None
        si = 0
        for e in steps:
            if e[0] == "reset":
                cur = e[1]
                continue
            t = w + si
            ncalls = marks[si] - (marks[si - 1] if si else 0)
            act = int(e[1])
            tag = tags[si]
            qv = np.asarray(q(jnp.asarray(cur)), np.float64)
            g = int(np.argmax(qv))
            dd = dict(d, step=t, placement=tag, sampler_calls=ncalls, action=act, observation=cur, q=qv)
            col.tick(1, (item["name"], si, "".join(tags)))
            forced = algo != "train_dqn" and t < ls
            if ncalls > 1:
                col.violation(SIG.format(algo, K_MULTI), dd)
            elif forced:
                col.outcome("decisions_forced_random_by_learning_starts")
                if ncalls != 1:
                    col.violation(SIG.format(algo, K_WARM), dd)
            elif tag == "b":
                col.outcome("decisions_expected_explore")
                if eps_band(t, T)[0] - DELTA >= 0.1:
                    col.outcome("explore_decisions_that_need_the_decay")
                if ncalls != 1:
                    col.violation(SIG.format(algo, K_GREEDY_LO), dd)
            elif tag == "a":
                col.outcome("decisions_expected_greedy")
                if ncalls != 0:
                    col.violation(SIG.format(algo, K_EXPLORE_HI), dd)
            else:
                col.outcome("decisions_with_roll_equal_epsilon")
                if ncalls != 0:
                    col.violation(SIG.format(algo, K_TIE), dd)
            if ncalls == 1 and act != sp.calls[marks[si] - 1]:
                col.violation(SIG.format(algo, K_SAMPLED), dict(dd, sampled=sp.calls[marks[si] - 1]))
            if ncalls == 0:
                if act != g:
                    col.violation(SIG.format(algo, K_ARGMAX), dict(dd, argmax=g))
                elif g != 0:
                    col.outcome("greedy_steps_whose_argmax_depends_on_the_observation")
            cur = e[2]
            si += 1
            if e[4] or e[5]:
                cur = None
        if si != nsteps:
            col.violation(SIG.format(algo, K_RAISED), dict(d, error=f"executed {si} steps, expected {nsteps}"))
    col.sample(dict(kind="loop", name=item["name"], band=[list(eps_band(w + i, T)) for i in range(nsteps)]))


# =========================================================================================
# epsilon in {0, 1} inside the tabular trainers (E2, prefix differencing)
# =========================================================================================

def _tab_env(script, S):
    return ScriptEnv(script, discrete=True, n_actions=N_ACT, discrete_obs=S, horizon=len(script),
                     reward_fn=lambda e, lvl: float(e.t if e.t % 2 else -e.t))


def _tab_tables(S, variant, seed):
    perms = list(itertools.permutations(range(N_ACT)))
    if variant == "zeros":
        return np.zeros((S, N_ACT), np.float32)
    off = {"A": 0, "B": 1}[variant] + seed
    return np.asarray([perms[(2 * s + off + (s // 3 if variant == "B" else 0)) % len(perms)] for s in range(S)], np.float32)


def _tab_run(algo, env, table, eps, steps, seed, lr):
    """Returns the acting table (float64) the trainer holds after `steps` steps."""
    from rl_blox.algorithm import double_q_learning, dynaq, monte_carlo, q_learning, sarsa

    t = jnp.asarray(table)
    t2 = jnp.asarray(np.roll(table, 1, axis=1) * 0.5)
    if steps == 0:
        return np.asarray(t + t2 if algo == "train_double_q_learning" else t, np.float64)
    kw = dict(epsilon=eps, gamma=0.5, total_timesteps=steps, seed=seed, progress_bar=False)
    if algo == "train_q_learning":
        out = q_learning.train_q_learning(env, t, learning_rate=lr, **kw)
    elif algo == "train_sarsa":
        out = sarsa.train_sarsa(env, t, learning_rate=lr, **kw)
    elif algo == "train_double_q_learning":
        o = double_q_learning.train_double_q_learning(env, t, t2, learning_rate=lr, **kw)
        out = o[0] + o[1]
    elif algo == "train_dynaq":
        out = dynaq.train_dynaq(env, t, learning_rate=lr, n_planning_steps=1, buffer_size=50, **kw)
    else:
        out = monte_carlo.train_monte_carlo(env, t, **kw)[0]
    return np.asarray(out, np.float64)


def work_tabloop(item, col):
    algo, script, seed = item["algo"], item["script"], item["seed"]
    T = len(script)
    lrs = (0.5,) if algo == "train_monte_carlo" else (0.5, 1.0)  # Monte Carlo has no learning rate
    # S = 1: a single state, so every step is a self-transition (the successor is the state just updated)
    for S, lr, rs in itertools.product((12, 3, 1), lrs, range(item["nseeds"])):
        run_seed = seed + rs
        cfg = dict(algo=algo, script=script, n_states=S, learning_rate=lr, seed=run_seed)
        # epsilon = 0: every executed action maximises the table held before that step
        for variant in ("A", "B"):
            tab0 = _tab_tables(S, variant, seed)
            tables, acts, obs_seq = [], None, None
            err = None
            for t in range(T + 1):
                env = _tab_env(script, S)
                try:
                    tables.append(_tab_run(algo, env, tab0, 0.0, t, run_seed, lr))
                except Exception as ex:  # noqa: BLE001
                    err = f"{type(ex).__name__}: {str(ex)[:200]}"
                    break
                tr = env.transitions()
                a = [int(x[1]) for x in tr]
                o = [int(x[0]) for x in tr]
                if acts is not None and (a[: len(acts)] != acts or o[: len(obs_seq)] != obs_seq):
                    col.cap(f"{item['name']}: prefix runs are not prefixes of each other (S={S}, lr={lr})")
                acts, obs_seq = a, o
            if err is not None:
                col.violation(SIG.format(algo, K_RAISED), dict(cfg, epsilon=0.0, table=tab0, error=err))
                continue
            for t in range(T):
                row = tables[t][obs_seq[t]]
                a = acts[t]
                nontriv = row.max() != row.min()
                col.tick(1, ("tabloop0", algo, script, S, lr, rs, variant, t) if nontriv else None)
                d = dict(cfg, epsilon=0.0, initial_table=tab0, step=t, observation=obs_seq[t], action=a, current_row=row)
                if not (0 <= a < N_ACT) or row[a] != row.max():
                    col.violation(SIG.format(algo, K_EPS0_LOOP), d)
                else:
                    init_row = tables[0][obs_seq[t]]
                    if not np.array_equal(init_row, row):
                        col.outcome("tabular_greedy_steps_on_a_row_changed_by_learning")
                        if int(np.argmax(init_row)) != a:
                            col.outcome("tabular_greedy_steps_where_the_initial_table_would_choose_differently")
        # epsilon = 1: the action sequence does not depend on the table
        seqs = {}
        for variant in ("A", "B", "zeros"):
            env = _tab_env(script, S)
            try:
                _tab_run(algo, env, _tab_tables(S, variant, seed), 1.0, T, run_seed, lr)
            except Exception as ex:  # noqa: BLE001
                col.violation(SIG.format(algo, K_RAISED), dict(cfg, epsilon=1.0, variant=variant, error=f"{type(ex).__name__}: {str(ex)[:200]}"))
                continue
            seqs[variant] = [int(x[1]) for x in env.transitions()]
        col.tick(len(seqs) * T, ("tabloop1", algo, script, S, lr, rs))
        if len({tuple(v) for v in seqs.values()}) > 1:
            col.violation(SIG.format(algo, K_EPS1_LOOP), dict(cfg, epsilon=1.0, actions_by_table=seqs))
        elif seqs:
            col.outcome("tabular_epsilon1_runs_compared_across_tables", len(seqs))
            if len(set(next(iter(seqs.values())))) > 1:
                col.outcome("tabular_epsilon1_sequences_with_more_than_one_action")
    col.sample(dict(kind="tabloop", name=item["name"]))
