"""C12 - actor objectives have the documented value and gradient (E3, exploration).

Families (one work item = one (family, policy head / critic kind, batch size N, parameter variant)):

  pg    stochastic_policy_gradient_pseudo_loss, a2c_policy_gradient, reinforce_gradient,
        actor_critic_policy_gradient           weights {-2,0,1}^N, baselines (N,1)/(N,)/parameter-sharing
  ppo   ppo_loss                               ratio placements x advantages x clip, value term for
                                               critics shaped (N,) and (N,1)
  dpg   deterministic_policy_gradient_loss (+ddpg_update_actor),
        deterministic_policy_gradient_loss_sale (+td7_update_actor), mrq_policy_loss
  sac   sac_actor_loss (+sac_update_actor)
  temp  sac_exploration_loss, EntropyControl.update

Loss values are compared with float64 numpy references computed from the same forward passes
(|a-b| <= 1e-5 max(1,|b|,largest summand)); gradients with `nnx.grad` of an independently written
objective, leaf-wise rtol 2e-4 / atol 1e-6 (+ 8 eps32 x the largest reference gradient entry, see gclose).  The additive constants of ppo_loss (value coefficient,
entropy-bonus coefficient) are hyper-parameters the property does not fix; they are measured from
the implementation at a calibration point where the (N,)-(N,1) question cannot arise.
"""

import itertools

import gymnasium as gym
import jax
import jax.numpy as jnp
import numpy as np
import optax
from flax import nnx

from vlib import num
from vlib.snap import snap

from rl_blox.algorithm import a2c as A2C
from rl_blox.algorithm import actor_critic as AC
from rl_blox.algorithm import ddpg as DDPG
from rl_blox.algorithm import mrq as MRQ
from rl_blox.algorithm import ppo as PPO
from rl_blox.algorithm import reinforce as RF
from rl_blox.algorithm import sac as SAC
from rl_blox.algorithm import td7 as TD7
from rl_blox.blox import losses as L
from rl_blox.blox.double_qnet import ContinuousClippedDoubleQNet
from rl_blox.blox.embedding.model_based_encoder import ModelBasedEncoder
from rl_blox.blox.embedding.sale import SALE, ActorSALE, CriticSALE, DeterministicSALEPolicy
from rl_blox.blox.function_approximator.gaussian_mlp import GaussianMLP
from rl_blox.blox.function_approximator.layer_norm_mlp import LayerNormMLP
from rl_blox.blox.function_approximator.mlp import MLP
from rl_blox.blox.function_approximator.policy_head import (
    DeterministicTanhPolicy,
    GaussianPolicy,
    GaussianTanhPolicy,
    SoftmaxPolicy,
)

PROPERTY = "C12"
LEVEL = "exploration"
USES_JAX = True
CLEAR_EVERY = 6
RULE = (
    "full Cartesian product, per entry point, of policy head x batch size N x parameter variant x "
    "(pg: weight/return/reward vector in {-2,0,1}^N x baseline kind x discount vector; ppo: clip x "
    "ratio placement per sample (below 1-eps / inside / above 1+eps) x advantage vector in {-2,0,1}^N, "
    "and return offsets {-1,0,2}^N x critic output shape (N,)/(N,1); dpg: critic kind; sac: alpha x "
    "key x critic shape; temp: target entropy below/above the sampled estimate x initial alpha); one "
    "evaluation = one oracle comparison (a loss value, one leaf-wise gradient comparison, one "
    "changed/unchanged snapshot, one direction of a temperature step); non-trivial = the mechanism named "
    "in the property decides the expected result (pg: some weight non-zero; ppo policy term: some sample "
    "with non-zero advantage has its ratio outside the clip range; ppo value term: N>=2 and the mean "
    "over all N x N pairs differs from the per-sample mean; dpg/sac: reference actor gradient non-zero; "
    "temp: every case); distinct = distinct (work item, entry point, case tuple)"
)
ASSUMPTIONS = [
    "value alphabets only: weights/advantages/returns/rewards {-2,0,1}, return offsets {-1,0,2}, ratios "
    "1 -/+ 2 eps, 1 -/+ eps/2 (thorough) and exactly 1, clip {0.1,0.2}, alpha {0,0.2,0.5}; tiny networks "
    "(1 hidden layer x 3 units) at 2-6 initialisation seeds and rescaled copies (x0, x8; x2 for PPO); no claim "
    "about other reals; PPO items with |log pi| > 30 (float32 cannot place a ratio 1 +/- 2 eps there) are counted "
    "and skipped",
    "log pi, entropy, sample and Q are taken from the repo's own policy heads / critics (the same forward "
    "passes): this check is about how the objectives combine them, C13 is about the heads themselves; PPO "
    "items whose policy head's entropy() raises on the batch are counted and skipped (none on the current tree)",
    "ppo_loss = policy term + c_v * value term - c_e * mean entropy with constants c_v > 0 and c_e that the "
    "property does not fix: they are measured from the implementation at zero advantages (c_e from two actors "
    "with the same critic so that the value term cancels, c_v at batch size 1) and reported in the evidence",
    "mrq_policy_loss: the documented activation regulariser is an allowed additive term; value and gradient "
    "of the deterministic-policy-gradient part are checked at activation_weight 0, the decomposition "
    "loss = dpg + weight * regulariser at weight > 0",
    "gradients are computed under nnx.jit (the shipped mode of every update routine); jax autodiff is trusted",
    "comparison tolerances: values 1e-5 max(1,|ref|,largest summand); gradients element-wise rtol 2e-4 + atol 1e-6 "
    "+ 8 eps32 x largest entry of the reference gradient (float32 back-propagation noise)",
    "'gradients reach only the actor' is observed on the shipped update routines (ddpg_update_actor, "
    "td7_update_actor, sac_update_actor with SGD(1.0)): the actor moves by minus the reference gradient and the "
    "critic / embedding snapshots stay bytes-equal; 'weights are constants' is observed with a baseline that "
    "shares all its parameters with the policy",
]
BUDGET_S = {"quick": 480, "thorough": 2400}

SIG = "C12|{}|{}"
# failure-kind vocabulary
K_VALUE = "loss-value-differs-from-documented-objective"
K_GRAD = "actor-gradient-differs-from-gradient-of-documented-objective"
K_CONST = "weights-or-baseline-not-treated-as-constant"
K_PPO_PV = "policy-term-value"
K_PPO_SAME = "policy-gradient-at-unchanged-policy-not-that-of-unclipped-surrogate"
K_PPO_FAV = "favoured-side-clipped-sample-has-policy-gradient"
K_PPO_UNCL = "policy-gradient-of-unclipped-samples"
K_PPO_VT = "value-term-not-per-sample-squared-error"
K_PPO_LEAK = "critic-gradient-depends-on-policy-term"
K_PPO_COEF = "value-term-coefficient-not-positive"
K_UPD_OTHER = "update-changed-non-actor-component"
K_UPD_STEP = "update-step-not-along-actor-gradient"
K_TEMP = "alpha-moves-in-wrong-direction"
K_RAISE = "raises-for-batch-size>=2"
K_INPUT = "caller-array-modified-in-place"
K_OLD = "later-epoch-not-against-the-policy-at-entry"

BOX = gym.spaces.Box(np.array([-1.0, 0.0], np.float32), np.array([2.0, 3.0], np.float32))
ALPHA3 = [-2.0, 0.0, 1.0]


def f64(x):
    return np.asarray(x, dtype=np.float64)


def f32(x):
    return jnp.asarray(np.asarray(x, dtype=np.float32))


# -- enumeration -----------------------------------------------------------------------------


def items(tier, seed):
    quick = tier == "quick"
    pvs = ["s0", "s1"] if quick else ["s0", "s1", "s2", "x0", "x8"]
    out = []

    def add(**kw):
        suffix = kw.pop("suffix", "")
        kw["name"] = "-".join(str(kw[k]) for k in ("fam", "head", "N", "pv")) + suffix
        kw["seed"] = seed
        kw["tier"] = tier
        out.append(kw)

    for head in ["softmax", "gauss1", "gauss2", "tanh"]:
        for N in [1, 2, 3]:
            for pv in pvs:
                add(fam="pg", head=head, N=N, pv=pv)
    ppoN = [1, 2, 3] if quick else [1, 2, 3, 4]
    for head in ["softmax", "gauss2", "tanh"]:
        for N in ppoN:
            for cshape in ["N", "N1"]:
                # rescaling x8 drives |log pi| to 1e3..1e10 where float32 cannot place a ratio 1 +/- 2 eps
                for pv in [("x2" if v == "x8" else v) for v in (pvs if N <= 3 else pvs[:1])]:
                    add(fam="ppo", head=head, N=N, pv=pv, cshape=cshape, suffix="-" + cshape)
    for head in ["dpg-mlp", "dpg-vec", "dpg-double", "sale", "mrq"]:
        for N in [1, 2, 3]:
            add(fam="dpg", head=head, N=N, pv="s0-" + ("s3" if quick else "s5"))
    for head in ["tanh", "gauss2"]:
        for qshape in ["N1", "N"]:
            for N in [1, 2, 3]:
                add(fam="sac", head=head, N=N, pv="s0-" + ("s2" if quick else "s3"), cshape=qshape, suffix="-" + qshape)
    for head in ["tanh", "gauss2"]:
        for N in [1, 2, 3]:
            add(fam="temp", head=head, N=N, pv="s0-" + ("s1" if quick else "s3"))
    # heaviest first so that the pool balances (order only, the set is unchanged)
    cost = lambda it: (9 ** it["N"] if it["fam"] == "ppo" else 3 ** it["N"] * 20 if it["fam"] in ("pg", "temp") else 10)  # noqa: E731
    out.sort(key=lambda it: -cost(it))
    return out


def pv_list(item):
    """'s0-s3' -> [0,1,2,3] (parameter seeds explored inside one item)."""
    a, b = item["pv"].split("-")
    return list(range(int(a[1:]), int(b[1:]) + 1))


# -- builders --------------------------------------------------------------------------------


def pseed(item, pv, k=0):
    if isinstance(pv, str):
        pv = int(pv[1:]) if pv[0] == "s" else 0
    return 100 * item["seed"] + 10 * pv + k


def rescale(mod, pv):
    if isinstance(pv, str) and pv[0] == "x":
        s = float(pv[1:])
        st = nnx.state(mod, nnx.Param)
        nnx.update(mod, jax.tree.map(lambda x: x * s, st))
        if s == 0.0:  # keep something to differentiate: biases 1/8 (exact), still a degenerate point
            st = nnx.state(mod, nnx.Param)
            nnx.update(mod, jax.tree.map(lambda x: x + 0.125 if x.ndim == 1 else x, st))
    return mod


def make_actor(head, seed, pv=None):
    r = nnx.Rngs(seed)
    if head == "softmax":
        m = SoftmaxPolicy(MLP(2, 3, [3], "tanh", r))
    elif head == "gauss1":
        m = GaussianPolicy(GaussianMLP(True, 2, 1, [3], "tanh", r))
    elif head == "gauss2":
        m = GaussianPolicy(GaussianMLP(False, 2, 2, [3], "tanh", r))
    elif head == "tanh":
        m = GaussianTanhPolicy(GaussianMLP(False, 2, 2, [3], "tanh", r), BOX)
    else:
        raise ValueError(head)
    return rescale(m, pv)


def make_batch(head, N, seed, tag=0):
    rng = np.random.default_rng([seed, N, tag, 12])
    obs = f32(np.round(rng.normal(size=(N, 2)) * 8) / 8)
    nobs = f32(np.round(rng.normal(size=(N, 2)) * 8) / 8)
    if head == "softmax":
        act = jnp.asarray(rng.integers(0, 3, size=N))
    else:
        adim = 1 if head == "gauss1" else 2
        act = f32(np.round(rng.normal(size=(N, adim)) * 8) / 8 + (0.5 if head == "tanh" else 0.0))
    return obs, nobs, act


class VecOut(nnx.Module):
    """Wraps a network with (N,1) output so that it returns (N,)."""

    def __init__(self, net):
        self.net = net

    def __call__(self, *a, **k):
        return self.net(*a, **k)[..., 0]


class SharedV(nnx.Module):
    """State-value function that shares ALL its parameters with the policy (baseline = f(policy net))."""

    def __init__(self, policy):
        self.policy = policy

    def __call__(self, obs):
        y = self.policy.net(obs)
        y = y[0] if isinstance(y, tuple) else y
        return jnp.sum(jnp.tanh(y), axis=-1, keepdims=True)


def make_v(kind, policy, seed):
    if kind == "none":
        return None
    if kind == "shared":
        return SharedV(policy)
    m = MLP(2, 1, [3], "tanh", nnx.Rngs(seed))
    return VecOut(m) if kind == "vec" else m


def grads_leaves(g):
    return [f64(x) for x in jax.tree_util.tree_leaves(g)]


def gnorm(g):
    return float(np.sqrt(sum(float(np.sum(x * x)) for x in grads_leaves(g))))


def gclose(ta, tb, rtol=2e-4, atol=1e-6, scale=0.0):
    """Leaf-wise gradient comparison, |a-b| <= atol + rtol |b| + 8 eps32 G element-wise, where G is the
    largest magnitude in the whole reference tree: float32 back-propagation through a layer whose
    gradient is ~G leaves rounding noise ~eps32*G in the (possibly much smaller, cancelling) gradients
    of the layers below it (observed: G = 623, noise 5e-6 on entries of size 0.016)."""
    la, lb = grads_leaves(ta), grads_leaves(tb)
    if len(la) != len(lb):
        return False
    G = max([float(np.max(np.abs(y))) for y in lb if y.size] + [float(scale)])
    slack = atol + 8 * num.EPS32 * G
    return all(x.shape == y.shape and bool(np.all(np.abs(x - y) <= slack + rtol * np.abs(y))) for x, y in zip(la, lb))


def vclose(a, b, scale=0.0, rtol=1e-5):
    """float32 value vs float64 reference: |a-b| <= rtol max(1,|b|,scale); scale = the largest summand
    of the mean (a float32 mean of terms ~S carries rounding ~eps32*S however small the result is)."""
    a, b = f64(a), f64(b)
    return a.shape == b.shape and bool(np.all(np.isfinite(a))) and bool(np.all(np.abs(a - b) <= rtol * np.maximum(np.maximum(1.0, np.abs(b)), scale)))


def params_leaves(mod):
    return [np.array(x) for x in jax.tree_util.tree_leaves(nnx.state(mod, nnx.Param))]


def guarded(col, entry, N, detail, fn):
    """Run an implementation call; N=1 raising is a loud rejection, N>=2 raising is a violation."""
    try:
        return True, fn()
    except Exception as e:  # noqa: BLE001 - the implementation raising is what is being classified
        if N == 1:
            col.outcome(f"batch1_loud_rejection:{entry}")
            col.tick(1)
        else:
            col.tick(1)
            col.violation(SIG.format(entry, K_RAISE), dict(detail, error=type(e).__name__ + ": " + str(e)[:300]))
        return False, None


# -- pg family -------------------------------------------------------------------------------


def pg_ref(policy, obs, act, w):
    """-mean_i w_i log pi(a_i|o_i) with w an array argument (a constant of the differentiation)."""
    return -jnp.mean(w * policy.log_probability(obs, act))


def work_pg(item, col):
    head, N, pv, seed = item["head"], item["N"], item["pv"], item["seed"]
    policy = make_actor(head, pseed(item, pv), pv)
    obs, nobs, act = make_batch(head, N, seed)
    lp = f64(policy.log_probability(obs, act))
    assert lp.shape == (N,), lp.shape
    ref_grad = nnx.jit(nnx.grad(pg_ref, argnums=0))
    base = dict(item=item["name"])
    gd_alph = [None, [0.5**t for t in range(N)]]

    def compare(entry, case, w64, val, grad, kind_grad=K_GRAD):
        """val/grad from the implementation; w64 = documented weights (float64)."""
        nontriv = bool(np.any(w64 != 0))
        key = (item["name"], entry) + tuple(case) if nontriv else None
        want = -np.mean(w64 * lp)
        col.tick(1, key)
        value_ok = vclose(val, want, float(np.max(np.abs(w64 * lp))))
        if not value_ok:
            col.violation(SIG.format(entry, K_VALUE), dict(base, case=case, got=float(val), want=want, weights=w64, logp=lp))
        gref = ref_grad(policy, obs, act, f32(w64))
        col.tick(1, key)
        if not gclose(grad, gref):
            # right value but wrong gradient with a parameter-sharing baseline: the weights were differentiated
            kind = kind_grad if value_ok else K_GRAD
            col.violation(SIG.format(entry, kind), dict(base, case=case, weights=w64, got_norm=gnorm(grad), want_norm=gnorm(gref)))
        if nontriv:
            col.outcome("pg_cases_where_a_sign_flip_would_change_value", int(abs(want) > 1e-6))
            col.outcome("pg_reference_gradient_nonzero", int(gnorm(gref) > 1e-5))

    # (1) the pseudo-loss itself and (2) A2C
    f_val = nnx.jit(lambda p, o, a, w: L.stochastic_policy_gradient_pseudo_loss(o, a, w, p))
    f_grad = nnx.jit(nnx.grad(lambda p, o, a, w: L.stochastic_policy_gradient_pseudo_loss(o, a, w, p)))
    f_a2c = nnx.jit(lambda p, o, a, w: A2C.a2c_policy_gradient(p, o, a, w))
    for w in itertools.product(ALPHA3, repeat=N):
        w64 = np.array(w)
        e = "stochastic_policy_gradient_pseudo_loss"
        ok, r = guarded(col, e, N, dict(base, w=w), lambda: (f_val(policy, obs, act, f32(w64)), f_grad(policy, obs, act, f32(w64))))
        if ok:
            compare(e, ("w", w), w64, r[0], r[1])
        e = "a2c_policy_gradient"
        ok, r = guarded(col, e, N, dict(base, w=w), lambda: f_a2c(policy, obs, act, f32(w64)))
        if ok:
            compare(e, ("w", w), w64, r[0], r[1])

    # (3) REINFORCE with baseline / discount vector
    f_rf = nnx.jit(lambda p, v, o, a, R, gd: RF.reinforce_gradient(p, v, o, a, R, gd))
    for vkind in ["none", "mlp", "vec", "shared"]:
        vf = make_v(vkind, policy, pseed(item, pv, 5))
        b = np.zeros(N) if vf is None else f64(vf(obs)).reshape(-1)
        for gd in gd_alph:
            for R in itertools.product(ALPHA3, repeat=N):
                w64 = (np.array(R) - b) * (1.0 if gd is None else np.array(gd))
                e = "reinforce_gradient"
                case = ("R", R, "baseline", vkind, "discount", gd is not None)
                ok, r = guarded(col, e, N, dict(base, case=case), lambda: f_rf(policy, vf, obs, act, f32(R), None if gd is None else f32(gd)))
                if ok:
                    compare(e, case, w64, r[0], r[1], K_CONST if vkind == "shared" else K_GRAD)
                    if vkind != "none":
                        col.outcome("pg_cases_where_dropping_the_baseline_would_change_weights", int(np.any(np.abs(b) > 1e-6)))
                    if vkind == "shared":
                        col.outcome("pg_cases_with_parameter_sharing_baseline")

    # (3b) the same entry point called eagerly with NumPy arrays (what discounted_reward_to_go returns), twice on the same
    # batch: the arguments are inputs - the second use of the batch sees the same numbers and gives the same result
    gd_np = np.array([0.5**t for t in range(N)], dtype=np.float64)
    for vkind in ["none", "mlp"]:
        vf = make_v(vkind, policy, pseed(item, pv, 5))
        b = np.zeros(N) if vf is None else f64(vf(obs)).reshape(-1)
        for dt, R in itertools.product((np.float64, np.float32), list(itertools.product(ALPHA3, repeat=N))[:: 1 if N < 3 else 4]):
            R_np, g_np = np.array(R, dtype=dt), gd_np.astype(dt)
            before = (R_np.tobytes(), g_np.tobytes())
            w64 = (np.array(R) - b) * gd_np
            e = "reinforce_gradient"
            for use in (1, 2):
                case = ("R", R, "baseline", vkind, "numpy", np.dtype(dt).name, "use", use)
                ok, r = guarded(col, e, N, dict(base, case=case), lambda: RF.reinforce_gradient(policy, vf, obs, act, R_np, g_np))
                if not ok:
                    break
                compare(e, case, w64, r[0], r[1])
                col.tick(1)
                col.outcome("pg_numpy_argument_calls")
                if (R_np.tobytes(), g_np.tobytes()) != before:
                    col.violation(SIG.format(e, K_INPUT), dict(base, case=case, returns_before=list(R), returns_after=R_np.tolist(), discount_after=g_np.tolist()))
                    break

    # (4) one-step actor-critic: w = gamma^t (r + gamma v(o') - v(o))
    f_ac = nnx.jit(lambda p, v, o, a, no, r, gd, g: AC.actor_critic_policy_gradient(p, v, o, a, no, r, gd, g))
    gd = np.array([0.5**t for t in range(N)])
    for vkind in ["mlp", "vec", "shared"]:
        vf = make_v(vkind, policy, pseed(item, pv, 5))
        v, vn = f64(vf(obs)).reshape(-1), f64(vf(nobs)).reshape(-1)
        for gamma in [0.5, 1.0]:
            for rew in itertools.product(ALPHA3, repeat=N):
                w64 = gd * (np.array(rew) + gamma * vn - v)
                e = "actor_critic_policy_gradient"
                case = ("r", rew, "v", vkind, "gamma", gamma)
                ok, r = guarded(col, e, N, dict(base, case=case), lambda: f_ac(policy, vf, obs, act, nobs, f32(rew), f32(gd), gamma))
                if ok:
                    compare(e, case, w64, r[0], r[1], K_CONST if vkind == "shared" else K_GRAD)
                    if vkind == "shared":
                        col.outcome("pg_cases_with_parameter_sharing_baseline")
    col.sample(dict(item=item["name"], logp=lp, example_weights=list(ALPHA3[:N])))


# -- ppo family ------------------------------------------------------------------------------


def ppo_ref(actor, critic, old, obs, act, adv, ret, clip, const_mask, cv, ce):
    """Reference objective: samples flagged in const_mask (ratio clipped on the side their advantage
    favours) contribute the constant (1 +/- clip) * A; every other sample the unclipped ratio * A;
    the value term is the per-sample squared error; entropy bonus with the measured coefficient."""
    lp = actor.log_probability(obs, act)
    ratio = jnp.exp(lp - old)
    const = jax.lax.stop_gradient(jnp.where(adv > 0, 1.0 + clip, 1.0 - clip) * adv)
    surr = jnp.where(const_mask, const, ratio * adv)
    v = jnp.reshape(critic(obs), (-1,))
    return -jnp.mean(surr) + cv * jnp.mean((ret - v) ** 2) - ce * jnp.mean(actor.entropy(obs))


def make_critic(cshape, seed):
    m = MLP(2, 1, [3], "tanh", nnx.Rngs(seed))
    return VecOut(m) if cshape == "N" else m


def ppo_calibrate(item, col):
    """c_e, c_v measured from the implementation with zero advantages (policy term = 0):
    c_e = -(L(actor A) - L(actor B)) / (H_A - H_B)   same critic and returns, so the value term cancels
                                                      whatever its form; A = uniform softmax, B = peaked;
    c_v = L(R = V + 1) - L(R = V)  at batch size 1, where per-sample and pairwise means coincide
    (batch size 2 only if the implementation rejects N = 1)."""
    last = None
    for n in (1, 2):
        try:
            critic = make_critic("N", pseed(item, 0, 8))
            obs, _, act = make_batch("softmax", n, item["seed"], 3)
            v = critic(obs)
            z = jnp.zeros(n)
            LH = []
            for pv in ("x0", "x8"):
                actor = make_actor("softmax", pseed(item, 0, 7), pv)
                lp = actor.log_probability(obs, act)
                LH.append((float(PPO.ppo_loss(actor, critic, lp, obs, act, z, v, 0.2)), float(np.mean(f64(actor.entropy(obs)))), actor, lp))
            (la, ha, actor, lp), (lb, hb, _, _) = LH
            l1 = float(PPO.ppo_loss(actor, critic, lp, obs, act, z, v + 1.0, 0.2))
            break
        except Exception as e:  # noqa: BLE001
            last = e
    else:
        col.tick(1)
        col.violation(SIG.format("ppo_loss", K_RAISE), dict(what="calibration", error=repr(last)[:300]))
        return None
    assert abs(ha - hb) > 0.05, (ha, hb)
    ce, cv = -(la - lb) / (ha - hb), l1 - la
    col.tick(1)
    if not cv > 0:  # the sign/size of the entropy coefficient is a free hyper-parameter
        col.violation(SIG.format("ppo_loss", K_PPO_COEF), dict(c_v=cv, c_e=ce, losses=[la, lb, l1], entropies=[ha, hb]))
        return None
    col.set("ppo_measured_coefficients", dict(c_v=round(cv, 5), c_e=round(ce, 5)))
    return cv, ce


def work_ppo(item, col):
    head, N, pv, seed, cshape = item["head"], item["N"], item["pv"], item["seed"], item["cshape"]
    entry = "ppo_loss"
    base = dict(item=item["name"])
    actor = make_actor(head, pseed(item, pv), pv)
    critic = make_critic(cshape, pseed(item, pv, 1))
    obs, _, act = make_batch(head, N, seed)
    try:
        Hm = float(np.mean(f64(actor.entropy(obs))))
    except Exception:  # noqa: BLE001 - a defect of the head (C13), not of the objective
        col.outcome("ppo_items_skipped_policy_head_entropy_raises(C13)")
        return
    cal = ppo_calibrate(item, col)
    if cal is None:
        return
    cv, ce = cal
    lp32 = actor.log_probability(obs, act)
    lp = f64(lp32)
    if float(np.max(np.abs(lp))) > 30.0:
        # ulp(|log pi|) > 2e-6: old_logps = log pi - log(ratio) cannot position the ratio to the comparison
        # tolerance, and log pi recomputed inside the jitted loss may differ from it by more than that
        col.outcome("ppo_items_skipped_logp_beyond_float32_ratio_resolution")
        return
    V32 = jnp.reshape(critic(obs), (-1,))
    V = f64(V32)
    zeros = jnp.zeros(N, dtype=jnp.float32)
    f_vg = nnx.jit(nnx.value_and_grad(getattr(PPO.ppo_loss, "_c12_orig", PPO.ppo_loss), argnums=(0, 1)))
    r_grad = nnx.jit(nnx.grad(ppo_ref, argnums=(0, 1)))
    no_mask = jnp.zeros(N, dtype=bool)

    # ---- value term: zero advantages, returns = V + d, d in {-1,0,2}^N
    base_loss = {}
    for d in itertools.product([-1.0, 0.0, 2.0], repeat=N):
        R32 = V32 + f32(d)
        R = f64(R32)
        per_sample = float(np.mean((R - V) ** 2))
        pairwise = float(np.mean((R[:, None] - V[None, :]) ** 2))
        differs = abs(per_sample - pairwise) > 1e-4
        key = (item["name"], "value", d) if (N >= 2 and differs) else None
        ok, r = guarded(col, entry, N, dict(base, d=d), lambda: f_vg(actor, critic, lp32, obs, act, zeros, R32, 0.2))
        if not ok:
            return
        lval, (ga, gc) = r
        base_loss[d] = (float(lval), ga, gc)
        want = cv * per_sample - ce * Hm
        col.tick(1, key)
        col.outcome("ppo_value_cases_where_mean_over_NxN_pairs_differs_from_per_sample_mean", int(differs))
        if not vclose(lval, want, float(np.max((R - V) ** 2))):
            col.violation(
                SIG.format(entry, K_PPO_VT),
                dict(base, what="loss value at zero advantages", returns=R, values=V, critic_output_shape=list(np.shape(critic(obs))), got=float(lval), want=want, per_sample_mse=per_sample, mean_over_all_pairs=pairwise, c_v=cv, c_e=ce, mean_entropy=Hm),
            )
        rga, rgc = r_grad(actor, critic, lp32, obs, act, zeros, R32, 0.2, no_mask, cv, ce)
        col.tick(1, key)
        if not gclose(gc, rgc):
            col.violation(
                SIG.format(entry, K_PPO_VT),
                dict(base, what="critic gradient", returns=R, values=V, critic_output_shape=list(np.shape(critic(obs))), got_norm=gnorm(gc), want_norm=gnorm(rgc)),
            )
        col.tick(1)
        if not gclose(ga, rga):  # zero advantages: only the entropy bonus reaches the actor
            col.violation(SIG.format(entry, K_PPO_SAME), dict(base, what="zero advantages", got_norm=gnorm(ga), want_norm=gnorm(rga)))

    # ---- policy term: placements x advantages x clip (returns fixed, critic gradient must not move)
    d0 = tuple([-1.0, 2.0, 0.0, -1.0][:N])
    R32 = V32 + f32(d0)
    l_base, ga_base, gc_base = base_loss[d0]
    letters = [-2, 0, 2] if (item["tier"] == "quick" or N >= 4) else [-2, -1, 0, 1, 2]
    n_case = 0
    for clip in [0.1, 0.2]:
        ratio_of = {-2: 1 - 2 * clip, -1: 1 - clip / 2, 0: 1.0, 1: 1 + clip / 2, 2: 1 + 2 * clip}
        for place in itertools.product(letters, repeat=N):
            ratio32 = np.array([ratio_of[p] for p in place], dtype=np.float32)
            old32 = lp32 - jnp.log(jnp.asarray(ratio32))
            r64 = np.exp(lp - f64(old32))
            if not np.allclose(r64, f64(ratio32), rtol=2e-5, atol=0):
                # lp - log(ratio) not representable closely enough: the placement does not exist
                col.outcome("ppo_placements_skipped_ratio_not_realisable_in_float32", len(ALPHA3) ** N)
                continue
            for adv in itertools.product(ALPHA3, repeat=N):
                A = np.array(adv)
                fav = np.array([(p == 2 and a > 0) or (p == -2 and a < 0) for p, a in zip(place, adv)])
                outside = np.array([abs(p) == 2 and a != 0 for p, a in zip(place, adv)])
                case = dict(clip=clip, placement=place, advantages=adv)
                key = (item["name"], "policy", clip, place, adv) if outside.any() else None
                ok, r = guarded(col, entry, N, dict(base, **case), lambda: f_vg(actor, critic, old32, obs, act, f32(A), R32, clip))
                if not ok:
                    return
                lval, (ga, gc) = r
                n_case += 1
                # value of the policy term = loss - loss(zero advantages)
                s = np.where(fav, np.where(A > 0, 1 + clip, 1 - clip) * A, r64 * A)
                want = -float(np.mean(s))
                got = float(lval) - l_base
                col.tick(1, key)
                if not abs(got - want) <= 2e-5 * max(1.0, abs(want), abs(l_base), float(np.max(np.abs(s)))):
                    col.violation(SIG.format(entry, K_PPO_PV), dict(base, **case, ratios=r64, got=got, want=want))
                # actor gradient
                rga, _ = r_grad(actor, critic, old32, obs, act, f32(A), R32, clip, jnp.asarray(fav), cv, ce)
                col.tick(1, key)
                if not gclose(ga, rga):
                    if fav.any():
                        kind = K_PPO_FAV
                    elif all(p == 0 for p in place):
                        kind = K_PPO_SAME
                    else:
                        kind = K_PPO_UNCL
                    col.violation(SIG.format(entry, kind), dict(base, **case, ratios=r64, got_norm=gnorm(ga), want_norm=gnorm(rga), entropy_only_norm=gnorm(ga_base)))
                if fav.all():
                    # every sample clipped on its favoured side: only the entropy bonus is left
                    col.tick(1, key)
                    col.outcome("ppo_cases_all_samples_clipped_on_favoured_side")
                    if not gclose(ga, ga_base) or not gclose(ga, rga):
                        col.violation(SIG.format(entry, K_PPO_FAV), dict(base, **case, what="all samples clipped, gradient != entropy-bonus gradient", got_norm=gnorm(ga), entropy_only_norm=gnorm(ga_base)))
                # critic gradient independent of the policy term
                col.tick(1)
                if not gclose(gc, gc_base):
                    col.violation(SIG.format(entry, K_PPO_LEAK), dict(base, **case))
                col.outcome("ppo_cases_where_max_instead_of_min_would_change_the_objective", int(outside.any()))
                col.outcome("ppo_cases_with_favoured_side_clipped_sample", int(fav.any()))
                col.outcome("ppo_cases_with_unfavoured_side_outside_sample", int((outside & ~fav).any()))
                col.outcome("ppo_cases_at_unchanged_policy", int(all(p == 0 for p in place)))
    col.sample(dict(item=item["name"], logp=lp, values=V, cases=n_case, c_v=cv, c_e=ce))
    ppo_epochs(item, col, head, N, pv, seed, cshape)
    if head == "gauss2" and cshape == "N":
        ppo_extreme_logp(item, col, N, seed, cv, ce)


def ppo_extreme_logp(item, col, N, seed, cv, ce):
    """Unchanged policy (old log-probabilities = current ones, ratio exactly 1) with log-probabilities far outside the
    range in which exp() is finite in float32 (many action dimensions with a tiny / large standard deviation): value and
    actor gradient are those of the unclipped surrogate, in particular finite."""
    entry = "ppo_loss"
    for A, lv in ((20, -13.8), (40, 4.0)):
        net = GaussianMLP(False, 2, A, [3], "tanh", nnx.Rngs(seed + A))
        Ll = net.output_layers[1]
        Ll.kernel.value = jnp.zeros_like(Ll.kernel.value)
        Ll.bias.value = jnp.full(Ll.bias.value.shape, lv, dtype=jnp.float32)
        actor = GaussianPolicy(net)
        critic = make_critic("N", seed + 3)
        obs, _, _ = make_batch("gauss2", N, seed)
        act = actor(obs) + 0.5 * jnp.exp(0.5 * lv)  # half a standard deviation off the mean in every dimension
        lp32 = actor.log_probability(obs, act)
        lp = f64(lp32)
        adv = f32([ALPHA3[(i + 2) % 3] for i in range(N)])
        V32 = jnp.reshape(critic(obs), (-1,))
        R32 = V32 + 1.0
        base = dict(item=item["name"], action_dimensions=A, log_variance=lv, logp=lp)
        col.tick(2, (item["name"], "extreme-logp", A))
        col.outcome("ppo_unchanged_policy_cases_with_|logp|>88", int(np.min(np.abs(lp)) > 88))
        ok, r = guarded(col, entry, N, base, lambda: nnx.value_and_grad(getattr(PPO.ppo_loss, "_c12_orig", PPO.ppo_loss), argnums=(0, 1))(actor, critic, lp32, obs, act, adv, R32, 0.2))
        if not ok:
            continue
        lval, (ga, gc) = r
        want = -float(np.mean(f64(adv))) + cv * 1.0 - ce * float(np.mean(f64(actor.entropy(obs))))
        if not (np.isfinite(float(lval)) and abs(float(lval) - want) <= 1e-4 * max(1.0, abs(want))):
            col.violation(SIG.format(entry, K_PPO_SAME), dict(base, what="loss value at unchanged policy", got=float(lval), want=want))
            continue
        rga, _ = nnx.grad(ppo_ref, argnums=(0, 1))(actor, critic, lp32, obs, act, adv, R32, 0.2, jnp.zeros(N, dtype=bool), cv, ce)
        if not gclose(ga, rga, rtol=2e-3):
            col.violation(SIG.format(entry, K_PPO_SAME), dict(base, what="actor gradient at unchanged policy", got_norm=gnorm(ga), want_norm=gnorm(rga)))


_PPO_CALLS = []


def _ppo_capture():
    """Wraps the module-level name ppo.ppo_loss once per process (update_ppo is jitted: a trace keeps the wrapper it was made
    with); every evaluation reports the arrays it was given to _PPO_CALLS."""
    import inspect

    if not getattr(PPO.ppo_loss, "_c12_wrapped", False):
        orig = PPO.ppo_loss
        sig = inspect.signature(orig)

        def wrapped(*a, **k):
            b = sig.bind(*a, **k).arguments
            names = list(b)
            # positional layout of ppo_loss: actor, critic, old log-probabilities, observations, actions, advantages, returns
            jax.debug.callback(lambda *xs: _PPO_CALLS.append(tuple(np.asarray(x) for x in xs)) if len(_PPO_CALLS) < 64 else None, *[b[n] for n in names[2:7]])
            return orig(*a, **k)

        wrapped._c12_wrapped = True
        wrapped._c12_orig = orig
        PPO.ppo_loss = wrapped
    return _PPO_CALLS


def ppo_epochs(item, col, head, N, pv, seed, cshape):
    """update_ppo with several epochs: every epoch optimises the surrogate against the SAME old policy (the one at
    entry) with the same advantages and returns; observed through the arguments ppo_loss receives."""
    entry = "update_ppo"
    calls = _ppo_capture()
    for epochs, lr in ((2, 0.5), (3, 0.1)):
        actor = make_actor(head, pseed(item, pv), pv)
        critic = make_critic(cshape, pseed(item, pv, 1))
        obs, nobs, act = make_batch(head, N, seed)
        oa = nnx.Optimizer(actor, optax.sgd(lr), wrt=nnx.Param)
        oc = nnx.Optimizer(critic, optax.sgd(lr), wrt=nnx.Param)
        lp0 = np.asarray(actor.log_probability(obs, act))
        rew = f32([ALPHA3[(i + seed) % 3] for i in range(N)])
        term = jnp.asarray([(i == N - 1) for i in range(N)])
        nv = jnp.reshape(critic(nobs), (-1,))
        calls.clear()
        ok, _ = guarded(col, entry, N, dict(item=item["name"], epochs=epochs), lambda: PPO.update_ppo(actor, critic, oa, oc, obs, act, rew, term, nv, epochs=epochs))
        jax.effects_barrier()
        if not ok:
            continue
        col.tick(epochs, (item["name"], entry, epochs))
        col.outcome("ppo_multi_epoch_updates")
        if len(calls) < epochs:
            col.outcome("ppo_multi_epoch_updates_not_observed(ppo_loss captured at import time)")
            continue
        moved = not np.array_equal(np.asarray(actor.log_probability(obs, act)), lp0)
        if moved:
            col.outcome("ppo_multi_epoch_updates_where_the_policy_moved")
        for e, c in enumerate(list(calls)):
            # the jitted routine recomputes log pi: allow a few float32 ulp of the value (a later-epoch policy differs by far more)
            if not np.allclose(c[0].reshape(-1), lp0.reshape(-1), rtol=2e-6, atol=2e-6):
                col.violation(SIG.format(entry, K_OLD), dict(item=item["name"], epochs=epochs, epoch=e, old_logps_passed=c[0], logp_of_policy_at_entry=lp0))
                break
            if any(not np.array_equal(x, y) for x, y in zip(c[1:], calls[0][1:])):
                col.violation(SIG.format(entry, K_OLD), dict(item=item["name"], epochs=epochs, epoch=e, what="observations / actions / advantages / returns differ between epochs"))
                break


# -- dpg family ------------------------------------------------------------------------------


def sgd_update_check(col, entry, base, update, actor, others, g_ref, N):
    """`update()` runs the repo's update routine with SGD(lr=1) on `actor`: the step must be -g_ref and
    no other component may change (gradients reach only the actor)."""
    before = params_leaves(actor)
    snaps = {k: snap(m) for k, m in others.items()}
    ok, _ = guarded(col, entry, N, base, update)
    if not ok:
        return
    jax.effects_barrier()
    after = params_leaves(actor)
    want = [b - g for b, g in zip(before, grads_leaves(g_ref))]
    col.tick(1, (base["item"], entry, base.get("pseed"), base.get("batch"), base.get("key"), "step"))
    if not gclose(after, want, atol=2e-6, scale=max(float(np.max(np.abs(g))) for g in grads_leaves(g_ref))):
        col.violation(SIG.format(entry, K_UPD_STEP), dict(base))
    for k, m in others.items():
        col.tick(1)
        if snap(m) != snaps[k]:
            col.violation(SIG.format(entry, K_UPD_OTHER), dict(base, component=k))
    col.outcome("update_routines_checked_for_actor_only_change")


def dpg_ref(policy, q, obs):
    qq = q(jnp.concatenate((obs, policy(obs)), axis=-1))
    return -jnp.sum(jnp.reshape(qq, (-1,))) / obs.shape[0]


def sale_q12(actor, emb, critic, obs):
    zs = emb.state_embedding(obs)
    a = actor(obs, zs)
    zsa = emb.state_action_embedding(jnp.concatenate((zs, a), axis=-1))
    x = jnp.concatenate((obs, a), axis=-1)
    return critic.q1(x, zsa, zs), critic.q2(x, zsa, zs)


def sale_ref(actor, emb, critic, obs):
    qa, qb = sale_q12(actor, emb, critic, obs)
    return -jnp.sum(jnp.reshape((qa + qb) / 2.0, (-1,))) / obs.shape[0]


def mrq_q12(policy, q, enc, zs):
    zsa = enc.encode_zsa(zs, policy(zs))
    return q.q1(zsa), q.q2(zsa)


def mrq_ref(policy, q, enc, zs):
    qa, qb = mrq_q12(policy, q, enc, zs)
    return -jnp.sum(jnp.reshape(jnp.minimum(qa, qb), (-1,))) / zs.shape[0]


def work_dpg(item, col):
    head, N, seed = item["head"], item["N"], item["seed"]
    ln_rtol = [None]  # set by the LayerNorm (MR.Q) branch
    n_batches = 2 if item["tier"] == "quick" else 4
    if head.startswith("dpg"):
        entry, upd_entry = "deterministic_policy_gradient_loss", "ddpg_update_actor"
        f_impl = nnx.jit(nnx.value_and_grad(L.deterministic_policy_gradient_loss, argnums=2))
        f_ref = nnx.jit(nnx.grad(dpg_ref, argnums=0))
    elif head == "sale":
        entry, upd_entry = "deterministic_policy_gradient_loss_sale", "td7_update_actor"
        f_impl = nnx.jit(nnx.value_and_grad(TD7.deterministic_policy_gradient_loss_sale, argnums=3))
        f_ref = nnx.jit(nnx.grad(sale_ref, argnums=0))
    else:
        entry, upd_entry = "mrq_policy_loss", None
        f_impl = nnx.jit(nnx.value_and_grad(MRQ.mrq_policy_loss, argnums=0, has_aux=True), static_argnums=4)
        f_ref = nnx.jit(nnx.grad(mrq_ref, argnums=0))
    for ps, bt in itertools.product(pv_list(item), range(n_batches)):
        obs, _, _ = make_batch("tanh", N, seed, bt)
        base = dict(item=item["name"], pseed=ps, batch=bt)
        s = pseed(item, ps)
        r_ = nnx.Rngs(s)
        update = None
        if head.startswith("dpg"):
            policy = DeterministicTanhPolicy(MLP(2, 2, [3], "tanh", r_), BOX)
            q1, q2 = MLP(4, 1, [3], "tanh", r_), MLP(4, 1, [3], "tanh", r_)
            q = {"dpg-mlp": q1, "dpg-vec": VecOut(q1), "dpg-double": ContinuousClippedDoubleQNet(q1, q2)}[head]
            x = jnp.concatenate((obs, policy(obs)), axis=-1)
            qa = f64(q1(x)).reshape(-1)
            qb = f64(q2(x)).reshape(-1) if head == "dpg-double" else qa
            want = -float(np.mean(np.minimum(qa, qb)))
            ok, r = guarded(col, entry, N, base, lambda: f_impl(q, obs, policy))
            if not ok:
                continue
            val, g = r
            gref = f_ref(policy, q, obs)
            actor, others = policy, {"critic": q}
            opt = nnx.Optimizer(policy, optax.sgd(1.0), wrt=nnx.Param)
            update = lambda: DDPG.ddpg_update_actor(policy, opt, q, obs)  # noqa: E731
        elif head == "sale":
            emb = SALE(MLP(2, 3, [3], "elu", r_), MLP(3 + 2, 3, [3], "elu", r_))
            actor = ActorSALE(DeterministicTanhPolicy(MLP(3 + 3, 2, [3], "elu", r_), BOX), 2, 3, r_)
            critic = ContinuousClippedDoubleQNet(
                CriticSALE(MLP(3 + 6, 1, [3], "elu", r_), 2, 2, 3, r_), CriticSALE(MLP(3 + 6, 1, [3], "elu", r_), 2, 2, 3, r_)
            )
            qa, qb = (f64(t).reshape(-1) for t in sale_q12(actor, emb, critic, obs))
            want = -float(np.mean(0.5 * (qa + qb)))  # documented: the mean of the two critics
            ok, r = guarded(col, entry, N, base, lambda: f_impl(emb, critic, obs, actor))
            if not ok:
                continue
            val, g = r
            gref = f_ref(actor, emb, critic, obs)
            others = {"embedding": emb, "critic": critic}
            opt = nnx.Optimizer(actor, optax.sgd(1.0), wrt=nnx.Param)
            pol = DeterministicSALEPolicy(emb, actor)
            update = lambda: TD7.td7_update_actor(pol, opt, critic, obs)  # noqa: E731
        else:  # mrq
            enc = ModelBasedEncoder(2, 2, 5, 3, 2, 3, [3], "elu", False, r_)
            policy = DeterministicTanhPolicy(LayerNormMLP(3, 2, [3], "elu", rngs=r_), BOX)
            q = ContinuousClippedDoubleQNet(LayerNormMLP(3, 1, [3], "elu", rngs=r_), LayerNormMLP(3, 1, [3], "elu", rngs=r_))
            zs = enc.encode_zs(obs)
            qa, qb = (f64(t).reshape(-1) for t in mrq_q12(policy, q, enc, zs))
            want = -float(np.mean(np.minimum(qa, qb)))
            ok, r = guarded(col, entry, N, base, lambda: f_impl(policy, q, enc, zs, 0.0))
            if not ok:
                continue
            (val, (dpg0, reg0)), g = r
            # LayerNorm networks of width 3 on a single observation amplify float32 rounding (eager reference vs jitted routine
            # differ by up to ~1e-4 relative at some seeds): the comparisons of this branch allow 5e-4; what they are there to
            # catch (mean instead of min of the critics, a wrong sign, a missing regulariser) is orders of magnitude larger
            lnclose = lambda a_, b_: bool(np.all(np.abs(f64(a_) - f64(b_)) <= 5e-4 * np.maximum(1.0, np.abs(f64(b_)))))  # noqa: E731
            ln_rtol[0] = 5e-4
            col.tick(1)
            if not lnclose(dpg0, want):
                col.violation(SIG.format(entry, K_VALUE), dict(base, what="dpg component", got=float(dpg0), want=want))
            for w in [1e-5, 0.5]:
                ok, r2 = guarded(col, entry, N, base, lambda: f_impl(policy, q, enc, zs, w))
                if ok:
                    (valw, (dpgw, regw)), _ = r2
                    col.tick(1, (item["name"], ps, bt, "decomposition", w))
                    if not (lnclose(dpgw, want) and lnclose(valw, want + w * float(regw)) and float(regw) >= 0):
                        col.violation(SIG.format(entry, K_VALUE), dict(base, what="loss != dpg + weight*regulariser", weight=w, got=float(valw), dpg=float(dpgw), reg=float(regw), want_dpg=want))
            gref = f_ref(policy, q, enc, zs)
            others = {}
        if head != "dpg-mlp" and head != "dpg-vec":
            col.outcome("dpg_cases_where_the_two_critics_disagree", int(np.any(np.abs(qa - qb) > 1e-4)))
        nz = gnorm(gref) > 1e-6
        key = (item["name"], ps, bt) if nz else None
        col.outcome("dpg_reference_gradient_nonzero", int(nz))
        col.outcome("dpg_cases_where_a_sign_flip_would_change_value", int(abs(want) > 1e-4))
        col.tick(1, key)
        if np.shape(val) != () or not vclose(val, want, float(np.max(np.abs(np.concatenate((qa, qb))))), **({"rtol": ln_rtol[0]} if ln_rtol[0] else {})):
            col.violation(SIG.format(entry, K_VALUE), dict(base, got=f64(val), want=want, q1=qa, q2=qb))
        col.tick(1, key)
        if not gclose(g, gref):
            col.violation(SIG.format(entry, K_GRAD), dict(base, got_norm=gnorm(g), want_norm=gnorm(gref)))
        if update is not None:
            sgd_update_check(col, upd_entry, base, update, actor, others, gref, N)
        col.sample(dict(item=item["name"], pseed=ps, batch=bt, loss=float(np.mean(f64(val))), reference=want, grad_norm=gnorm(gref)))


# -- sac family ------------------------------------------------------------------------------


def sac_ref(policy, q, alpha, key, obs):
    a = policy.sample(obs, key)
    lp = policy.log_probability(obs, a)
    x = jnp.concatenate((obs, a), axis=-1)
    qmin = jnp.minimum(jnp.reshape(q.q1(x), (-1,)), jnp.reshape(q.q2(x), (-1,)))
    return jnp.sum(alpha * lp - qmin) / obs.shape[0]


def work_sac(item, col):
    head, N, seed, qshape = item["head"], item["N"], item["seed"], item["cshape"]
    entry = "sac_actor_loss"
    obs, _, _ = make_batch("tanh", N, seed)
    f = nnx.jit(nnx.value_and_grad(SAC.sac_actor_loss, argnums=0))
    fr = nnx.jit(nnx.grad(sac_ref, argnums=0))
    for ps in pv_list(item):
        s = pseed(item, ps)
        policy = make_actor(head, s)
        q1, q2 = MLP(4, 1, [3], "tanh", nnx.Rngs(s + 1)), MLP(4, 1, [3], "tanh", nnx.Rngs(s + 2))
        q = ContinuousClippedDoubleQNet(VecOut(q1), VecOut(q2)) if qshape == "N" else ContinuousClippedDoubleQNet(q1, q2)
        for ki in range(2 if item["tier"] == "quick" else 4):
            obs, _, _ = make_batch("tanh", N, seed, ki)
            key = jax.random.key(1000 * seed + 10 * ps + ki)
            a = policy.sample(obs, key)
            lp = f64(policy.log_probability(obs, a))
            x = jnp.concatenate((obs, a), axis=-1)
            qa, qb = f64(q1(x)).reshape(-1), f64(q2(x)).reshape(-1)
            for alpha in [jnp.asarray([0.2], dtype=jnp.float32), 0.0, 0.5]:
                al = float(np.asarray(alpha).reshape(-1)[0])
                base = dict(item=item["name"], pseed=ps, key=ki, alpha=al, alpha_is_array=not isinstance(alpha, float))
                want = float(np.mean(al * lp - np.minimum(qa, qb)))
                ok, r = guarded(col, entry, N, base, lambda: f(policy, q, alpha, key, obs))
                if not ok:
                    continue
                val, g = r
                gref = fr(policy, q, al, key, obs)
                nz = gnorm(gref) > 1e-6
                ck = (item["name"], ps, ki, al, base["alpha_is_array"]) if nz else None
                col.tick(1, ck)
                if np.shape(val) != () or not vclose(val, want, float(np.max(np.abs(np.concatenate((al * lp, qa, qb)))))):
                    col.violation(SIG.format(entry, K_VALUE), dict(base, got=f64(val), want=want, logp=lp, q1=qa, q2=qb))
                col.tick(1, ck)
                if not gclose(g, gref):
                    col.violation(SIG.format(entry, K_GRAD), dict(base, got_norm=gnorm(g), want_norm=gnorm(gref)))
                col.outcome("sac_reference_gradient_nonzero", int(nz))
                col.outcome("sac_cases_where_max_instead_of_min_Q_would_change_value", int(np.any(qa != qb)))
                col.outcome("sac_cases_where_entropy_term_matters", int(al != 0 and abs(np.mean(lp)) > 1e-6))
            # the shipped update: only the policy moves, along the reference gradient
            alpha = jnp.asarray([0.2], dtype=jnp.float32)
            base = dict(item=item["name"], pseed=ps, key=ki)
            gref = fr(policy, q, 0.2, key, obs)
            opt = nnx.Optimizer(policy, optax.sgd(1.0), wrt=nnx.Param)
            sgd_update_check(col, "sac_update_actor", base, lambda: SAC.sac_update_actor(policy, opt, q, key, obs, alpha), policy, {"critic": q}, gref, N)
        col.sample(dict(item=item["name"], pseed=ps, logp=lp, q1=qa, q2=qb))


# -- temperature -----------------------------------------------------------------------------


class _Env:
    action_space = BOX


def work_temp(item, col):
    head, N, seed = item["head"], item["N"], item["seed"]
    obs, _, _ = make_batch("tanh", N, seed)
    f_g = nnx.jit(nnx.grad(SAC.sac_exploration_loss, argnums=4))
    for ps in pv_list(item):
        policy = make_actor(head, pseed(item, ps))
        for ki in range(2 if item["tier"] == "quick" else 4):
            obs, _, _ = make_batch("tanh", N, seed, ki)
            key = jax.random.key(1000 * seed + 10 * ps + ki)
            a = policy.sample(obs, key)
            ent = -float(np.mean(f64(policy.log_probability(obs, a))))  # sampled estimate of the entropy
            targets = [("est-10", ent - 10.0), ("est-0.01", ent - 0.01), ("est+0.01", ent + 0.01), ("est+10", ent + 10.0), ("default", -2.0)]
            for tname, tgt in targets:
                if abs(tgt - ent) < 1e-3:
                    continue
                must_raise = ent < tgt
                base = dict(item=item["name"], pseed=ps, key=ki, target=tgt, entropy_estimate=ent)
                # (a) gradient step on the loss itself from several alphas
                for a0 in [1e-10, 0.1, 1.0, 5.0, 20.0, 1e4]:  # incl. log-alpha far outside [-20, 2]
                    coef = SAC.EntropyCoefficient(jnp.log(jnp.asarray([a0], dtype=jnp.float32)))
                    entry = "sac_exploration_loss"
                    ok, g = guarded(col, entry, N, base, lambda: f_g(policy, tgt, key, obs, coef))
                    if not ok:
                        continue
                    gl = float(f64(jax.tree_util.tree_leaves(g)[0]).reshape(-1)[0])
                    raises = -gl > 0  # a descent step moves log alpha along -gradient
                    col.tick(1, (item["name"], ps, ki, tname, a0))
                    col.outcome("temp_cases_alpha_must_rise" if must_raise else "temp_cases_alpha_must_not_rise")
                    if raises != must_raise or gl == 0.0:
                        col.violation(SIG.format(entry, K_TEMP), dict(base, alpha0=a0, dloss_dlogalpha=gl, must_raise=must_raise))
                # (b) the shipped controller, three consecutive updates on the same batch
                entry = "EntropyControl.update"
                ec = SAC.EntropyControl(_Env(), 0.2, True, 1e-2)
                ec.target_entropy = tgt
                prev = float(f64(ec.alpha_).reshape(-1)[0])
                for step in range(3):
                    ok, _ = guarded(col, entry, N, base, lambda: ec.update(policy, obs, key))
                    if not ok:
                        break
                    cur = float(f64(ec.alpha_).reshape(-1)[0])
                    col.tick(1, (item["name"], ps, ki, tname, "update", step))
                    col.outcome("temp_cases_alpha_must_rise" if must_raise else "temp_cases_alpha_must_not_rise")
                    if (cur > prev) != must_raise or cur == prev:
                        col.violation(SIG.format(entry, K_TEMP), dict(base, step=step, alpha_before=prev, alpha_after=cur, must_raise=must_raise))
                    internal = float(f64(ec._alpha()).reshape(-1)[0])
                    if not num.close(cur, internal):
                        col.violation(SIG.format(entry, K_TEMP), dict(base, what="alpha_ is not exp(log_alpha)", alpha_=cur, internal=internal))
                    prev = cur
            col.sample(dict(item=item["name"], pseed=ps, key=ki, entropy_estimate=ent, targets=[t for _, t in targets]))


def work(item, col):
    {"pg": work_pg, "ppo": work_ppo, "dpg": work_dpg, "sac": work_sac, "temp": work_temp}[item["fam"]](item, col)
