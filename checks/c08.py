"""C08 - prioritized replay samples proportionally and tracks priorities (E1 + E3)."""

import itertools
from fractions import Fraction

import numpy as np

from vlib import e1

PROPERTY = "C08"
LEVEL = "model_checking"
USES_JAX = True
RULE = (
    "BFS over add / sample(batch, explorer-chosen dyadic variates) / update_priority(values from {0.5,2,4}) / "
    "reset_max_priority [/ select-task] histories of the real prioritized buffers, canonical state = (ring "
    "position, length, stored priorities, tracked maximum, slots of the last sampled batch, adds-since-sample "
    "flag[, mask, per task]); one evaluation = one oracle comparison (one drawn index against the exact "
    "cumulative-interval rule, one add/update/reset effect, one weight vector); non-trivial = priorities are "
    "non-uniform, or an entry is masked, or the buffer has wrapped; distinct = distinct (config, canonical "
    "state, op). Separate complete product for the sampling law on extreme priority vectors and for the "
    "priority functions."
)
ASSUMPTIONS = [
    "priorities and variates are exact dyadic rationals so cumsum, u*total and searchsorted are exact and the interval oracle c_{i-1} < u*total <= c_i is exact; this IS 'P(i)=p_i/sum(p)' for u uniform on (0,1)",
    "update_priority is only issued directly after a sample (no add in between), as every training loop does",
    "the mask of the subtrajectory buffer is taken as given (its correctness is C04)",
    "statistical frequencies under a real generator are not measured (sampling is a different technique family)",
    "capacity <= 3, batch <= 2 in the state search; batch <= 4 in the law sweep",
]
SIG = "C08|{}|{}"
V = [0.5, 2.0, 4.0]
KNOWN_BUF = {"buffer", "Batch", "buffer_size", "current_len", "insert_idx", "priority", "mask_", "episode_timesteps", "environment_terminates", "horizon"}
KNOWN_PRI = {"priority", "max_priority", "sampled_indices"}
BUDGET_S = {"quick": 480, "thorough": 2400}


def items(tier, seed):
    out = []
    q = tier == "quick"
    for cls in ("LAP", "PrioritizedReplayBuffer"):
        for cap in ([2, 3] if q else [1, 2, 3]):
            for b in ([1] if (q and cap == 3) else [1, 2]):
                out.append(dict(name=f"bfs-{cls}-cap{cap}-b{b}", kind="bfs", cls=cls, cap=cap, b=b, tasks=0, H=0, seed=seed, fine=not q))
    for cap, H in ([(3, 1)] if q else [(3, 1), (3, 2), (4, 2)]):
        out.append(dict(name=f"bfs-SubPER-cap{cap}-H{H}", kind="bfs", cls="SubtrajectoryReplayBufferPER", cap=cap, b=1, tasks=0, H=H, seed=seed))
    # tiny update values: the priority mass of the admissible starts is far below any absolute floor, masked entries still weigh nothing
    out.append(dict(name="bfs-SubPER-cap3-H1-tiny", kind="bfs", cls="SubtrajectoryReplayBufferPER", cap=3, b=1, tasks=0, H=1, seed=seed, V=[2.0**-40], coarse=True))
    out.append(dict(name="bfs-MT-LAP-cap2-t2", kind="bfs", cls="LAP", cap=2, b=1, tasks=2, H=0, seed=seed, V=[2.0], coarse=True))
    # lowering values: a task's stored priorities can fall below its tracked maximum, so a reset has work to do in every task
    out.append(dict(name="bfs-MT-LAP-cap2-t2-Vlow", kind="bfs", cls="LAP", cap=2, b=1, tasks=2, H=0, seed=seed, V=[0.5], coarse=True))
    if not q:
        out.append(dict(name="bfs-MT-SubPER-cap2-t2", kind="bfs", cls="SubtrajectoryReplayBufferPER", cap=2, b=1, tasks=2, H=1, seed=seed, V=[2.0], coarse=True))
        out.append(dict(name="bfs-MT-LAP-cap2-t2-V2", kind="bfs", cls="LAP", cap=2, b=1, tasks=2, H=0, seed=seed, V=[0.5, 2.0], coarse=True))
    for n in ([1, 2, 3] if q else [1, 2, 3, 4]):
        out.append(dict(name=f"law-n{n}", kind="law", n=n, seed=seed))
    for n in ([1, 2, 3] if q else [1, 2, 3, 4]):
        out.append(dict(name=f"weights-n{n}", kind="weights", n=n, seed=seed))
    for name, gs in (("td3_lap", [1, 3] if q else [1, 2, 3]), ("td7", [1]), ("ddqn_per", [1])):
        out.append(dict(name=f"protocol-{name}", kind="protocol", routine=name, gradient_steps=gs, seed=seed))
    for n in range(5, 17 if q else 33):
        out.append(dict(name=f"law-long-n{n}", kind="law", n=n, long=True, seed=seed))
    out.append(dict(name="priority-functions", kind="prio", seed=seed))
    # the |TD error| the critic updates report (and the training loops turn into priorities)
    for fam in ("td7", "td3_lap", "ddqn_per", "mrq"):
        out.append(dict(name=f"reported-td-error-{fam}", kind="tderr", fam=fam, tier=tier, seed=seed))
    return out


# ------------------------------------------------------------------------------------------
class B(e1.Bundle):
    pass


def inner_buffers(bd):
    return bd.buf.buffers if bd.cfg["tasks"] else [bd.buf]


def new_inner(cfg):
    from rl_blox.blox import replay_buffer as rb

    if cfg["H"]:
        return rb.SubtrajectoryReplayBufferPER(cfg["cap"], horizon=cfg["H"])
    return getattr(rb, cfg["cls"])(cfg["cap"])


def make(cfg, col):
    from rl_blox.blox import replay_buffer as rb

    bd = B()
    bd.cfg, bd.col = cfg, col
    b = new_inner(cfg)
    bd.buf = rb.MultiTaskReplayBuffer(b, cfg["tasks"]) if cfg["tasks"] else b
    nt = max(1, cfg["tasks"])
    for x in (bd.buf.buffers if cfg["tasks"] else [bd.buf]):
        # the priority store is allocated with np.empty: own that nondeterminism by poisoning the
        # never-initialised entries with a recognisable dyadic value
        x.priority.priority[:] = 64.0
    bd.n = [0] * nt  # transitions added per task (tags)
    bd.sel = 0
    bd.last = None  # (task, [slots]) of the most recent sampled batch, decoded from its content
    bd.fresh = False  # True iff the last op sequence since the sample contains no add
    bd.hist_ops = ()
    bd.k = [0] * nt
    return bd


def _js(x):
    return list(x) if isinstance(x, (list, tuple)) else x


class _NoTransfer:
    """Stand-in for jax.numpy inside replay_buffer during the state search: the host->device
    transfer in sample_batch (exercised for real in C02) is the identity here; index logic is untouched."""

    asarray = staticmethod(np.asarray)

    def __init__(self, real):
        self._real = real

    def __getattr__(self, name):  # everything else is the real jax.numpy
        return getattr(self._real, name)


def tag(t, n):
    return 1000.0 * t + n + 1


def slot_of_tag(buf, value):
    col0 = np.asarray(buf.buffer["observation"]).reshape(buf.buffer_size, -1)[:, 0]
    hits = [i for i in range(buf.current_len) if float(col0[i]) == float(value)]
    return hits


def pri(buf):
    return buf.priority.priority


def valid_weights(buf):
    """Priority mass per slot as the property defines it: stored priority over valid, unmasked entries."""
    p = np.array(pri(buf)[: buf.current_len], dtype=float)
    if hasattr(buf, "mask_"):
        p = p * np.asarray(buf.mask_[: buf.current_len])
    return p


def expected_index(weights, x):
    """Exact: the unique i with c_{i-1} < x <= c_i (Fractions)."""
    c = Fraction(0)
    xf = Fraction(x)
    for i, w in enumerate(weights):
        lo = c
        c += Fraction(float(w))
        if lo < xf <= c and w > 0:
            return i
    return None


class Stub:
    def __init__(self, us=None, fracs=None, choice=0):
        self.us, self.fracs, self.choice_answer = us, fracs, choice
        self.xs = None
        self.asked = []

    def uniform(self, low=0.0, high=1.0, size=None):
        low = np.asarray(low, dtype=float)
        high = np.asarray(high, dtype=float)
        if low.ndim == 0:
            self.asked.append("plain")
            return np.asarray(self.us, dtype=float)
        self.asked.append("stratified")
        self.lows, self.highs = low, high
        return low + np.asarray(self.fracs, dtype=float) * (high - low)

    def choice(self, a, size=None):
        a = list(range(int(a))) if isinstance(a, (int, np.integer)) else list(a)  # numpy semantics: an int means arange
        self.offered = a
        return np.asarray([a[self.choice_answer % len(a)]])

    def integers(self, *a, **k):
        raise AssertionError("prioritized buffer asked for uniform integer indices")


def grid(b, fine):
    g1 = [k / 32 for k in range(1, 32)] if fine else [k / 16 for k in range(1, 16)]
    if b == 1:
        # plus the two ends of the open interval: the largest double below 1 and a tiny positive variate
        return [(u,) for u in g1] + [(1.0 - 2.0**-53,), (2.0**-60,)]
    g2 = [k / 8 for k in range(1, 8)]
    return list(itertools.product(g2, repeat=b))


def ops(bd):
    cfg = bd.cfg
    out = []
    if cfg["H"]:
        out += [("add", "c"), ("add", "T"), ("add", "U")]
    else:
        out += [("add", "c")]
    bufs = inner_buffers(bd)
    if cfg["tasks"]:
        for i in range(cfg["tasks"]):
            if i != bd.sel:
                out.append(("select", i))
    b = cfg["b"]
    samp_tasks = [t for t, bf in enumerate(bufs) if bf.current_len > 0] if cfg["tasks"] else [0]
    for t in samp_tasks:
        bf = bufs[t]
        if bf.current_len == 0:
            continue
        w = valid_weights(bf)
        if w.sum() <= 0:
            continue
        for us in ([(0.25,), (0.5,), (0.75,)] if cfg.get("coarse") else grid(b, cfg.get("fine", False))):
            out.append(("sample", t, list(us)))
    if bd.last is not None and bd.fresh:
        for v in itertools.product(cfg.get("V", V), repeat=len(bd.last[1])):
            out.append(("update", list(v)))
        out.append(("update-scalar", 2.0))
    out.append(("reset",))
    return out


def entry_name(cfg):
    base = cfg["cls"]
    return f"MultiTaskReplayBuffer({base})" if cfg["tasks"] else base


def DIVERGENCE_ENTRY(item):
    return entry_name(item) if item.get("kind") == "bfs" else "prioritized-replay"


def nontrivial(bd, t):
    bf = inner_buffers(bd)[t]
    p = valid_weights(bf)
    return bool(len(set(p.tolist())) > 1 or bd.n[t] > bd.cfg["cap"])


def apply(bd, op):
    cfg, col = bd.cfg, bd.col
    hist = [list(map(_js, o)) for o in bd.hist_ops]
    bufs = inner_buffers(bd)
    E = entry_name(cfg)
    key = lambda t: (cfg["name"], canon(bd), tuple(map(str, op))) if nontrivial(bd, t) else None
    if op[0] == "select":
        bd.buf.select_task(op[1])
        bd.sel = op[1]
        return None
    if op[0] == "add":
        t = bd.sel
        bf = bufs[t]
        k = key(t)
        before = np.array(pri(bf), copy=True)
        len_before = bf.current_len
        maxp = bf.priority.max_priority
        others = [np.array(pri(x), copy=True) for x in bufs]
        idx0 = bf.insert_idx
        n = bd.n[t]
        kw = dict(observation=np.array([tag(t, n), bd.k[t]]), action=np.array([0.0]), reward=1.0, next_observation=np.array([tag(t, n) + 0.5, bd.k[t] + 1]))
        if cfg["H"]:
            kw.update(terminated=op[1] == "T", truncated=op[1] == "U")
            nwritten = 2 if op[1] in "TU" else 1
        else:
            kw.update(termination=False)
            nwritten = 1
        bd.buf.add_sample(**kw)
        bd.n[t] += 1
        bd.k[t] = 0 if op[1] in "TU" else bd.k[t] + 1
        bd.fresh = False
        written = [(idx0 + j) % cfg["cap"] for j in range(nwritten)]
        after = pri(bf)
        col.tick(1, k)
        for s in written[:1]:  # the transition itself; the appended successor row is not a transition
            if after[s] != maxp:
                col.violation(SIG.format(E + ".add_sample", "new-transition-priority!=current-max"), dict(hist=hist, slot=s, got=float(after[s]), max_priority=float(maxp)))
        for s in range(len_before):
            if s not in written and after[s] != before[s]:
                col.violation(SIG.format(E + ".add_sample", "add-changed-other-priority"), dict(hist=hist, slot=s))
        for u, x in enumerate(bufs):
            if u != t and not np.array_equal(pri(x)[: x.current_len], others[u][: x.current_len]):
                col.violation(SIG.format(E + ".add_sample", "add-changed-other-task"), dict(hist=hist, task=u))
        check_max(bd, t, E + ".add_sample", hist)
        return None
    if op[0] == "sample":
        t, us = op[1], op[2]
        bf = bufs[t]
        k = key(t)
        w = valid_weights(bf)
        total = float(w.sum())
        b = len(us)
        stub = Stub(us=us, fracs=us)
        if cfg["tasks"]:
            offered = list(bd.buf.active_buffers)
            stub.choice_answer = offered.index(t) if t in offered else 0
        before = np.array(pri(bf), copy=True)
        is_per = cfg["cls"] == "PrioritizedReplayBuffer"
        betas = (0.0, 0.4, 1.0) if is_per else (None,)
        batch = None
        for beta in betas:
            args = (b,) if not cfg["H"] else (b, 1, True)
            kwargs = {} if beta is None else {"beta": beta}
            out = bd.buf.sample_batch(*args, rng=stub, **kwargs) if cfg["tasks"] else bf.sample_batch(*args, stub, **kwargs)
            if is_per:
                batch, weights = out
                check_weights(bd, bf, batch, weights, beta, E, hist)
            else:
                batch = out
        obs = np.asarray(batch.observation)
        obs = obs.reshape(b, -1)
        drawn = []
        for j in range(b):
            hits = slot_of_tag(bf, obs[j, 0])
            drawn.append(hits[0] if len(hits) == 1 else None)
        # expected by the exact interval rule
        if "stratified" in stub.asked:
            xs = [Fraction(j + Fraction(us[j])) * Fraction(total) / b for j in range(b)]
        else:
            xs = [Fraction(us[j]) * Fraction(total) for j in range(b)]
        for j in range(b):
            exp = expected_index(w, xs[j])
            col.tick(1, k)
            if drawn[j] is None or drawn[j] >= bf.current_len:
                col.violation(SIG.format(E + ".sample_batch", "drawn-row-not-a-valid-entry"), dict(hist=hist, j=j, row=obs[j].tolist()))
            elif w[drawn[j]] <= 0:
                col.violation(SIG.format(E + ".sample_batch", "drew-masked-or-zero-priority-entry"), dict(hist=hist, j=j, slot=drawn[j], weights=w.tolist()))
            elif drawn[j] != exp:
                col.violation(SIG.format(E + ".sample_batch", "index-not-in-the-variate's-priority-interval"), dict(hist=hist, j=j, slot=drawn[j], expected=exp, weights=w.tolist(), x=float(xs[j])))
        if not np.array_equal(pri(bf), before):
            col.violation(SIG.format(E + ".sample_batch", "sampling-changed-priorities"), dict(hist=hist))
        bd.last = (t, drawn)
        bd.fresh = True
        col.outcome("draws_checked", b)
        if len(set(w.tolist())) > 1:
            col.outcome("draws_from_non_uniform_priorities", b)
        if np.any(w == 0):
            col.outcome("draws_with_masked_entries_present", b)
        return tuple(drawn)
    if op[0] in ("update", "update-scalar"):
        t, slots = bd.last
        bf = bufs[t]
        k = key(t)
        vals = op[1] if op[0] == "update" else [op[1]] * len(slots)
        arg = np.asarray(op[1], dtype=float) if op[0] == "update" else np.float64(op[1])
        before = [np.array(pri(x), copy=True) for x in bufs]
        raised = None
        try:
            bd.buf.update_priority(arg)
        except Exception as e:  # noqa: BLE001 - an exception here means the batch's priorities were not set
            raised = f"{type(e).__name__}: {str(e)[:120]}"
        after = pri(bf)
        want = np.array(before[t], copy=True)
        if None not in slots:
            for s, v in zip(slots, vals):
                want[s] = v  # duplicates: last write wins (numpy semantics)
        col.tick(1, k)
        n = bf.current_len
        if raised is not None or not np.array_equal(after[:n], want[:n]):
            wrong_slots = [s for s in range(n) if after[s] != want[s]]
            missing = [s for s in wrong_slots if s in slots]
            kind = "sampled-batch-priorities-not-set" if (raised or missing) else "update-changed-unsampled-entry"
            col.violation(SIG.format(E + ".update_priority", kind), dict(hist=hist, slots=slots, values=vals, before=before[t][:n].tolist(), after=after[:n].tolist(), raised=raised))
        for u, x in enumerate(bufs):
            if u != t and not np.array_equal(pri(x)[: x.current_len], before[u][: x.current_len]):
                col.violation(SIG.format(E + ".update_priority", "update-changed-other-task"), dict(hist=hist, task=u))
        check_max(bd, t, E + ".update_priority", hist)
        col.outcome("updates_checked")
        return None
    if op[0] == "reset":
        bd.buf.reset_max_priority()
        for t, bf in enumerate(bufs):
            col.tick(1, key(t))
            if bf.current_len > 0:
                true = float(np.max(pri(bf)[: bf.current_len]))
                if float(bf.priority.max_priority) != true:
                    col.violation(SIG.format(E + ".reset_max_priority", "max!=true-max-after-reset"), dict(hist=hist, task=t, max_priority=float(bf.priority.max_priority), true_max=true))
        return None
    raise ValueError(op)


def check_max(bd, t, entry, hist):
    bf = inner_buffers(bd)[t]
    n = bf.current_len
    if n and float(bf.priority.max_priority) < float(np.max(pri(bf)[:n])):
        bd.col.violation(SIG.format(entry, "tracked-max<stored-priority"), dict(hist=hist, max_priority=float(bf.priority.max_priority), stored=pri(bf)[:n].tolist()))


def check_weights(bd, bf, batch, weights, beta, E, hist):
    col = bd.col
    w = np.asarray(weights, dtype=float)
    obs = np.asarray(batch.observation).reshape(len(w), -1)
    slots = [slot_of_tag(bf, obs[j, 0]) for j in range(len(w))]
    ps = [float(pri(bf)[s[0]]) if len(s) == 1 else None for s in slots]
    col.tick(1)
    bad = None
    if not (np.all(w > 0) and np.all(w <= 1.0)):
        bad = "weights-outside-(0,1]"
    elif float(w.max()) != 1.0:
        bad = "max-weight!=1"
    else:
        for a in range(len(w)):
            for c in range(len(w)):
                if ps[a] is not None and ps[c] is not None and ps[a] > ps[c] and w[a] > w[c] * (1 + 1e-12):
                    bad = "weight-increasing-in-priority"
    if bad:
        col.violation(SIG.format(E + ".sample_batch", bad), dict(hist=hist, beta=beta, weights=w.tolist(), priorities=ps))
    if len(set(ps)) > 1:
        col.outcome("weight_vectors_with_distinct_priorities")


def canon(bd):
    out = []
    for t, bf in enumerate(inner_buffers(bd)):
        n = bf.current_len
        c = (bf.insert_idx, n, tuple(float(x) for x in pri(bf)[:n]), float(bf.priority.max_priority))
        if hasattr(bf, "mask_"):
            c += (tuple(int(x) for x in bf.mask_), min(bf.episode_timesteps, bd.cfg["H"] + 1))
        # anything the abstraction does not know about (e.g. a cache added by a later change) is state too
        c += (e1.hidden_state(bf, KNOWN_BUF), e1.hidden_state(bf.priority, KNOWN_PRI))
        out.append(c)
    last = (bd.last[0], tuple(bd.last[1])) if (bd.last is not None and bd.fresh) else None
    return (tuple(out), bd.sel, last)


# -- E3 parts ------------------------------------------------------------------------------


def law_item(item, col):
    from rl_blox.blox import replay_buffer as rb

    n = item["n"]
    alph = [1.0, 0.0, 2.0**-30, 2.0**-29, 2.0**30, 2.0**29, 2.0**-20, 2.0**20, 3.0]
    vectors = itertools.product(alph, repeat=n)
    if item.get("long"):
        # longer vectors of small integers (cumulative sums stay exact): freshly filled buffers (all priorities equal) and a
        # few patterns; totals that are no power of two, so a normalised representation would round
        vectors = [tuple([1.0] * n), tuple([3.0] * n), tuple([1.0, 3.0] * (n // 2) + [1.0] * (n % 2)), tuple([2.0] * (n - 1) + [5.0]),
                   tuple([1.0] * (n - 1) + [0.0]), tuple([0.0] + [1.0] * (n - 1))]
    for vec in vectors:
        mags = [v for v in vec if v > 0]
        if not mags:
            continue
        if max(mags) / min(mags) > 2.0**45:
            continue  # cumulative sum would not be exact in float64; outside the exact oracle
        for masked in ([False, True] if n > 1 else [False]):
            pb = rb.PriorityBuffer(n)
            base = [v if v > 0 else 1.0 for v in vec]
            pb.priority[:] = base
            mask = np.array([0 if v == 0 else 1 for v in vec]) if masked else None
            if not masked and 0.0 in vec:
                pb.priority[:] = vec  # a literally-zero priority
            w = np.array(pb.priority[:n]) * (mask if mask is not None else 1)
            if w.sum() <= 0:
                continue
            total = float(w.sum())
            for b in (1, 2, 3):
                ends = [1.0 - 2.0**-53, 2.0**-60] if b == 1 else []  # the ends of the open interval (0, 1)
                for us in itertools.product([1 / 16, 0.25, 0.5, 0.75, 15 / 16] + ends, repeat=b) if b < 3 else [(0.25, 0.5, 0.75), (1 / 16, 1 / 16, 15 / 16)]:
                    stub = Stub(us=list(us))
                    idx = pb.prioritized_sampling(n, b, stub, mask)
                    for j in range(b):
                        exp = expected_index(w, Fraction(us[j]) * Fraction(total))
                        nontriv = len(set(w.tolist())) > 1
                        col.tick(1, ("law", vec, masked, us, j) if nontriv else None)
                        i = int(idx[j])
                        if not (0 <= i < n) or w[i] <= 0:
                            col.violation(SIG.format("PriorityBuffer.prioritized_sampling", "drew-masked-or-zero-priority-entry"), dict(priorities=list(vec), masked=masked, us=list(us), index=i))
                        elif i != exp:
                            col.violation(SIG.format("PriorityBuffer.prioritized_sampling", "index-not-in-the-variate's-priority-interval"), dict(priorities=list(vec), masked=masked, us=list(us), index=i, expected=exp))
            # stratified variant (PER), batch 1,2,4 so that total/b is exact
            if mask is None and all(v > 0 for v in vec):
                per = rb.PrioritizedReplayBuffer(n)
                per.priority.priority[:] = vec
                for b in (1, 2, 4):
                    for frac in (1 / 16, 0.5, 15 / 16):
                        stub = Stub(fracs=[frac] * b)
                        idx = per.prioritized_sampling_stratified(n, b, stub)
                        for j in range(b):
                            x = (Fraction(j) + Fraction(frac)) * Fraction(total) / b
                            exp = expected_index(w, x)
                            col.tick(1, ("strat", vec, b, frac, j) if len(set(vec)) > 1 else None)
                            if int(idx[j]) != exp:
                                col.violation(SIG.format("PrioritizedReplayBuffer.prioritized_sampling_stratified", "index-not-in-the-variate's-priority-interval"), dict(priorities=list(vec), b=b, frac=frac, index=int(idx[j]), expected=exp))
    col.sample(dict(kind="law", n=n, alphabet=alph))


def weights_item(item, col):
    """Importance weights of PER over wide-range priority vectors: (0, 1], maximum 1, non-increasing in priority and equal to
    (p_i / p_min)^-beta of the batch (float64 reference; the priorities are stored in float64)."""
    from rl_blox.blox import replay_buffer as rb

    n = item["n"]
    alph = [2.0**-100, 2.0**-20, 1.0, 3.0, 2.0**20, 2.0**100]
    E = "PrioritizedReplayBuffer.compute_importance_ratio"
    for vec in itertools.product(alph, repeat=n):
        per = rb.PrioritizedReplayBuffer(n)
        for i in range(n):
            per.add_sample(observation=np.array([float(i)]), action=0, reward=0.0, next_observation=np.array([0.0]), termination=False)
        per.priority.priority[:n] = vec
        batches = [list(range(n)), list(range(n))[::-1]] + [[i] for i in range(n)] + ([[0, 0, n - 1]] if n > 1 else [])
        for beta, idx in itertools.product((0.0, 0.4, 1.0), batches):
            p = np.asarray([vec[i] for i in idx], dtype=np.float64)
            nontriv = beta > 0 and len(set(p.tolist())) > 1
            col.tick(1, ("weights", vec, beta, tuple(idx)) if nontriv else None)
            try:
                w = np.asarray(per.compute_importance_ratio(np.asarray(idx), beta), dtype=np.float64).reshape(-1)
            except Exception as e:  # noqa: BLE001
                col.violation(SIG.format(E, "raised"), dict(priorities=list(vec), indices=idx, beta=beta, error=repr(e)[:200]))
                continue
            ref = (p / p.min()) ** (-beta)
            ref = ref / ref.max()
            d = dict(priorities=list(vec), indices=idx, beta=beta, weights=w.tolist(), expected=ref.tolist())
            if w.shape != ref.shape or not np.all(np.isfinite(w)) or not (np.all(w > 0) and np.all(w <= 1.0)):
                col.violation(SIG.format(E, "weights-outside-(0,1]"), d)
            elif float(w.max()) != 1.0:
                col.violation(SIG.format(E, "max-weight!=1"), d)
            elif any(p[a] > p[c] and w[a] > w[c] * (1 + 1e-12) for a in range(len(p)) for c in range(len(p))):
                col.violation(SIG.format(E, "weight-increasing-in-priority"), d)
            elif not np.allclose(w, ref, rtol=1e-5, atol=0):
                col.violation(SIG.format(E, "weight!=(N*P(i))^-beta/max"), d)
            if nontriv:
                col.outcome("weight_vectors_with_distinct_priorities")
                if p.max() / p.min() > 2.0**130:
                    col.outcome("weight_vectors_spanning_more_than_the_float32_range")
    col.sample(dict(kind="weights", n=n, alphabet=alph))


def protocol_item(item, col):
    """Training loops that feed TD errors back as priorities: update_priority writes to the batch sampled LAST, so every
    update must directly follow the sample_batch whose TD errors it carries (sample, update, sample, update, ...), also
    with several gradient steps per environment step."""
    from vlib import drivers as D

    name = item["routine"]
    entry = "train_" + name
    for g, script in itertools.product(item["gradient_steps"], ["cccccccc", "ccTccUcc"]):
        cfg = dict(buffer_size=16, env_horizon=len(script) + 3, learning_starts=2, batch_size=2, seed=1 + item["seed"], net_seed=item["seed"], delay=2)
        if g > 1:
            cfg["gradient_steps"] = g
        if name == "td7":
            cfg["use_checkpoints"] = False
        rb = D.new_buffer(name, cfg)
        log = []
        cls = type(rb)

        class Rec(cls):
            def sample_batch(self, *a, **k):
                log.append("sample")
                return cls.sample_batch(self, *a, **k)

            def update_priority(self, *a, **k):
                log.append("update")
                return cls.update_priority(self, *a, **k)

        rb.__class__ = Rec
        run = D.run(name, script, replay_buffer=rb, **cfg)
        col.tick(1, (entry, g, script))
        if run.error is not None:
            col.outcome("protocol_runs_aborted_by_env_guard:" + run.error)
            continue
        col.outcome("protocol_calls_observed", len(log))
        if g > 1:
            col.outcome("protocol_runs_with_several_gradient_steps_per_environment_step")
        bad = None
        for i, c in enumerate(log):
            want = "sample" if i % 2 == 0 else "update"
            if c != want:
                bad = i
                break
        if bad is None and len(log) % 2 == 1:
            bad = len(log)
        if bad is not None:
            col.violation(SIG.format(entry, "priority-update-does-not-follow-its-own-batch"), dict(routine=name, script=script, gradient_steps=g, calls=log[:24], first_bad_call=bad))
    col.sample(dict(kind="sample/update protocol of a training loop", routine=name, gradient_steps=item["gradient_steps"]))


def prio_item(item, col):
    import jax.numpy as jnp

    from rl_blox.blox import replay_buffer as rb

    deltas = [0.0, 1e-8, 0.5, 1.0, 2.0, 1e6]
    for alpha in (0.4, 0.6, 1.0):
        for minp in (1.0, 0.5, 2.0, 4.0):  # floors above 1 too: the floor is raised to the power like every other value
            # errors just above the floor, where a floor that skips the power would break monotonicity
            deltas = sorted(set([0.0, 1e-8, 0.5, 1.0, 2.0, 1e6] + [minp, minp * 1.0125, minp * 1.5]))
            p = np.asarray(rb.lap_priority(jnp.asarray(deltas), minp, alpha), dtype=float)
            col.tick(1, ("lap", alpha, minp))
            if not (np.all(p > 0) and np.all(np.isfinite(p))):
                col.violation(SIG.format("lap_priority", "priority-not-positive"), dict(alpha=alpha, min_priority=minp, p=p.tolist()))
            if np.any(np.diff(p) < 0):
                col.violation(SIG.format("lap_priority", "priority-decreasing-in-abs-error"), dict(alpha=alpha, min_priority=minp, p=p.tolist()))
        for eps in (1e-6, 1e-2):
            p = np.asarray(rb.per_priority(jnp.asarray(deltas), alpha, eps), dtype=float)
            col.tick(1, ("per", alpha, eps))
            if not (np.all(p > 0) and np.all(np.isfinite(p))):
                col.violation(SIG.format("per_priority", "priority-not-positive"), dict(alpha=alpha, eps=eps, p=p.tolist()))
            if np.any(np.diff(p) < 0):
                col.violation(SIG.format("per_priority", "priority-decreasing-in-abs-error"), dict(alpha=alpha, eps=eps, p=p.tolist()))
    col.sample(dict(kind="priority-functions", abs_td_errors=deltas))


class _TdErr:
    """Collector proxy over C03's float64 reference for the critic losses: only its verdict on the reported
    per-sample |TD error| (max over both critics of the absolute error) is taken over, under a C08 signature."""

    def __init__(self, col):
        self._col = col

    def violation(self, signature, detail=None, item=None):
        parts = signature.split("|")
        if "td-error" in parts[2]:
            self._col.violation(SIG.format(parts[1], "reported-td-error-not-the-absolute-td-error"), detail)

    def sample(self, obj):
        pass

    def __getattr__(self, name):
        return getattr(self._col, name)


def tderr_item(item, col):
    from checks import c03

    its = [i for i in c03.items(item["tier"], item["seed"]) if i.get("fam") == item["fam"] and i.get("N") == 2]
    its = its[: (2 if item["tier"] == "quick" else 6)]
    proxy = _TdErr(col)
    for it in its:
        c03.work(it, proxy)
    col.outcome("critic_loss_items_checked_for_reported_td_error", len(its))
    col.sample(dict(kind="reported-td-error", family=item["fam"], c03_items=[i["name"] for i in its]))


def work(item, col):
    if item["kind"] == "tderr":
        return tderr_item(item, col)
    if item["kind"] == "law":
        return law_item(item, col)
    if item["kind"] == "weights":
        return weights_item(item, col)
    if item["kind"] == "protocol":
        return protocol_item(item, col)
    if item["kind"] == "prio":
        return prio_item(item, col)
    cfg = item
    from rl_blox.blox import replay_buffer as rb

    from vlib import poison

    poison.install()
    real_jnp = rb.jnp
    rb.jnp = _NoTransfer(real_jnp)
    try:
        res = e1.bfs(
            make=lambda: make(cfg, col),
            ops=ops,
            apply=apply,
            canon=canon,
            max_states=40000,
            max_depth=30,
            validate_make=lambda: make(cfg, e1.NullCol()),
        )
    finally:
        rb.jnp = real_jnp
    col.graph(res["states"], res["transitions"], res["validated"], res["max_depth"])
    if not res["fixpoint"]:
        col.cap(f"{cfg['name']}: BFS did not close (cap)")
    col.append("configurations", dict(name=cfg["name"], states=res["states"], transitions=res["transitions"], fixpoint=res["fixpoint"], max_depth=res["max_depth"]))
    deepest = max(res["paths"].values(), key=len)
    col.sample(dict(config=cfg["name"], deepest_history=[list(map(str, o)) for o in deepest]))
