"""C03 - critic and representation losses implement their documented targets per sample (E3).

Small-scope exhaustive input products for every value-learning loss of rl-blox and for the two
representation losses, compared with float64 numpy references that restate the DOCUMENTED target
(y = r + (1 - terminated) * gamma * bootstrap, documented bootstrap per algorithm) from the same
forward passes of the real networks.  Derived checks (all decided differentially on the real
function): terminated-row successor irrelevance (IEEE ==), batch permutation invariance,
exactly-zero gradient w.r.t. target networks / target policies / bootstrap inputs, N=1 rule.
"""

import itertools
from collections import namedtuple

import gymnasium as gym
import jax
import jax.numpy as jnp
import numpy as np
import optax
from flax import nnx

from rl_blox.algorithm.mrq import mrq_loss
from rl_blox.algorithm.td7 import td7_update_critic
from rl_blox.blox import losses as L
from rl_blox.blox.double_qnet import ContinuousClippedDoubleQNet
from rl_blox.blox.embedding.model_based_encoder import ModelBasedEncoder, model_based_encoder_loss
from rl_blox.blox.embedding.sale import SALE, CriticSALE, state_action_embedding_loss
from rl_blox.blox.function_approximator.gaussian_mlp import GaussianMLP
from rl_blox.blox.function_approximator.layer_norm_mlp import LayerNormMLP
from rl_blox.blox.function_approximator.mlp import MLP
from rl_blox.blox.function_approximator.policy_head import DeterministicTanhPolicy, GaussianTanhPolicy
from rl_blox.blox.preprocessing import make_two_hot_bins
from vlib import num

PROPERTY = "C03"
LEVEL = "exploration"
USES_JAX = True
CLEAR_EVERY = 6
RECYCLE_AFTER = 40
BUDGET_S = {"quick": 900, "thorough": 3000}  # guards only; measured CPU cost: see evidence wall_s
RULE = (
    "full Cartesian product per loss of: batch size N in {1,2,3}, observation dim {1,2}, action dim {1,2} / "
    "#actions {2,3}, ALL 2^N termination patterns (2^(N*H) for the horizon losses, H in {1,2,3}), reward "
    "vectors (3 fixed per N in quick, {-1,0,2}^N in thorough), gamma in {0,.5,.99,1}, action alphabets, "
    "Huber delta / clip range / entropy coefficient / reward scales / loss weights, and pairs of deliberately "
    "different online and target parameter sets of tiny networks built with the repo's constructors; one "
    "evaluation = one oracle comparison (a loss+aux value against the float64 reference, one successor "
    "replacement, one batch permutation, one gradient inspection); a value case is NON-TRIVIAL when the "
    "mechanism under test matters for it: dropping the (1-terminated) factor or zeroing the bootstrap changes "
    "the reference loss by more than 1e-3 (TD losses), at least one row is masked or carries a set flag "
    "(encoder loss), always for the embedding loss; distinct = distinct (loss, shape, parameter pair, action "
    "index, termination pattern, reward index, gamma, extra hyper-parameters)"
)
ASSUMPTIONS = [
    "network forward passes (MLP, LayerNormMLP, policy heads, SALE, ModelBasedEncoder, avg_l1_norm, two-hot bins) are trusted: the reference consumes their float32 outputs (policy heads / two-hot are checked by C13 / C18)",
    "the documented per-sample normalisation of the masked encoder terms is that of masked_mse_loss for its documented 2-D inputs: mean over all N rows of error*mask (masked rows count as zero)",
    "TD3/SAC/TD7/MR.Q sum the regression losses of both Q heads (ContinuousClippedDoubleQNet trains both); q_mean of a clipped double Q-net is the mean of min(Q1,Q2)",
    "termination flags are int32 arrays, rewards float32 (what the replay buffers deliver)",
    "alphabets: N<=3, dims<=2, horizons<=3, 2-3 parameter sets per role, finite value alphabets; values are O(1) so that float32 losses are compared at 1e-5*max(1,|ref|)",
    "jit and eager execution of a loss agree (checked on 2-3 cases of every work item at 1e-4*max(1,|x|): two float32 executions through LayerNorm over 3 units); the bulk of the product runs under jax.jit, the shipped mode (every train_* routine jits its update step)",
    "td7_update_critic is observed through its return values with a zero-learning-rate optimizer; gradients w.r.t. its target networks are not taken by the routine at all (argnums selects the critic), so the zero-gradient check does not apply to it",
    "SAC draws its bootstrap action with a per-row noise; batch permutation for SAC is therefore checked as: every permuted batch still equals the reference for that permuted batch",
]

SIG = "C03|{}|{}"
# fixed vocabulary of failure kinds
K_LOSS = "loss!=documented-regression"
K_N1 = "n1-silently-different-value"
K_QMEAN = "aux-q-mean"
K_TD = "aux-td-error"
K_Y = "aux-target-values"
K_ZS = "aux-zs"
K_SUCC = "terminated-row-successor-dependence"
K_PERM = "batch-order-dependence"
K_GT = "nonzero-gradient-to-target-network"
K_GB = "nonzero-gradient-to-bootstrap-input"
K_RAISE = "raises-on-valid-batch"
K_MODE = "jit-eager-disagree"
K_POST = "post-terminal-dependence"
K_DYN = "dynamics-term-value"
K_REW = "reward-term-value"
K_DONE = "done-term-value"
K_DONE_MASK = "done-term-not-masked-per-sample"
K_MSE = "reward-mse-metric-value"
K_MSE_MASK = "reward-mse-metric-not-masked-per-sample"
K_TOTAL = "total!=weighted-sum-of-terms"

LOUD = (AssertionError, ValueError, TypeError)
MODE_RTOL = 1e-4  # two float32 executions (eager op-by-op vs fused XLA program); LayerNorm over 3 units amplifies rounding
GAMMAS = [0.0, 0.5, 0.99, 1.0]
REWARD_VALUES = [-1.0, 0.0, 2.0]
QUICK_REWARDS = [[-1.0, 2.0, 0.0], [2.0, -1.0, 2.0], [0.0, 0.0, -1.0]]
PSCALE = [1.0, 2.5, 0.6]
Z = 3  # embedding dims
NB = 5  # two-hot bin edges

ENTRY = {
    "dqn": "dqn_loss",
    "nature": "nature_dqn_loss",
    "ddqn": "ddqn_loss",
    "ddqn_per": "ddqn_per_loss",
    "ddpg": "ddpg_loss",
    "td3": "td3_loss",
    "td3_lap": "td3_lap_loss",
    "sac": "sac_loss",
    "td7": "td7_update_critic",
    "mrq": "mrq_loss",
    "sale": "state_action_embedding_loss",
    "encoder": "model_based_encoder_loss",
}
DISCRETE = ("dqn", "nature", "ddqn", "ddqn_per")
ONE_STEP = ("dqn", "nature", "ddqn", "ddqn_per", "ddpg", "td3", "td3_lap", "sac", "td7")

SubBatch = namedtuple("SubBatch", ["observation", "action", "reward", "next_observation", "terminated", "truncated"])


def f64(x):
    return np.asarray(x, dtype=np.float64)


def f32(x):
    """float32 numpy (handed to the jitted wrappers as is: no per-call device transfer through jnp.asarray)."""
    return np.asarray(x, dtype=np.float32)


def tojax(d):
    return {k: (jnp.asarray(v) if isinstance(v, (np.ndarray, np.generic)) else v) for k, v in d.items()}


# -- enumeration -----------------------------------------------------------------------------


def param_pairs(tier):
    if tier == "quick":
        return [[0, 0], [0, 1], [1, 0], [1, 1]]
    return [[0, 0], [0, 1], [1, 0], [1, 1], [2, 2], [2, 0]]


def items(tier, seed):
    out = []
    shapes = list(itertools.product([1, 2, 3], [1, 2], [1, 2]))
    for fam in ONE_STEP:
        for N, O, A in shapes:
            a = A + 1 if fam in DISCRETE else A  # number of discrete actions {2,3} / action dim {1,2}
            base = dict(fam=fam, N=N, O=O, A=a, tier=tier, seed=seed)
            if fam == "td7":
                # gamma and the Huber delta are static arguments of the jitted routine: one program each
                for gi, d in itertools.product(range(len(GAMMAS)), [1.0, 0.5]):
                    if tier == "quick" and d == 0.5 and (N + O + A + gi) % 2:
                        continue
                    out.append(dict(base, name=f"td7-N{N}-O{O}-A{a}-g{gi}-d{d}", gammas=[gi], delta=d, pairs=param_pairs(tier)))
            elif tier == "thorough" and N == 3:
                for pr in param_pairs(tier):
                    out.append(dict(base, name=f"{fam}-N{N}-O{O}-A{a}-p{pr[0]}{pr[1]}", pairs=[pr]))
            else:
                out.append(dict(base, name=f"{fam}-N{N}-O{O}-A{a}", pairs=param_pairs(tier)))
    for N, O, A in shapes:
        out.append(dict(fam="sale", N=N, O=O, A=A, tier=tier, seed=seed, name=f"sale-N{N}-O{O}-A{A}"))
    dims = [(2, 1), (1, 2)] if tier == "quick" else [(1, 1), (1, 2), (2, 1), (2, 2)]
    for (O, A), N, H in itertools.product(dims, [1, 2, 3], [1, 2, 3]):
        if N * H == 9:
            # 512 termination patterns: split by the flag row of the first sample to balance the workers
            for part in range(4):
                out.append(dict(fam="mrq", N=N, O=O, A=A, H=H, part=[part, 4], tier=tier, seed=seed, name=f"mrq-N{N}-H{H}-O{O}-A{A}-part{part}"))
                for norm in (True, False):
                    out.append(dict(fam="encoder", N=N, O=O, A=A, H=H, part=[part, 4], norm=norm, tier=tier, seed=seed, name=f"encoder-N{N}-H{H}-O{O}-A{A}-norm{int(norm)}-part{part}"))
        else:
            out.append(dict(fam="mrq", N=N, O=O, A=A, H=H, part=[0, 1], tier=tier, seed=seed, name=f"mrq-N{N}-H{H}-O{O}-A{A}"))
            for norm in (True, False):
                out.append(dict(fam="encoder", N=N, O=O, A=A, H=H, part=[0, 1], norm=norm, tier=tier, seed=seed, name=f"encoder-N{N}-H{H}-O{O}-A{A}-norm{int(norm)}"))
                if N * H <= (4 if tier == "quick" else 6) and N > 1:
                    # non-default encoder option (activation after the last state-encoder layer) crossed with both target options
                    out.append(dict(fam="encoder", N=N, O=O, A=A, H=H, part=[0, 1], norm=norm, act_last=True, tier=tier, seed=seed,
                                    name=f"encoder-N{N}-H{H}-O{O}-A{A}-norm{int(norm)}-actlast"))
    # largest batches first (they are the long items), families interleaved: a wall-clock cap on a busy machine
    # then costs the tail of every family instead of whole families
    fam_rank = {f: i for i, f in enumerate(["encoder", "mrq", "td7", "sac", "td3_lap", "ddqn_per", "ddqn", "nature", "dqn", "td3", "ddpg", "sale"])}
    out.sort(key=lambda it: (-it["N"] * it.get("H", 1), it["name"].split("-", 1)[1], fam_rank[it["fam"]]))
    return out


# -- value alphabets (built with fixed-seed generators; the seed only rotates values) ----------------


def gen(seed, *tag):
    return np.random.default_rng([int(seed) % 1000] + [int(t) for t in tag])


def grid(rng, shape, lo=-1.5, hi=1.5):
    """Values on a 1/16 grid (exact in float32), never all equal."""
    return (np.round(rng.uniform(lo, hi, size=shape) * 16) / 16).astype(np.float32)


def reward_alphabet(N, tier):
    if tier == "quick":
        return [np.asarray(r[:N], np.float32) for r in QUICK_REWARDS]
    return [np.asarray(r, np.float32) for r in itertools.product(REWARD_VALUES, repeat=N)]


def box(A):
    return gym.spaces.Box(np.asarray([-1.0, 0.0][:A], np.float32), np.asarray([2.0, 3.0][:A], np.float32))


def rescale(m, k):
    """Parameter set k: initialisation seed k, all Params rescaled by PSCALE[k]."""
    s = PSCALE[k % len(PSCALE)]
    if s != 1.0:
        st = nnx.state(m, nnx.Param)
        nnx.update(m, jax.tree_util.tree_map(lambda x: x * s, st))
    return m


def mlp(i, o, seed, k, act="tanh"):
    return rescale(MLP(i, o, [3], act, nnx.Rngs(seed)), k)


def dq(i, seed, k, act="tanh"):
    return ContinuousClippedDoubleQNet(mlp(i, 1, seed, k, act), mlp(i, 1, seed + 1, k, act))


ACT_LAST = [False]  # encoder_activation_in_last_layer of the encoders built next (set per work item)


def build(fam, O, A, seed, pi, pj):
    """Real modules. Online sets are indexed by pi, target sets by pj; they never share a seed."""
    so = 100 * seed + 7 * pi + 1
    st = 100 * seed + 7 * pj + 50
    if fam in DISCRETE:
        m = dict(q=mlp(O, A, so, pi))
        if fam != "dqn":
            m["qt"] = mlp(O, A, st, pj + 1)
        return m
    if fam == "ddpg":
        return dict(q=mlp(O + A, 1, so, pi), qt=mlp(O + A, 1, st, pj + 1), pt=DeterministicTanhPolicy(mlp(O, A, st + 3, pj), box(A)))
    if fam in ("td3", "td3_lap"):
        return dict(q=dq(O + A, so, pi), qt=dq(O + A, st, pj + 1))
    if fam == "sac":
        pol = GaussianTanhPolicy(GaussianMLP(False, O, A, [3], "tanh", nnx.Rngs(st + 3)), box(A))
        return dict(q=dq(O + A, so, pi), qt=dq(O + A, st, pj + 1), pol=pol)
    if fam == "td7":
        def emb(s, k):
            return SALE(mlp(O, Z, s, k, "elu"), mlp(Z + A, Z, s + 1, k, "elu"))

        def critic(s, k):
            return ContinuousClippedDoubleQNet(
                CriticSALE(mlp(3 + 2 * Z, 1, s, k, "elu"), O, A, 3, nnx.Rngs(s + 2)),
                CriticSALE(mlp(3 + 2 * Z, 1, s + 1, k, "elu"), O, A, 3, nnx.Rngs(s + 3)),
            )

        return dict(emb=emb(so + 20, pi), embt=emb(st + 20, pj + 1), q=critic(so, pi), qt=critic(st, pj + 1))
    if fam in ("mrq", "encoder"):
        def enc(s, k):
            return rescale(ModelBasedEncoder(O, A, NB, Z, 2, Z, [3], "elu", ACT_LAST[0], nnx.Rngs(s)), k)

        m = dict(enc=enc(so + 20, pi), enct=enc(st + 20, pj + 1))
        if fam == "mrq":
            def lq(s, k):
                return ContinuousClippedDoubleQNet(
                    rescale(LayerNormMLP(Z, 1, [3], "elu", rngs=nnx.Rngs(s)), k),
                    rescale(LayerNormMLP(Z, 1, [3], "elu", rngs=nnx.Rngs(s + 1)), k),
                )

            m.update(q=lq(so, pi), qt=lq(st, pj + 1))
        return m
    if fam == "sale":
        return dict(emb=SALE(mlp(O, Z, so, pi, "elu"), mlp(Z + A, Z, so + 1, pi, "elu")))
    raise ValueError(fam)


# -- real calls (the only place that touches the losses under test) -----------------------------


def batch5(a, n):
    return (a["obs"], n["act"] if "act" in n else a["act"], a["rew"], a["nobs"], n["term"])


def call(fam, m, a, s, n):
    """m modules, a float arrays, s float scalars, n non-differentiable (int arrays, keys). -> dict"""
    g = s.get("gamma")
    if fam == "dqn":
        l, qm = L.dqn_loss(m["q"], batch5(a, n), g)
        return dict(loss=l, q_mean=qm)
    if fam == "nature":
        l, qm = L.nature_dqn_loss(m["q"], m["qt"], batch5(a, n), g)
        return dict(loss=l, q_mean=qm)
    if fam == "ddqn":
        l, qm = L.ddqn_loss(m["q"], m["qt"], batch5(a, n), g)
        return dict(loss=l, q_mean=qm)
    if fam == "ddqn_per":
        if "w" in a:
            l, (qm, td) = L.ddqn_per_loss(m["q"], m["qt"], batch5(a, n), g, a["w"])
        else:
            l, (qm, td) = L.ddqn_per_loss(m["q"], m["qt"], batch5(a, n), g)
        return dict(loss=l, q_mean=qm, td_mean=td)
    if fam == "ddpg":
        l, qm = L.ddpg_loss(m["q"], m["qt"], m["pt"], batch5(a, n), g)
        return dict(loss=l, q_mean=qm)
    if fam == "td3":
        l, qm = L.td3_loss(m["q"], m["qt"], a["nact"], batch5(a, n), g)
        return dict(loss=l, q_mean=qm)
    if fam == "td3_lap":
        l, (qm, td) = L.td3_lap_loss(m["q"], m["qt"], a["nact"], batch5(a, n), g, s["delta"])
        return dict(loss=l, q_mean=qm, td=td)
    if fam == "sac":
        l, qm = L.sac_loss(m["q"], m["qt"], m["pol"], n["key"], s["alpha"], batch5(a, n), g)
        return dict(loss=l, q_mean=qm)
    if fam == "mrq":
        b = (a["obs"], a["act"], a["rew"], a["nobs"], n["term"], n["trunc"] if "trunc" in n else jnp.zeros_like(n["term"]))
        l, (zs, qm, td) = mrq_loss(m["q"], m["qt"], m["enc"], m["enct"], a["nact"], b, g, s["rs"], s["trs"])
        return dict(loss=l, q_mean=qm, td=td, zs=zs)
    if fam == "sale":
        return dict(loss=state_action_embedding_loss(m["emb"], a["obs"], a["act"], a["nobs"]))
    raise ValueError(fam)


def forward(fam, m, a, n):
    """Forward passes of the real networks that the documented formulas refer to."""
    if fam in DISCRETE:
        out = dict(q_obs=m["q"](a["obs"]), qo_next=m["q"](a["nobs"]))
        if "qt" in m:
            out["qt_next"] = m["qt"](a["nobs"])
        return out
    x0 = jnp.concatenate((a["obs"], a["act"]), -1)
    if fam == "ddpg":
        na = m["pt"](a["nobs"])
        x1 = jnp.concatenate((a["nobs"], na), -1)
        return dict(q_sa=m["q"](x0), qt_next=m["qt"](x1), qo_next=m["q"](x1))
    if fam in ("td3", "td3_lap", "sac"):
        out = {}
        if fam == "sac":
            na = m["pol"].sample(a["nobs"], n["key"])
            out["logp"] = m["pol"].log_probability(a["nobs"], na)
        else:
            na = a["nact"]
        x1 = jnp.concatenate((a["nobs"], na), -1)
        out.update(q1_sa=m["q"].q1(x0), q2_sa=m["q"].q2(x0), q1t_next=m["qt"].q1(x1), q2t_next=m["qt"].q2(x1), q1o_next=m["q"].q1(x1), q2o_next=m["q"].q2(x1))
        return out
    if fam == "td7":
        zsa, zs = m["emb"](a["obs"], a["act"])
        nzsa, nzs = m["embt"](a["nobs"], a["nact"])
        x1 = jnp.concatenate((a["nobs"], a["nact"]), -1)
        return dict(
            q1_sa=m["q"].q1(x0, zsa=zsa, zs=zs), q2_sa=m["q"].q2(x0, zsa=zsa, zs=zs),
            q1t_next=m["qt"].q1(x1, zsa=nzsa, zs=nzs), q2t_next=m["qt"].q2(x1, zsa=nzsa, zs=nzs),
            q1o_next=m["q"].q1(x1, zsa=nzsa, zs=nzs), q2o_next=m["q"].q2(x1, zsa=nzsa, zs=nzs),
        )
    if fam == "mrq":
        zs = m["enc"].encode_zs(a["obs"])
        z = m["enc"].encode_zsa(zs, a["act"])
        nz = m["enct"].encode_zsa(m["enct"].encode_zs(a["nobs"]), a["nact"])
        nzo = m["enc"].encode_zsa(m["enc"].encode_zs(a["nobs"]), a["nact"])
        return dict(zs=zs, q1_sa=m["q"].q1(z), q2_sa=m["q"].q2(z), q1t_next=m["qt"].q1(nz), q2t_next=m["qt"].q2(nz), q1o_next=m["q"].q1(nzo), q2o_next=m["q"].q2(nzo))
    if fam == "sale":
        zsa, _ = m["emb"](a["obs"], a["act"])
        return dict(zsa=zsa, zs_next=m["emb"].state_embedding(a["nobs"]))
    raise ValueError(fam)


class Real:
    """jit-compiled pure wrappers around the real loss for one architecture (one work item)."""

    def __init__(self, fam, mods):
        self.fam = fam
        self.names = sorted(mods)
        self.gdefs = {k: nnx.split(mods[k])[0] for k in self.names}

        def pure(states, a, s, n):
            m = {k: nnx.merge(self.gdefs[k], states[k]) for k in self.names}
            return call(fam, m, a, s, n)

        def fwd(states, a, n):
            m = {k: nnx.merge(self.gdefs[k], states[k]) for k in self.names}
            return forward(fam, m, a, n)

        # ONE program returns the loss outputs and the forward passes its reference is computed from, so the
        # reference consumes the values the loss consumed (identical sub-computations of one XLA program), and
        # every differential comparison (IEEE ==) is between two runs of this same program
        self.both = jax.jit(lambda st, a, s, n: (pure(st, a, s, n), fwd(st, a, n)))
        self.grad = jax.jit(jax.grad(lambda st, a, s, n: pure(st, a, s, n)["loss"], argnums=(0, 1, 2)))

    def value(self, states, a, s, n):
        return self.both(states, a, s, n)[0]

    def fwd(self, states, a, s, n):
        return self.both(states, a, s, n)[1]

    @staticmethod
    def states(mods):
        return {k: nnx.split(mods[k])[1] for k in sorted(mods)}


# -- float64 references written to the documentation ---------------------------------------------


def rho(e, kind, delta):
    if kind == "mse":
        return e**2
    a = np.abs(e)
    return np.where(a <= delta, 0.5 * a**2, delta * (a - 0.5 * delta))


def td_reference(fam, fw, rew, term, gamma, ex):
    """Documented regression onto y = r + (1 - t) * gamma * bootstrap. Returns the reference outputs and the
    values the loss would take under typical deviations (vacuity counters)."""
    rew, term = f64(rew), f64(term)
    N = rew.shape[0]
    idx = np.arange(N)
    alts = {}
    if fam in DISCRETE:
        qa = [f64(fw["q_obs"])[idx, np.asarray(ex["act"])]]
        qo, qt = f64(fw["qo_next"]), f64(fw.get("qt_next", fw["qo_next"]))
        if fam == "dqn":
            boot = qo.max(1)
        elif fam == "nature":
            boot = qt.max(1)
            alts["bootstrap_from_online_net"] = qo.max(1)
        else:
            boot = qt[idx, np.argmax(qo, 1)]  # online net selects, target net evaluates
            alts["argmax_from_target_net"] = qt.max(1)
            alts["bootstrap_from_online_net"] = qo.max(1)
        double = False
    else:
        if fam == "ddpg":
            qa = [f64(fw["q_sa"]).reshape(-1)]
            boot = f64(fw["qt_next"]).reshape(-1)
            alts["bootstrap_from_online_net"] = f64(fw["qo_next"]).reshape(-1)
            double = False
        else:
            qa = [f64(fw["q1_sa"]).reshape(-1), f64(fw["q2_sa"]).reshape(-1)]
            q1t, q2t = f64(fw["q1t_next"]).reshape(-1), f64(fw["q2t_next"]).reshape(-1)
            boot = np.minimum(q1t, q2t)
            online = np.minimum(f64(fw["q1o_next"]).reshape(-1), f64(fw["q2o_next"]).reshape(-1))
            alts["first_head_only"] = q1t
            if fam == "sac":
                ent = ex["alpha"] * f64(fw["logp"]).reshape(-1)
                alts["no_entropy_term"] = boot
                alts["first_head_only"] = q1t - ent
                boot = boot - ent
                online = online - ent
            if fam == "td7":
                alts["no_value_clipping"] = boot
                alts["first_head_only"] = np.clip(q1t, ex["qmin"], ex["qmax"])
                boot = np.clip(boot, ex["qmin"], ex["qmax"])
                online = np.clip(online, ex["qmin"], ex["qmax"])
            alts["bootstrap_from_online_net"] = online
            double = True
    kind = "huber" if fam in ("td3_lap", "td7") else "mse"
    delta = ex.get("delta", 1.0)
    w = f64(ex["w"]) if ex.get("w") is not None else 1.0

    def loss_of(b, mask=True):
        y = rew + ((1.0 - term) if mask else 1.0) * gamma * b
        return sum(float(np.mean(w * rho(q - y, kind, delta))) for q in qa), y

    loss, y = loss_of(boot)
    ref = dict(loss=loss, y=y)
    ref["q_mean"] = float(np.mean(np.minimum(qa[0], qa[1]))) if double else float(np.mean(qa[0]))
    ad = np.max(np.abs(np.stack(qa) - y[None]), axis=0)
    ref["td"] = ad
    ref["td_mean"] = float(np.mean(ad))
    dev = {k: loss_of(b)[0] for k, b in alts.items()}
    dev["no_termination_mask"] = loss_of(boot, mask=False)[0]
    dev["no_bootstrap"] = loss_of(np.zeros(N))[0]
    # (N,1)-vs-(N,) broadcast: every prediction regressed onto every target
    dev["NxN_broadcast"] = sum(float(np.mean(rho(q[:, None] - y[None, :], kind, delta))) for q in qa)
    return ref, dev


# -- comparison helpers --------------------------------------------------------------------------


def same(a, b):
    """IEEE == on every output (non-interference is exact, DESIGN 2.5)."""
    return all(num.ieee_equal(np.asarray(a[k]), np.asarray(b[k])) for k in a)


def near(a, b, rtol):
    return all(num.close(np.asarray(a[k]), f64(b[k]), rtol) for k in a)


def tonp(out):
    return {k: np.asarray(v) for k, v in out.items()}


def leaves_zero(tree):
    return all(bool(np.all(np.asarray(x) == 0)) for x in jax.tree_util.tree_leaves(tree))


def leaves_absmax(tree):
    ls = [float(np.max(np.abs(np.asarray(x)))) for x in jax.tree_util.tree_leaves(tree) if np.asarray(x).size]
    return max(ls) if ls else 0.0


AUX_KIND = {"q_mean": K_QMEAN, "td": K_TD, "td_mean": K_TD, "y": K_Y, "zs": K_ZS}


def dup(x):
    return np.concatenate([x, x], 0)


def compare_value(col, fam, out, ref, N, detail, key, dup_ok=None):
    """Loss and auxiliary outputs against the reference. One evaluation.

    A wrong value at N=1 is charged to the N=1 rule only when the same row fed twice (N=2) gives the
    documented value (`dup_ok()`); otherwise it is the general value defect, already seen at N>=2."""
    entry = ENTRY[fam]
    col.tick(1, key)
    ok = True
    if not num.close(out["loss"], ref["loss"]):
        kind = K_LOSS
        if N == 1 and dup_ok is not None:
            try:
                kind = K_N1 if dup_ok() else K_LOSS
            except LOUD:
                kind = K_LOSS
        col.violation(SIG.format(entry, kind), dict(detail, got=float(out["loss"]), expected=ref["loss"]))
        ok = False
    for k in out:
        if k == "loss" or k not in ref:
            continue
        if not num.close(out[k], ref[k]):
            col.violation(SIG.format(entry, AUX_KIND[k]), dict(detail, output=k, got=out[k], expected=ref[k]))
            ok = False
    return ok


# -- one-step TD losses ---------------------------------------------------------------------------


def extras(fam, item):
    """Extra hyper-parameter alphabet of a family (each a dict)."""
    tier = item["tier"]
    if fam == "td3_lap":
        return [dict(delta=1.0), dict(delta=0.5)]
    if fam == "sac":
        al = [dict(alpha=0.0, ashape="vec1"), dict(alpha=0.2, ashape="vec1")]
        if tier == "thorough":
            al += [dict(alpha=0.2, ashape="scalar")]
        return al
    if fam == "ddqn_per":
        return [dict(wmode="default"), dict(wmode="vector")]
    if fam == "td7":
        # the last two ranges are degenerate (min == max): train_td7 itself starts with the range [0, 0]
        return [dict(qmin=-1e6, qmax=1e6, delta=item["delta"]), dict(qmin=-0.05, qmax=0.05, delta=item["delta"]), dict(qmin=0.1, qmax=0.3, delta=item["delta"]),
                dict(qmin=0.0, qmax=0.0, delta=item["delta"]), dict(qmin=-0.25, qmax=-0.25, delta=item["delta"])]
    return [dict()]


def td7_call(upd, a, n, gamma, ex):
    """upd = nnx.cached_partial(td7_update_critic, fixed_embedding, fixed_embedding_target, critic, critic_target, optimizer)"""
    l, td, y = upd(gamma, a["obs"], a["act"], a["nobs"], a["nact"], a["rew"], n["term"], ex["delta"], ex["qmin"], ex["qmax"])
    return dict(loss=l, td=td, y=y)


def run_one_step(item, col):
    fam, N, O, A, tier, seed = item["fam"], item["N"], item["O"], item["A"], item["tier"], item["seed"]
    entry = ENTRY[fam]
    disc = fam in DISCRETE
    rng = gen(seed, N, O, A, 1)
    obs, nobs = grid(rng, (N, O)), grid(rng, (N, O))
    nalt = 2 if tier == "quick" else 3
    alt_nobs = [grid(rng, (N, O)) for _ in range(nalt)]
    if disc:
        acts = [np.asarray(t, np.int32) for t in itertools.product(range(A), repeat=N)]
        if tier == "quick":
            acts = acts[1 :: max(1, len(acts) // 3)][:3]  # 2-3 distinct action vectors
        nacts = [None]
    else:
        acts = [grid(rng, (N, A)) for _ in range(2 if tier == "quick" else 3)]
        nacts = [grid(rng, (N, A), -1.0, 2.0)]
        alt_nact = [grid(rng, (N, A), -1.0, 2.0) for _ in range(nalt)]
    rewards = reward_alphabet(N, tier)
    terms = [np.asarray(t, np.int32) for t in itertools.product([0, 1], repeat=N)]
    gammas = [GAMMAS[i] for i in item.get("gammas", range(len(GAMMAS)))]
    wvec = np.asarray([0.5, 2.0, 1.25][:N], np.float32)
    key = jax.random.key(7 + seed)
    perms = list(itertools.permutations(range(N)))
    col.outcome("work_items:" + fam)

    real = None
    eager_left = 3
    for pi, pj in item["pairs"]:
        mods = build(fam, O, A, seed, pi, pj)
        if fam == "td7":
            opt = nnx.Optimizer(mods["q"], optax.sgd(0.0), wrt=nnx.Param)  # zero step: the critic stays as built
            upd = nnx.cached_partial(td7_update_critic, mods["emb"], mods["embt"], mods["q"], mods["qt"], opt)
            fwd_j = nnx.jit(lambda m, a, n: forward(fam, m, a, n))
        else:
            if real is None:
                real = Real(fam, mods)
            states = Real.states(mods)

        for ai, act in enumerate(acts):
            for ex in extras(fam, item):
                a = dict(obs=f32(obs), nobs=f32(nobs))
                n = {}
                if disc:
                    n["act"] = act
                else:
                    a["act"] = f32(act)
                    if fam not in ("ddpg", "sac"):
                        a["nact"] = f32(nacts[0])
                if fam == "sac":
                    n["key"] = key
                if fam == "ddqn_per" and ex["wmode"] == "vector":
                    a["w"] = f32(wvec)

                def scal(gamma):
                    s = dict(gamma=np.float32(gamma))
                    if fam == "td3_lap":
                        s["delta"] = np.float32(ex["delta"])
                    if fam == "sac":
                        s["alpha"] = np.asarray([ex["alpha"]], np.float32) if ex["ashape"] == "vec1" else np.float32(ex["alpha"])
                    return s

                def evaluate(a_, n_, gamma):
                    if fam == "td7":
                        return tonp(td7_call(upd, a_, n_, gamma, ex))
                    return tonp(real.value(states, a_, scal(gamma), n_))

                def fw_of(a_, n_, gamma_):
                    if fam == "td7":
                        return tonp(fwd_j(mods, a_, n_))
                    return tonp(real.fwd(states, a_, scal(gamma_), n_))

                def refex(act_=act, w_=wvec):
                    r = dict(ex)
                    if disc:
                        r["act"] = act_
                    if fam == "ddqn_per":
                        r["w"] = w_ if ex["wmode"] == "vector" else None
                    return r

                def dup_ok(a_, n_, rew_, term_, gamma_):
                    a2 = {kk: dup(v) for kk, v in a_.items()}
                    n2 = {kk: (dup(v) if kk in ("act", "term") else v) for kk, v in n_.items()}
                    o2 = evaluate(a2, n2, gamma_)
                    r2, _ = td_reference(fam, fw_of(a2, n2, gamma_), dup(rew_), dup(term_), gamma_, refex(dup(act) if disc else act, dup(wvec)))
                    return num.close(o2["loss"], r2["loss"])

                fw = None
                for ti, term in enumerate(terms):
                    n["term"] = term
                    for ri, rew in enumerate(rewards):
                        a["rew"] = f32(rew)
                        for gamma in gammas:
                            detail = dict(entry=entry, N=N, obs_dim=O, act=A, params=[pi, pj], action_index=ai, terminated=term, reward=rew, gamma=gamma, extra=ex)
                            try:
                                out = evaluate(a, n, gamma)
                            except LOUD as e:
                                col.tick(1)
                                if N == 1:
                                    col.outcome(f"n1_rejected_loudly:{fam}:{type(e).__name__}")
                                    col.sample(dict(detail, rejected=f"{type(e).__name__}: {str(e)[:200]}"))
                                    return
                                col.violation(SIG.format(entry, K_RAISE), dict(detail, error=f"{type(e).__name__}: {str(e)[:300]}"))
                                return
                            if fw is None:
                                fw = fw_of(a, n, gamma)
                            if fam in ("ddqn", "ddqn_per") and near_tie(fw["qo_next"]):
                                col.outcome("argmax_near_tie_skipped")
                                continue
                            ref, dev = td_reference(fam, fw, rew, term, gamma, refex())
                            nontrivial = abs(dev["no_termination_mask"] - ref["loss"]) > 1e-3 or abs(dev["no_bootstrap"] - ref["loss"]) > 1e-3
                            k = (fam, N, O, A, pi, pj, ai, ti, ri, gamma, sorted(ex.items())) if nontrivial else None
                            ok = compare_value(col, fam, out, ref, N, detail, k, lambda: dup_ok(a, n, rew, term, gamma))
                            if N == 1 and ok:
                                col.outcome(f"n1_same_per_sample_value:{fam}")
                            for dk, dv in dev.items():
                                if abs(dv - ref["loss"]) > 1e-3:
                                    col.outcome(f"{fam}:value_would_change_if:{dk}")
                            if term.all():
                                col.outcome(f"{fam}:all_terminated_cases")
                            if not term.any():
                                col.outcome(f"{fam}:none_terminated_cases")
                            if col.evaluations % 997 == 0 or not col.samples:
                                col.sample(dict(detail, loss=float(out["loss"]), reference=ref["loss"], y=ref["y"]))

                            # jit vs eager (the un-jitted public function with the real module objects)
                            if eager_left > 0 and fam != "td7" and (ti + ri) % 3 == 1:
                                eager_left -= 1
                                eo = tonp(call(fam, mods, tojax(a), tojax(scal(gamma)), tojax(n)))
                                col.tick(1)
                                if not near(eo, out, MODE_RTOL):
                                    col.violation(SIG.format(entry, K_MODE), dict(detail, eager=eo, jit=out))

                            if ri != 0 or ai != 0:
                                continue
                            # ---- derived checks on the (term x gamma x params x extras) sub-product ----
                            # (i) successor of a terminated row replaced by every other alphabet value
                            for i in np.flatnonzero(term):
                                for kalt in range(nalt):
                                    for both in ([False] if (disc or fam in ("ddpg", "sac")) else [False, True]):
                                        a2 = dict(a)
                                        nb = nobs.copy()
                                        nb[i] = alt_nobs[kalt][i]
                                        a2["nobs"] = f32(nb)
                                        if both:
                                            na = nacts[0].copy()
                                            na[i] = alt_nact[kalt][i]
                                            a2["nact"] = f32(na)
                                        o2 = evaluate(a2, n, gamma)
                                        col.tick(1)
                                        col.outcome(f"{fam}:successor_replacements")
                                        if not same(out, o2):
                                            col.violation(SIG.format(entry, K_SUCC), dict(detail, row=int(i), alt=kalt, with_next_action=both, base=out, replaced=o2))
                            # the replacement does change the loss when the row is NOT terminated (vacuity of (i))
                            if gamma > 0 and not term.all():
                                i = int(np.flatnonzero(term == 0)[0])
                                a2 = dict(a)
                                nb = nobs.copy()
                                nb[i] = alt_nobs[0][i]
                                a2["nobs"] = f32(nb)
                                if not same(out, evaluate(a2, n, gamma)):
                                    col.outcome(f"{fam}:live_row_successor_replacement_changes_loss")
                            # (ii) batch permutations (SAC: against the reference of the permuted batch, so only
                            # where the unpermuted batch agreed with its reference)
                            for p in perms[1:] if (fam != "sac" or ok) else []:
                                p = list(p)
                                a2 = {kk: (v[p] if kk in ("obs", "nobs", "act", "nact", "rew", "w") else v) for kk, v in a.items()}
                                n2 = {kk: (v[p] if kk in ("act", "term") else v) for kk, v in n.items()}
                                o2 = evaluate(a2, n2, gamma)
                                col.tick(1)
                                col.outcome(f"{fam}:permutations")
                                if fam == "sac":
                                    r2, _ = td_reference(fam, fw_of(a2, n2, gamma), rew[p], term[p], gamma, refex())
                                    good = all(num.close(o2[kk], r2[kk]) for kk in o2)
                                else:
                                    good = all(
                                        num.close(o2[kk], f64(out[kk])[p] if np.ndim(out[kk]) >= 1 and np.shape(out[kk])[0] == N and kk in ("td", "y") else f64(out[kk]), 1e-6)
                                        for kk in o2
                                    )
                                if not good:
                                    col.violation(SIG.format(entry, K_PERM), dict(detail, permutation=p, base=out, permuted=o2))
                            # (iii) gradients
                            if fam != "td7":
                                gs, ga, gsc = real.grad(states, a, scal(gamma), n)
                                col.tick(1)
                                for tn in ("qt", "pt", "pol"):
                                    if tn in gs and not leaves_zero(gs[tn]):
                                        col.violation(SIG.format(entry, K_GT), dict(detail, module=tn, max_abs_grad=leaves_absmax(gs[tn])))
                                boots = ["nobs", "nact"] + (["alpha"] if fam == "sac" else [])
                                for bn in boots:
                                    gb = ga.get(bn) if bn in ga else gsc.get(bn)
                                    if gb is not None and not leaves_zero(gb):
                                        col.violation(SIG.format(entry, K_GB), dict(detail, input=bn, grad=np.asarray(gb)))
                                if leaves_absmax(gs["q"]) > 0:
                                    col.outcome(f"{fam}:grad_checks_with_nonzero_online_gradient")
                                col.outcome(f"{fam}:grad_checks")


def near_tie(q):
    q = np.sort(f64(q), axis=1)
    gap = q[:, -1] - q[:, -2]
    return bool(np.any((gap > 0) & (gap < 1e-5)))


# -- SALE embedding loss -----------------------------------------------------------------------------


def run_sale(item, col):
    fam, N, O, A, tier, seed = "sale", item["N"], item["O"], item["A"], item["tier"], item["seed"]
    entry = ENTRY[fam]
    rng = gen(seed, N, O, A, 2)
    nv = 4 if tier == "quick" else 6
    obss = [grid(rng, (N, O)) for _ in range(nv)]
    acts = [grid(rng, (N, A)) for _ in range(nv)]
    nobss = [grid(rng, (N, O)) for _ in range(nv)]
    perms = list(itertools.permutations(range(N)))
    real = None
    col.outcome("work_items:sale")
    for pi in range(2 if tier == "quick" else 3):
        mods = build(fam, O, A, seed, pi, 0)
        real = real or Real(fam, mods)
        states = Real.states(mods)
        for (oi, obs), (ai, act), (ni, nobs) in itertools.product(enumerate(obss), enumerate(acts), enumerate(nobss)):
            a = dict(obs=f32(obs), act=f32(act), nobs=f32(nobs))
            detail = dict(entry=entry, N=N, obs_dim=O, act_dim=A, params=pi, obs=obs, action=act, next_obs=nobs)
            try:
                out = tonp(real.value(states, a, {}, {}))
            except LOUD as e:
                col.tick(1)
                if N == 1:
                    col.outcome(f"n1_rejected_loudly:sale:{type(e).__name__}")
                    col.sample(dict(detail, rejected=f"{type(e).__name__}: {str(e)[:200]}"))
                    return
                col.violation(SIG.format(entry, K_RAISE), dict(detail, error=f"{type(e).__name__}: {str(e)[:300]}"))
                return
            fw = tonp(real.fwd(states, a, {}, {}))
            # documented: L = mean over samples and features of (z^{sa} - sg(z^{s'}))^2
            ref = dict(loss=float(np.mean((f64(fw["zsa"]) - f64(fw["zs_next"])) ** 2)))
            def dup_ok():
                a2 = {kk: dup(v) for kk, v in a.items()}
                f2 = tonp(real.fwd(states, a2, {}, {}))
                return num.close(real.value(states, a2, {}, {})["loss"], float(np.mean((f64(f2["zsa"]) - f64(f2["zs_next"])) ** 2)))

            ok = compare_value(col, fam, out, ref, N, detail, (fam, N, O, A, pi, oi, ai, ni), dup_ok)
            if N == 1 and ok:
                col.outcome("n1_same_per_sample_value:sale")
            if N > 1:
                # per-sample: pairing z^{sa}_i with z^{s'}_j, j != i, would give another value
                rolled = float(np.mean((f64(fw["zsa"]) - np.roll(f64(fw["zs_next"]), 1, axis=0)) ** 2))
                if abs(rolled - ref["loss"]) > 1e-3:
                    col.outcome("sale:value_would_change_if:rows_mispaired")
            if oi == 0 and ai == 0 and ni == 0 and pi == 0:
                col.sample(dict(detail, loss=float(out["loss"]), reference=ref["loss"]))
                eo = tonp(call(fam, mods, tojax(a), {}, {}))
                col.tick(1)
                if not near(eo, out, MODE_RTOL):
                    col.violation(SIG.format(entry, K_MODE), dict(detail, eager=eo, jit=out))
            if oi == 0:
                for p in perms[1:]:
                    p = list(p)
                    o2 = tonp(real.value(states, {k: v[p] for k, v in a.items()}, {}, {}))
                    col.tick(1)
                    col.outcome("sale:permutations")
                    if not near(o2, out, 1e-6):
                        col.violation(SIG.format(entry, K_PERM), dict(detail, permutation=p, base=out, permuted=o2))
                gs, ga, _ = real.grad(states, a, {}, {})
                col.tick(1)
                col.outcome("sale:grad_checks")
                if not leaves_zero(ga["nobs"]):
                    col.violation(SIG.format(entry, K_GB), dict(detail, input="next_observation", grad=np.asarray(ga["nobs"])))
                if leaves_absmax(gs["emb"]) > 0 and leaves_absmax(ga["obs"]) > 0:
                    col.outcome("sale:grad_checks_with_nonzero_online_gradient")


# -- horizon data shared by MR.Q and the encoder loss -----------------------------------------------


def first_term(term):
    """Index of the first set flag per row (H if none)."""
    N, H = term.shape
    return tuple(int(np.argmax(term[i])) if term[i].any() else H for i in range(N))


def patterns(N, H, part):
    """All 2^(N*H) flag matrices (split by the index modulo part[1] for the 3x3 case)."""
    allp = [np.asarray(t, np.int32).reshape(N, H) for t in itertools.product([0, 1], repeat=N * H)]
    # keep groups (equal first-termination vector) together so that the canonical member is in the same part
    groups = {}
    for t in allp:
        groups.setdefault(first_term(t), []).append(t)
    keys = sorted(groups)
    return [groups[k] for i, k in enumerate(keys) if i % part[1] == part[0]]


def run_mrq(item, col):
    fam, N, O, A, H, tier, seed = "mrq", item["N"], item["O"], item["A"], item["H"], item["tier"], item["seed"]
    entry = ENTRY[fam]
    rng = gen(seed, N, O, A, H, 3)
    obs, act, nobs, nact = grid(rng, (N, O)), grid(rng, (N, A)), grid(rng, (N, O)), grid(rng, (N, A), -1.0, 2.0)
    nalt = 2 if tier == "quick" else 3
    alt_nobs = [grid(rng, (N, O)) for _ in range(nalt)]
    alt_nact = [grid(rng, (N, A), -1.0, 2.0) for _ in range(nalt)]
    nrew = 2 if tier == "quick" else 4
    rewards = [rng.choice(np.asarray(REWARD_VALUES + [0.5], np.float32), size=(N, H)).astype(np.float32) for _ in range(nrew)]
    alt_rew = rng.choice(np.asarray([3.0, -2.0], np.float32), size=(N, H)).astype(np.float32)
    scales = [(1.0, 1.0), (2.0, 0.5)]
    groups = patterns(N, H, item["part"])
    perms = list(itertools.permutations(range(N)))
    pairs = [[0, 0], [1, 1], [2, 0]] if tier == "thorough" else [[0, 0], [1, 1]]
    col.outcome("work_items:mrq")
    real = None
    eager_left = 2
    for pi, pj in pairs:
        mods = build(fam, O, A, seed, pi, pj)
        real = real or Real(fam, mods)
        states = Real.states(mods)
        a = dict(obs=f32(obs), act=f32(act), nobs=f32(nobs), nact=f32(nact))
        fw = None
        for ri, rew in enumerate(rewards):
            a["rew"] = f32(rew)
            for gamma, (rs, trs) in itertools.product(GAMMAS, scales):
                s = dict(gamma=np.float32(gamma), rs=np.float32(rs), trs=np.float32(trs))
                for grp in groups:
                    canon_out = None
                    for term in grp:
                        n = dict(term=term)
                        detail = dict(entry=entry, N=N, H=H, obs_dim=O, act_dim=A, params=[pi, pj], terminated=term, reward=rew, gamma=gamma, reward_scale=rs, target_reward_scale=trs)
                        try:
                            out = tonp(real.value(states, a, s, n))
                        except LOUD as e:
                            col.tick(1)
                            if N == 1:
                                col.outcome(f"n1_rejected_loudly:mrq:{type(e).__name__}")
                                return
                            col.violation(SIG.format(entry, K_RAISE), dict(detail, error=f"{type(e).__name__}: {str(e)[:300]}"))
                            return
                        if fw is None:
                            fw = tonp(real.fwd(states, a, s, n))
                        # documented: n-step return truncated at the first termination flag, bootstrap
                        # min(Q1',Q2') scaled by target_reward_scale, all divided by reward_scale; Huber(1)
                        ret, disc = np.zeros(N), np.ones(N)
                        ft = first_term(term)
                        for i in range(N):
                            for h in range(min(ft[i] + 1, H)):
                                ret[i] += gamma**h * float(rew[i, h])
                            disc[i] = gamma**H if ft[i] == H else 0.0
                        q1, q2 = f64(fw["q1_sa"]).reshape(-1), f64(fw["q2_sa"]).reshape(-1)
                        boot = np.minimum(f64(fw["q1t_next"]), f64(fw["q2t_next"])).reshape(-1)

                        def lossy(d, b, ret_=ret):
                            y = (ret_ + d * b * trs) / rs
                            return float(np.mean(rho(q1 - y, "huber", 1.0)) + np.mean(rho(q2 - y, "huber", 1.0))), y

                        loss, y = lossy(disc, boot)
                        ref = dict(loss=loss, q_mean=float(np.mean(np.minimum(q1, q2))), td=np.maximum(np.abs(q1 - y), np.abs(q2 - y)), zs=f64(fw["zs"]))
                        full_ret = np.asarray([sum(gamma**h * float(rew[i, h]) for h in range(H)) for i in range(N)])
                        dev = dict(
                            no_termination_mask=lossy(np.full(N, gamma**H), boot, full_ret)[0],
                            no_bootstrap=lossy(np.zeros(N), boot)[0],
                            bootstrap_from_online_net=lossy(disc, np.minimum(f64(fw["q1o_next"]), f64(fw["q2o_next"])).reshape(-1))[0],
                            first_head_only=lossy(disc, f64(fw["q1t_next"]).reshape(-1))[0],
                            one_step_discount=lossy(np.where(disc > 0, gamma, 0.0), boot)[0],
                        )
                        nontrivial = abs(dev["no_termination_mask"] - loss) > 1e-3 or abs(dev["no_bootstrap"] - loss) > 1e-3
                        k = (fam, N, H, O, A, pi, pj, ri, gamma, rs, term.tobytes()) if nontrivial else None
                        def dup_ok():
                            o2 = real.value(states, {kk: dup(v) for kk, v in a.items()}, s, dict(term=dup(term)))
                            return num.close(o2["loss"], loss)  # two identical rows: same mean as the single row

                        ok = compare_value(col, fam, out, ref, N, detail, k, dup_ok)
                        if N == 1 and ok:
                            col.outcome("n1_same_per_sample_value:mrq")
                        for dk, dv in dev.items():
                            if abs(dv - loss) > 1e-3:
                                col.outcome(f"mrq:value_would_change_if:{dk}")
                        if col.evaluations % 1499 == 0 or not col.samples:
                            col.sample(dict(detail, loss=float(out["loss"]), reference=loss, y=y))
                        if eager_left > 0 and term.any() and not term.all():
                            eager_left -= 1
                            eo = tonp(call(fam, mods, tojax(a), tojax(s), tojax(n)))
                            col.tick(1)
                            if not near(eo, out, MODE_RTOL):
                                col.violation(SIG.format(entry, K_MODE), dict(detail, eager=eo, jit=out))
                        # the truncation flags of the batch are not part of the documented target (a truncated step still
                        # bootstraps): the same batch with truncation flags set gives the same output
                        if ri == 0 and term is grp[0]:
                            tr = np.ones_like(term) - term if term.any() else np.ones_like(term)
                            out_tr = tonp(real.value(states, a, s, dict(term=term, trunc=tr)))
                            col.tick(1, (fam, N, H, O, A, pi, pj, gamma, rs, term.tobytes(), "trunc"))
                            col.outcome("mrq:truncation_flag_variants")
                            if not same(out_tr, out):
                                col.violation(SIG.format(entry, K_POST), dict(detail, what="truncation flags (not part of the documented target)", truncated=tr, base=out, got=out_tr))
                        # flags after the first termination of a row are irrelevant: same output as the canonical member
                        if canon_out is None:
                            canon_out, canon_term = out, term
                        else:
                            col.tick(1)
                            col.outcome("mrq:post_terminal_flag_variants")
                            if not same(out, canon_out):
                                col.violation(SIG.format(entry, K_POST), dict(detail, what="flags after the first termination", canonical_terminated=canon_term, base=canon_out, got=out))
                        if ri != 0 or term is not grp[0]:
                            continue
                        # successor replacement for rows that terminated inside the window
                        ended = [i for i in range(N) if ft[i] < H]
                        for i in ended:
                            for kalt in range(nalt):
                                a2 = dict(a)
                                nb, na = nobs.copy(), nact.copy()
                                nb[i], na[i] = alt_nobs[kalt][i], alt_nact[kalt][i]
                                a2["nobs"], a2["nact"] = f32(nb), f32(na)
                                o2 = tonp(real.value(states, a2, s, n))
                                col.tick(1)
                                col.outcome("mrq:successor_replacements")
                                if not same(out, o2):
                                    col.violation(SIG.format(entry, K_SUCC), dict(detail, row=i, alt=kalt, base=out, replaced=o2))
                            if ft[i] < H - 1:
                                r2 = rew.copy()
                                r2[i, ft[i] + 1 :] = alt_rew[i, ft[i] + 1 :]
                                a2 = dict(a, rew=f32(r2))
                                o2 = tonp(real.value(states, a2, s, n))
                                col.tick(1)
                                col.outcome("mrq:post_terminal_reward_replacements")
                                if not same(out, o2):
                                    col.violation(SIG.format(entry, K_POST), dict(detail, what="rewards after the first termination", row=i, base=out, replaced=o2))
                        for p in perms[1:]:
                            p = list(p)
                            o2 = tonp(real.value(states, {kk: v[p] for kk, v in a.items()}, s, dict(term=term[p])))
                            col.tick(1)
                            col.outcome("mrq:permutations")
                            good = all(num.close(o2[kk], f64(out[kk])[p] if kk in ("td", "zs") else f64(out[kk]), 1e-6) for kk in o2)
                            if not good:
                                col.violation(SIG.format(entry, K_PERM), dict(detail, permutation=p, base=out, permuted=o2))
                        gs, ga, _ = real.grad(states, a, s, n)
                        col.tick(1)
                        col.outcome("mrq:grad_checks")
                        for tn in ("qt", "enct"):
                            if not leaves_zero(gs[tn]):
                                col.violation(SIG.format(entry, K_GT), dict(detail, module=tn, max_abs_grad=leaves_absmax(gs[tn])))
                        for bn in ("nobs", "nact"):
                            if not leaves_zero(ga[bn]):
                                col.violation(SIG.format(entry, K_GB), dict(detail, input=bn, grad=np.asarray(ga[bn])))
                        if leaves_absmax(gs["q"]) > 0:
                            col.outcome("mrq:grad_checks_with_nonzero_online_gradient")


# -- model-based encoder loss -----------------------------------------------------------------------


def twohot_ref(bins, x):
    bins = f64(bins)
    out = np.zeros((len(x), len(bins)))
    for i, v in enumerate(x):
        j = int(np.searchsorted(bins, v, side="left"))  # first edge >= v
        if j == 0:
            out[i, 0] = 1.0
            continue
        lo, hi = bins[j - 1], bins[j]
        w = (v - lo) / (hi - lo)
        out[i, j - 1] = 1.0 - w
        out[i, j] = w
    return out


def log_softmax(z):
    z = z - z.max(-1, keepdims=True)
    return z - np.log(np.exp(z).sum(-1, keepdims=True))


def run_encoder(item, col):
    fam, N, O, A, H, tier, seed, norm = "encoder", item["N"], item["O"], item["A"], item["H"], item["tier"], item["seed"], item["norm"]
    entry = ENTRY[fam]
    ACT_LAST[0] = bool(item.get("act_last", False))
    bins = make_two_hot_bins(n_bin_edges=NB)
    rng = gen(seed, N, O, A, H, 4)
    obs, act, nobs = grid(rng, (N, H, O)), grid(rng, (N, H, A)), grid(rng, (N, H, O))
    alt_act, alt_nobs, alt_obs = grid(rng, (N, H, A)), grid(rng, (N, H, O)), grid(rng, (N, H, O))
    nrew = 2 if tier == "quick" else 3
    rewards = [rng.choice(np.asarray(REWARD_VALUES + [0.5], np.float32), size=(N, H)).astype(np.float32) for _ in range(nrew)]
    alt_rew = rng.choice(np.asarray([3.0, -2.0], np.float32), size=(N, H)).astype(np.float32)
    weights = [(1.0, 0.1, 0.1), (0.5, 2.0, 1.0)]
    groups = patterns(N, H, item["part"])
    perms = list(itertools.permutations(range(N)))
    pairs = [[0, 0], [1, 1]] if tier == "quick" else [[0, 0], [1, 1], [2, 0]]
    col.outcome("work_items:encoder")

    def fn(enc, enct, a, w, envterm, term):
        b = SubBatch(a["obs"], a["act"], a["rew"], a["nobs"], term, jnp.zeros_like(term))
        tot, (d, r, dn, mse) = model_based_encoder_loss(enc, enct, bins, b, H, w[0], w[1], w[2], envterm, norm)
        return dict(total=tot, dyn=d, rew=r, done=dn, mse=mse)

    first = build(fam, O, A, seed, 0, 0)
    gd = {k: nnx.split(first[k])[0] for k in first}

    def pure(states, a, w, envterm, term):
        return fn(nnx.merge(gd["enc"], states["enc"]), nnx.merge(gd["enct"], states["enct"]), a, w, envterm, term)

    def rollout(enc, enct, a):
        zs = enc.encode_zs(a["obs"][:, 0])
        ds, zss, lgs, tg = [], [], [], []
        for t in range(H):
            d, zs, lg = enc.model_head(zs, a["act"][:, t])
            ds.append(d), zss.append(zs), lgs.append(lg)
            tg.append(enct.encode_zs(a["nobs"][:, t]) if norm else enct.zs(a["nobs"][:, t]))
        return dict(d=jnp.stack(ds), zs=jnp.stack(zss), logits=jnp.stack(lgs), tgt=jnp.stack(tg))

    both = jax.jit(lambda states, a, w, envterm, term: (pure(states, a, w, envterm, term), rollout(nnx.merge(gd["enc"], states["enc"]), nnx.merge(gd["enct"], states["enct"]), a)))

    def value(*args):
        return both(*args)[0]

    grad = nnx.jit(nnx.grad(lambda enct, a, enc, w, envterm, term: fn(enc, enct, a, w, envterm, term)["total"], argnums=(0, 1, 2)))

    eager_left = 2
    for pi, pj in pairs:
        mods = build(fam, O, A, seed, pi, pj)
        states = Real.states(mods)
        a = dict(obs=f32(obs), act=f32(act), nobs=f32(nobs), rew=f32(rewards[0]))
        try:
            fw = {k: f64(v) for k, v in both(states, a, np.asarray(weights[0], np.float32), True, groups[0][0])[1].items()}
        except LOUD as e:
            col.tick(1)
            if N == 1:
                col.outcome(f"n1_rejected_loudly:encoder:{type(e).__name__}")
                col.sample(dict(entry=entry, N=N, H=H, rejected=f"{type(e).__name__}: {str(e)[:200]}"))
                return
            col.violation(SIG.format(entry, K_RAISE), dict(entry=entry, N=N, H=H, obs_dim=O, act_dim=A, error=f"{type(e).__name__}: {str(e)[:300]}"))
            return
        sqd = ((fw["zs"] - fw["tgt"]) ** 2).mean(-1)  # (H, N) per-sample latent-dynamics error
        lsm = log_softmax(fw["logits"])
        p = np.exp(lsm)
        dec = (p * f64(bins)).sum(-1)  # (H, N) decoded reward prediction
        for ri, rew in enumerate(rewards):
            a["rew"] = f32(rew)
            ce = np.stack([-(twohot_ref(bins, f64(rew[:, t])) * lsm[t]).sum(-1) for t in range(H)])  # (H, N)
            for (wi, w), envterm in itertools.product(enumerate(weights), [True, False]):
                wj = np.asarray(w, np.float32)
                for grp in groups:
                    canon_out = None
                    for term in grp:
                        jt = term
                        detail = dict(entry=entry, N=N, H=H, obs_dim=O, act_dim=A, params=[pi, pj], terminated=term, reward=rew, weights=w, environment_terminates=envterm, normalize_targets=norm)
                        try:
                            out = tonp(value(states, a, wj, envterm, jt))
                        except LOUD as e:
                            col.tick(1)
                            if N == 1:
                                col.outcome(f"n1_rejected_loudly:encoder:{type(e).__name__}")
                                return
                            col.violation(SIG.format(entry, K_RAISE), dict(detail, error=f"{type(e).__name__}: {str(e)[:300]}"))
                            return
                        # documented: sum over the unrolled steps of the per-sample errors, each sample counted
                        # until (and including) its first terminated step
                        ft = first_term(term)
                        alive = np.asarray([[1.0 if t <= ft[i] else 0.0 for i in range(N)] for t in range(H)])  # (H, N)
                        masked = bool((alive == 0).any())
                        ref = dict(
                            dyn=float((sqd * alive).mean(1).sum()),
                            rew=float((ce * alive).mean(1).sum()),
                            done=float((((fw["d"] - f64(term.T)) ** 2) * alive).mean(1).sum()) if envterm else 0.0,
                            mse=float((((dec - f64(rew.T)) ** 2) * alive).mean(1).sum()),
                        )
                        nontrivial = masked or bool(term.any())
                        col.tick(1, (fam, N, H, O, A, norm, pi, pj, ri, wi, envterm, term.tobytes()) if nontrivial else None)
                        if masked:
                            col.outcome("encoder:cases_with_masked_rows")
                            unm = float(sqd.mean(1).sum())
                            if abs(unm - ref["dyn"]) > 1e-3:
                                col.outcome("encoder:value_would_change_if:no_termination_mask")
                        if ri == 0 and wi == 0 and term is grp[0] and N > 1:
                            # sub-trajectories LONGER than the horizon handed to the loss (two more steps of other data): only the
                            # first H steps are unrolled, so the output is that of the H-step batch
                            pad = lambda x, y: jnp.concatenate((jnp.asarray(x), jnp.asarray(y)[:, :2]), axis=1)  # noqa: E731
                            a_long = dict(obs=pad(a["obs"], f32(alt_obs)), act=pad(a["act"], f32(alt_act)), nobs=pad(a["nobs"], f32(alt_nobs)),
                                          rew=pad(a["rew"], f32(alt_rew)))
                            if a_long["obs"].shape[1] > H:
                                t_long = np.concatenate((np.asarray(jt), np.zeros((N, a_long["obs"].shape[1] - H), dtype=np.asarray(jt).dtype)), axis=1)
                                try:
                                    out_long = tonp(value(states, a_long, wj, envterm, t_long))
                                    col.tick(1, (fam, N, H, O, A, norm, pi, pj, envterm, term.tobytes(), "longer-batch"))
                                    col.outcome("encoder:batches_longer_than_the_horizon")
                                    if not all(num.close(out_long[kk], out[kk]) for kk in ("dyn", "rew", "done", "mse", "total")):
                                        col.violation(SIG.format(entry, K_POST), dict(detail, what="steps beyond the encoder horizon enter the loss",
                                                                                      base={k_: float(v) for k_, v in out.items()}, got={k_: float(v) for k_, v in out_long.items()}))
                                except LOUD:
                                    col.outcome("encoder:longer_batch_rejected_loudly")
                        ok = True
                        for kk, kind in (("dyn", K_DYN), ("rew", K_REW), ("done", K_DONE_MASK if masked else K_DONE), ("mse", K_MSE_MASK if masked else K_MSE)):
                            if not num.close(out[kk], ref[kk]):
                                col.violation(SIG.format(entry, kind), dict(detail, term=kk, got=float(out[kk]), expected=ref[kk]))
                                ok = False
                        tot = w[0] * float(out["dyn"]) + w[1] * float(out["rew"]) + w[2] * float(out["done"])
                        if not num.close(out["total"], tot):
                            col.violation(SIG.format(entry, K_TOTAL), dict(detail, got=float(out["total"]), expected=tot))
                            ok = False
                        if N == 1 and ok:
                            col.outcome("n1_same_per_sample_value:encoder")
                        if col.evaluations % 1999 == 0 or not col.samples:
                            col.sample(dict(detail, out={k: float(v) for k, v in out.items()}, reference=ref))
                        if eager_left > 0 and masked and envterm:
                            eager_left -= 1
                            eo = tonp(fn(mods["enc"], mods["enct"], tojax(a), jnp.asarray(wj), envterm, jnp.asarray(jt)))
                            col.tick(1)
                            if not near(eo, out, MODE_RTOL):
                                col.violation(SIG.format(entry, K_MODE), dict(detail, eager=eo, jit=out))

                        def attribute(o2, what, extra):
                            """Which returned term depends on post-terminal data."""
                            bad = [kk for kk in ("dyn", "rew", "done", "mse") if not num.ieee_equal(o2[kk], canon_out[kk])]
                            for kk in bad:
                                kind = {"done": K_DONE_MASK, "mse": K_MSE_MASK}.get(kk, K_POST)
                                col.violation(SIG.format(entry, kind), dict(detail, what=what, term=kk, base=float(canon_out[kk]), got=float(o2[kk]), **extra))
                            if not bad and not num.ieee_equal(o2["total"], canon_out["total"]):
                                col.violation(SIG.format(entry, K_POST), dict(detail, what=what, term="total", **extra))

                        if canon_out is None:
                            canon_out, canon_term = out, term
                        else:
                            col.tick(1)
                            col.outcome("encoder:post_terminal_flag_variants")
                            attribute(out, "flags after the first termination", dict(canonical_terminated=canon_term))
                        if ri != 0 or wi != 0 or term is not grp[0]:
                            continue
                        # post-terminal steps replaced by other data (they belong to another episode)
                        for i in range(N):
                            if ft[i] >= H - 1:
                                continue
                            sl = slice(ft[i] + 1, H)
                            a2 = {}
                            for kk, base, alt in (("act", act, alt_act), ("nobs", nobs, alt_nobs), ("rew", rew, alt_rew), ("obs", obs, alt_obs)):
                                x = base.copy()
                                x[i, sl] = alt[i, sl]
                                a2[kk] = f32(x)
                            o2 = tonp(value(states, a2, wj, envterm, jt))
                            col.tick(1)
                            col.outcome("encoder:post_terminal_data_replacements")
                            attribute(o2, "actions/rewards/observations after the first termination", dict(row=i))
                        if envterm:
                            for p_ in perms[1:]:
                                jp = list(p_)
                                o2 = tonp(value(states, {kk: v[jp] for kk, v in a.items()}, wj, envterm, jt[jp]))
                                col.tick(1)
                                col.outcome("encoder:permutations")
                                bad = [kk for kk in o2 if not num.close(o2[kk], f64(out[kk]), 1e-6)]
                                if bad:
                                    col.violation(SIG.format(entry, K_PERM), dict(detail, permutation=list(p_), terms=bad, base=out, permuted=o2))
                            genct, ga, genc = grad(mods["enct"], a, mods["enc"], wj, envterm, jt)
                            col.tick(1)
                            col.outcome("encoder:grad_checks")
                            if not leaves_zero(genct):
                                col.violation(SIG.format(entry, K_GT), dict(detail, module="encoder_target", max_abs_grad=leaves_absmax(genct)))
                            if not leaves_zero(ga["nobs"]):
                                col.violation(SIG.format(entry, K_GB), dict(detail, input="next_observation", grad=np.asarray(ga["nobs"])))
                            if leaves_absmax(genc) > 0:
                                col.outcome("encoder:grad_checks_with_nonzero_online_gradient")


def work(item, col):
    fam = item["fam"]
    ACT_LAST[0] = bool(item.get("act_last", False))
    if fam in ONE_STEP:
        run_one_step(item, col)
    elif fam == "sale":
        run_sale(item, col)
    elif fam == "mrq":
        run_mrq(item, col)
    elif fam == "encoder":
        run_encoder(item, col)
    else:
        raise ValueError(fam)
