"""C07 - return / advantage estimates obey their recurrences and are causal (engine E3).

Every family enumerates a finite product of *contexts*.  A context is a tuple of members
(environments / episodes / batch samples); a member is (steps, tail) with one tuple per time step
(the step's data, among them the termination flag) and a tail (bootstrap data used only when the
member never terminates).  The real function is evaluated once per context and yields one estimate
per (member i, time t).

Oracle 1 (causality, exact): all estimates are filed under the key (i, t, relevant part) where the
relevant part is member i's data from t up to and including its first terminated step >= t (the
bootstrap inputs of that terminated step removed), or up to the end plus the tail if it never
terminates.  Every later estimate filed under an existing key must be IEEE-equal to the first one.
On a mismatch the two contexts are connected by a chain of hybrids that swap ONE category of
irrelevant data at a time (other members -> own post-terminal data -> own earlier steps); every
link whose two ends differ names the failure kind, and its two ends are the minimal failing pair.

Oracle 2 (recurrence, 1e-5 relative): for every key whose estimates are all equal the value is
compared with the float64 backward recurrence evaluated on the relevant part.
"""

import inspect
import itertools

import numpy as np

from vlib import num

PROPERTY = "C07"
LEVEL = "exploration"
USES_JAX = True
CLEAR_EVERY = 40
BUDGET_S = {"quick": 600, "thorough": 3600}
RULE = (
    "full Cartesian products of per-step alphabets (termination flag x reward/value/observation "
    "variant) for every member of a context (single sequence, parallel environments, episodes, batch "
    "samples); where the full product over all members exceeds the item bound one focus member runs "
    "through its full product while the others run through all termination patterns x 2 data variants, "
    "for every choice of the focus; one evaluation = one estimate (member, t) compared either with the "
    "first estimate filed under the same relevant data (exact) or with the float64 recurrence; "
    "non-trivial = the context offers something that must be ignored (a terminated step, a step before "
    "t, or another member); distinct = distinct (family, configuration, context)"
)
ASSUMPTIONS = [
    "value alphabets: rewards/values from a 3-element set containing 0 (rotated by VERIF_SEED), gamma/lambda from {0, 0.5, 1} and (0.99, 0.95); no inf/nan",
    "sequence lengths <= 4 (quick) / 5 (thorough); n_envs, rollout length, batch size, horizon <= 3",
    "truncation flags are varied only for prepare_a2c_batch (they are irrelevant data there: estimates must not change); PPO receives no truncation flags",
    "networks are tiny (1 hidden layer x 3 units) and receive a zero learning rate where a routine insists on updating them; their forward passes are taken as given (reference uses the same forward values)",
    "PPO is observed end to end through train_ppo(iterations=1) on a SyncVectorEnv(SAME_STEP) of scripted environments; the arrays handed to ppo_loss (observations, advantages, returns) are captured by wrapping the module-level name; gamma=0.99, lambda=0.95 are compute_gae's documented defaults, which update_ppo does not override",
    "mrq_loss and model_based_encoder_loss are evaluated under nnx.jit (the way MR.Q calls them); discounted_n_step_return both eagerly and under jit; comparisons are exact only between runs of the same compiled program",
    "jax.lax.scan / XLA CPU evaluate the same program on the same values deterministically",
]

SIG = "C07|{}|{}"
# failure kinds (fixed vocabulary)
K_REC = "recurrence-mismatch"
K_OTHER = "depends-on-other-batch-member"
K_POST = "depends-on-post-terminal-data"
K_PRE = "depends-on-earlier-steps"
K_SHAPE = "wrong-output-shape"
K_RAISE = "raises-for-valid-shape"
K_NAN = "non-finite-estimate"

MAX_DIAG_PER_GROUP = 3
FULL_LIMIT = 4200  # contexts per item above which the focus scheme replaces the full product

GL_QUICK = [(0.0, 0.0), (0.5, 1.0), (1.0, 0.5), (0.99, 0.95), (1.0, 1.0), (0.9, 0.0)]  # the last: lambda exactly 0 with a positive discount
GL_THOROUGH = [(g, l) for g in (0.0, 0.5, 1.0) for l in (0.0, 0.5, 1.0)] + [(0.99, 0.95)]


def alphabet(seed):
    return [(-1.0, 0.0, 2.0), (-2.0, 0.0, 1.0), (-0.5, 0.0, 3.0)][seed % 3]


# =========================================================================================
# items
# =========================================================================================


def items(tier, seed):
    q = tier == "quick"
    out = []

    def add(fam, **kw):
        name = fam + "-" + "-".join(f"{k}{v}" for k, v in kw.items())
        out.append(dict(name=name, fam=fam, seed=seed, tier=tier, **kw))

    # train_a2c end to end: which observation bootstraps the last step of each rollout
    from vlib import senv as _senv

    vs = _senv.scripts(4, "cTU", 1 if q else 2)
    pairs = [[a, b] for a in vs for b in vs]
    for i in range(0, len(pairs), 27 if q else 40):
        out.append(dict(name=f"a2cloop-{i}", fam="a2cloop", seed=seed, tier=tier, pairs=pairs[i : i + (27 if q else 40)]))
    # PPO collector: the value a step is bootstrapped from is the value of THAT step's successor observation - at the last step
    # of an episode the final observation of the episode, never the first observation of the next one
    vs3 = _senv.scripts(4, "cTU", 1)
    cpairs = [[a, b] for a in vs3 for b in vs3 if ("U" in a + b or "T" in a + b)]
    for lg in (0, 1):
        for i in range(0, len(cpairs), 40):
            out.append(dict(name=f"ppo-collector-log{lg}-{i}", fam="ppo-collector", seed=seed, tier=tier, logger=bool(lg), pairs=cpairs[i:i + 40]))
    # MR.Q creating its own replay buffer: the critic's n-step reward sequences come from the following steps of one episode
    from vlib import mrq_windows

    for it in mrq_windows.item_specs(tier, seed):
        out.append(dict(it, fam="mrq-own-buffer", tier=tier))
    # reward-to-go (numpy, float64)
    for g in ([0.0, 0.5, 0.9, 1.0] if q else [0.0, 0.5, 0.9, 0.99, 1.0]):
        add("rtg", gamma=g, Lmax=5 if q else 6)
    # REINFORCE dataset of several episodes
    for g in ([0.5, 1.0] if q else [0.0, 0.5, 0.99, 1.0]):
        add("pgd", gamma=g, total=5 if q else 6)
    # n-step return
    for g in ([0.0, 0.5, 0.99, 1.0] if q else [0.0, 0.5, 0.9, 0.99, 1.0]):
        for N, H in itertools.product([1, 2, 3], [1, 2, 3, 4]):
            if N > 1 and H == 4:
                continue
            if q and N == 3 and H == 3:
                continue
            n_full = (6**H) ** N
            add("nstep", N=N, H=H, gamma=g, mode="jit")
            if n_full <= 1500:
                add("nstep", N=N, H=H, gamma=g, mode="eager")
    # GAE on one sequence
    gl = GL_QUICK if q else GL_THOROUGH
    for j, (g, l) in enumerate(gl):
        for L in ([1, 2, 3, 4] if q else [1, 2, 3, 4, 5]):
            tds = ["bool", "int32"] if L <= 2 else [["bool", "int32", "float32"][(j + L) % 3]]
            for td in tds:
                add("gae", L=L, gamma=g, lmbda=l, tdtype=td)
    # A2C batch preparation
    gl_a = [(0.99, 0.95), (0.5, 1.0), (0.9, 0.0)] if q else GL_QUICK
    for j, (g, l) in enumerate(gl_a):
        for N, T in itertools.product([1, 2, 3], [1, 2, 3]):
            if N == 3 and T == 3:
                if q or (g, l) != (0.99, 0.95):
                    continue
                for f in range(3):
                    for c in range(4):
                        add("a2c", N=N, T=T, gamma=g, lmbda=l, focus=f, chunk=c, nchunks=4)
                continue
            if N == 1 and j > 0:
                continue
            add("a2c", N=N, T=T, gamma=g, lmbda=l)
    # PPO end to end
    for E, T in itertools.product([1, 2, 3], [1, 2, 3]):
        if E == 3 and T == 3:
            if q:
                continue
            for f in range(3):
                for c in range(8):
                    add("ppo", E=E, T=T, focus=f, chunk=c, nchunks=8)
            continue
        if (E, T) in ((2, 3), (3, 2)):
            if q:
                for f in range(E):
                    add("ppo", E=E, T=T, focus=f)
            else:
                for c in range(4):
                    add("ppo", E=E, T=T, full=1, chunk=c, nchunks=4)
            continue
        add("ppo", E=E, T=T)
    # the same with a logger attached (collect_trajectories then handles the final observations of finished episodes itself)
    for E, T in ([(2, 1), (2, 2), (3, 1)] if q else [(2, 1), (2, 2), (3, 1), (1, 3)]):
        add("ppo", E=E, T=T, logged=1)
    for f in range(3):
        add("ppo", E=3, T=2, focus=f, logged=1)
    # MR.Q critic target
    for g in ([0.5, 0.99] if q else [0.0, 0.5, 0.99, 1.0]):
        for N, H in itertools.product([1, 2, 3], [1, 2, 3]):
            if N == 3 and H == 3:
                if q:
                    continue
                for f in range(3):
                    add("mrq", N=N, H=H, gamma=g, focus=f)
                continue
            add("mrq", N=N, H=H, gamma=g)
    # MR.Q encoder loss
    for N, H in itertools.product([1, 2, 3], [1, 2, 3]):
        for envterm, norm in itertools.product([0, 1], [1, 0]):
            if N == 3 and H == 3:
                if q:
                    continue
                for f in range(3):
                    add("enc", N=N, H=H, envterm=envterm, norm=norm, focus=f)
                continue
            add("enc", N=N, H=H, envterm=envterm, norm=norm)
    return out


# =========================================================================================
# generic machinery
# =========================================================================================


def same(a, b):
    """IEEE equality of two tuples of floats (0.0 == -0.0; NaN equals nothing)."""
    if a is None or b is None:
        return False
    return len(a) == len(b) and all(x == y for x, y in zip(a, b))


def first_term(steps, t, term_idx):
    if term_idx is None:
        return None
    for k in range(t, len(steps)):
        if steps[k][term_idx]:
            return k
    return None


class Rejected(Exception):
    """The implementation raised on a context."""


class Family:
    entry = "?"
    term_idx = None  # position of the termination flag inside a step tuple
    per_t = True  # an estimate for every t (otherwise for t = 0 only)
    has_reference = True

    def __init__(self, item):
        self.item = item
        self.A = alphabet(item["seed"])

    # -- to be provided -------------------------------------------------------------
    def contexts(self):
        raise NotImplementedError

    def evaluate(self, ctx):
        raise NotImplementedError

    def reference(self, ctx, i, t, cut=True):
        raise NotImplementedError

    def strip(self, step):
        """The part of a *terminated* step that the estimate may depend on."""
        return step

    def merge(self, rel_step, post_step):
        """Terminated step with relevant fields from rel_step and the rest from post_step."""
        return rel_step

    def describe(self, ctx):
        return ctx

    def attribute(self, va, vb):
        """Entry point name(s) a difference between two estimates is attributed to."""
        return [self.entry]

    # -- derived --------------------------------------------------------------------
    def rel(self, ctx, i, t):
        if i < 0:
            return tuple(self.rel(ctx, j, 0) for j in range(len(ctx)))
        steps, tail = ctx[i]
        k = first_term(steps, t, self.term_idx)
        if k is None:
            return (tuple(steps[t:]), tail)
        return (tuple(steps[t:k]), self.strip(steps[k]), "terminated")

    def mix(self, c1, c2, i, t, others2, post2, pre2):
        """Context with member i's relevant data (equal in c1 and c2) and each category of
        irrelevant data (other members - their number and lengths may differ -, member i's
        post-terminal data, member i's steps before t) taken from c2 if the flag is set, else c1."""
        out = list(c2 if others2 else c1)
        s1, t1 = c1[i]
        s2, t2 = c2[i]
        k = first_term(s1, t, self.term_idx)
        pre = s2[:t] if pre2 else s1[:t]
        if k is None:
            out[i] = (tuple(pre) + tuple(s1[t:]), t1)
        else:
            P = s2 if post2 else s1
            steps = tuple(pre) + tuple(s1[t:k]) + (self.merge(s1[k], P[k]),) + tuple(P[k + 1 :])
            out[i] = (steps, t2 if post2 else t1)
        return tuple(out)

    def nontrivial(self, ctx):
        if len(ctx) > 1:
            return True
        steps, _ = ctx[0]
        if len(steps) > 1 and self.per_t:
            return True
        return self.term_idx is not None and any(s[self.term_idx] for s in steps)


def explore(fam, col):
    item = fam.item
    cfg = {k: v for k, v in item.items() if k not in ("name", "tier")}
    table = {}
    n_ctx = 0
    rejected = 0
    for ctx in fam.contexts():
        n_ctx += 1
        try:
            out = fam.evaluate(ctx)
        except Rejected as e:
            col.tick(1, key=(item["name"], ctx))
            if sum(len(m[0]) for m in ctx) == 1 and item["fam"] in ("a2c", "ppo"):
                # a one-transition rollout (1 environment x 1 step) is rejected loudly: acceptable
                col.outcome(f"{item['fam']}_single_transition_rollout_rejected_loudly")
                continue
            rejected += 1
            if rejected == 1:
                col.violation(
                    SIG.format(fam.entry, K_RAISE),
                    dict(config=cfg, context=fam.describe(ctx), error=str(e)[:300]),
                )
            else:
                col.outcome(f"{item['fam']}_further_contexts_raising")
            continue
        if out is None:
            continue  # the family already reported (shape problems)
        col.tick(len(out), key=(item["name"], ctx) if fam.nontrivial(ctx) else None)
        if n_ctx <= 1:
            col.sample(dict(config=cfg, context=fam.describe(ctx), estimates={f"{i},{t}": v for (i, t), v in out.items()}))
        for (i, t), val in out.items():
            if not all(np.isfinite(x) for x in val):
                col.violation(SIG.format(fam.entry, K_NAN), dict(config=cfg, context=fam.describe(ctx), member=i, t=t, got=val))
                continue
            key = (i, t, fam.rel(ctx, i, t))
            g = table.get(key)
            if g is None:
                table[key] = [val, ctx, 1, set(), 0]
                continue
            g[2] += 1
            if same(val, g[0]):
                continue
            _diagnose(fam, col, cfg, g, ctx, val, i, t)
    # recurrence on every consistent group
    fam_name = item["fam"]
    groups = len(table)
    with_partner = 0
    cut = 0
    inconsistent = 0
    for (i, t, _), g in table.items():
        if g[2] > 1:
            with_partner += 1
        if g[3]:
            inconsistent += 1
            continue
        if not fam.has_reference:
            continue
        ref = fam.reference(g[1], i, t, True)
        col.tick(1)
        if not same(tuple(float(x) for x in fam.reference(g[1], i, t, False)), tuple(float(x) for x in ref)):
            cut += 1
        if not num.close(np.array(g[0]), np.array(ref)):
            col.violation(
                SIG.format(fam.entry, K_REC),
                dict(config=cfg, context=fam.describe(g[1]), member=i, t=t, got=g[0], expected=list(ref)),
            )
    col.outcome(f"{fam_name}_contexts", n_ctx)
    col.outcome(f"{fam_name}_groups(member,t,relevant-data)", groups)
    col.outcome(f"{fam_name}_groups_with_differential_partner", with_partner)
    if fam.has_reference and fam.term_idx is not None:
        col.outcome(f"{fam_name}_groups_where_dropping_the_termination_cut_changes_the_reference", cut)
    if inconsistent:
        col.outcome(f"{fam_name}_groups_inconsistent", inconsistent)
    return table


def _diagnose(fam, col, cfg, g, ctx2, val2, i, t):
    """Name the category (categories) of irrelevant data responsible for val1 != val2."""
    val1, ctx1 = g[0], g[1]
    fam_name = fam.item["fam"]
    if g[4] >= MAX_DIAG_PER_GROUP:
        col.outcome(f"{fam_name}_further_mismatches_in_already_reported_groups")
        return
    g[4] += 1
    if i < 0:
        chain = [(ctx1, val1), (ctx2, val2)]
        kinds = [K_POST]
    else:
        h1 = fam.mix(ctx1, ctx2, i, t, True, False, False)
        h2 = fam.mix(ctx1, ctx2, i, t, True, True, False)
        assert fam.mix(ctx1, ctx2, i, t, True, True, True) == ctx2, "hybrid chain does not end in ctx2"

        def ev(h):
            if h == ctx1:
                return val1
            if h == ctx2:
                return val2
            try:
                out = fam.evaluate(h)
            except Rejected:
                return None
            return None if out is None else out.get((i, t))

        chain = [(ctx1, val1), (h1, ev(h1)), (h2, ev(h2)), (ctx2, val2)]
        kinds = [K_OTHER, K_POST, K_PRE]
    new = False
    for (ca, va), (cb, vb), kind in zip(chain[:-1], chain[1:], kinds):
        if same(va, vb):
            continue
        for entry in fam.attribute(va, vb):
            if (entry, kind) in g[3]:
                continue
            g[3].add((entry, kind))
            new = True
            col.violation(
                SIG.format(entry, kind),
                dict(
                    config=cfg,
                    member=i,
                    t=t,
                    context_a=fam.describe(ca),
                    context_b=fam.describe(cb),
                    estimate_a=va,
                    estimate_b=vb,
                    note="contexts a and b differ only in data of the named category; the estimate for (member, t) must be equal",
                ),
            )
    if not new:
        col.outcome(f"{fam_name}_further_mismatches_in_already_reported_groups")


def member_product(step_alphabet, T, tails=(None,)):
    return [(steps, tail) for steps in itertools.product(step_alphabet, repeat=T) for tail in tails]


def batch_contexts(N, full, comp, item, limit=FULL_LIMIT):
    """Full product over members if small, else the focus scheme (see RULE)."""
    focus = item.get("focus")
    chunk, nchunks = item.get("chunk"), item.get("nchunks")
    if focus is None and (item.get("full") or len(full) ** N <= limit):
        plans = [[full] * N]
    else:
        foci = range(N) if focus is None else [focus]
        plans = [[full if j == f else comp for j in range(N)] for f in foci]
    for pools in plans:
        if chunk is not None:
            j = ((focus or 0) + 1) % N
            pools = list(pools)
            pools[j] = [m for idx, m in enumerate(pools[j]) if idx % nchunks == chunk]
        yield from itertools.product(*pools)


# =========================================================================================
# families
# =========================================================================================


class Rtg(Family):
    entry = "reinforce.discounted_reward_to_go"

    def contexts(self):
        for L in range(1, self.item["Lmax"] + 1):
            for rs in itertools.product(self.A, repeat=L):
                yield ((tuple((r,) for r in rs), None),)

    def evaluate(self, ctx):
        from rl_blox.algorithm.reinforce import discounted_reward_to_go

        rewards = [s[0] for s in ctx[0][0]]
        arg = list(rewards)
        try:
            out = np.asarray(discounted_reward_to_go(arg, self.item["gamma"]))
        except Exception as e:  # noqa: BLE001
            raise Rejected(f"{type(e).__name__}: {e}") from e
        if out.shape != (len(rewards),) or arg != rewards:
            self.col.violation(SIG.format(self.entry, K_SHAPE), dict(rewards=rewards, shape=out.shape, argument_after=arg))
            return None
        # the rewards as a float64 array (what a rollout buffer holds), used twice: the argument is an input
        arr = np.asarray(rewards, dtype=np.float64)
        keep = arr.copy()
        try:
            o1 = np.asarray(discounted_reward_to_go(arr, self.item["gamma"]), dtype=np.float64)
            o2 = np.asarray(discounted_reward_to_go(arr, self.item["gamma"]), dtype=np.float64)
        except Exception as e:  # noqa: BLE001
            raise Rejected(f"{type(e).__name__}: {e} (rewards as float64 array)") from e
        self.col.tick(2)
        if not np.array_equal(arr, keep):
            self.col.violation(SIG.format(self.entry, "caller-array-modified-in-place"), dict(rewards=rewards, gamma=self.item["gamma"], array_after=arr.tolist()))
            return None
        if o1.shape != out.shape or not (np.allclose(o1, np.asarray(out, dtype=np.float64), rtol=1e-6, atol=1e-6) and np.array_equal(o1, o2)):
            self.col.violation(SIG.format(self.entry, "depends-on-reward-number-type"), dict(rewards=rewards, gamma=self.item["gamma"], number_type="float64 array, two calls",
                                                                                           first=o1.tolist(), second=o2.tolist(), with_list=np.asarray(out).tolist()))
            return None
        if all(float(r).is_integer() for r in rewards):
            # environments return integer rewards too (Python int / numpy integer): the estimate is a property of
            # the reward VALUES, so the same values with another number type must give the same result
            for conv, label in ((int, "python-int"), (np.int64, "numpy-int64"), (np.float32, "numpy-float32")):
                try:
                    alt = np.asarray(discounted_reward_to_go([conv(r) for r in rewards], self.item["gamma"]), dtype=np.float64)
                except Exception as e:  # noqa: BLE001
                    raise Rejected(f"{type(e).__name__}: {e} (rewards as {label})") from e
                self.col.tick(1)
                if alt.shape != out.shape or not np.allclose(alt, np.asarray(out, dtype=np.float64), rtol=1e-6, atol=1e-6):
                    self.col.violation(SIG.format(self.entry, "depends-on-reward-number-type"), dict(rewards=rewards, gamma=self.item["gamma"], number_type=label,
                                                                                                   got=alt.tolist(), with_floats=np.asarray(out).tolist()))
                    break
        return {(0, t): (float(out[t]),) for t in range(len(rewards))}

    def reference(self, ctx, i, t, cut=True):
        g = self.item["gamma"]
        acc = 0.0
        for (r,) in reversed(ctx[0][0][t:]):
            acc = r + g * acc
        return (acc,)


class Pgd(Family):
    entry = "reinforce.EpisodeDataset.prepare_policy_gradient_dataset"

    def contexts(self):
        total = self.item["total"]
        for K in (1, 2, 3):
            for lens in itertools.product((1, 2, 3), repeat=K):
                if sum(lens) > total:
                    continue
                for rs in itertools.product(self.A, repeat=sum(lens)):
                    ctx, o = [], 0
                    for n in lens:
                        ctx.append((tuple((r,) for r in rs[o : o + n]), None))
                        o += n
                    yield tuple(ctx)

    def evaluate(self, ctx):
        import gymnasium as gym

        from rl_blox.algorithm.reinforce import EpisodeDataset

        ds = EpisodeDataset()
        for i, (steps, _) in enumerate(ctx):
            ds.start_episode()
            for t, (r,) in enumerate(steps):
                ds.add_sample(np.array([i, t], dtype=np.float32), (i + t) % 2, np.array([i, t + 1], dtype=np.float32), r)
        try:
            obs, act, nobs, ret, disc = ds.prepare_policy_gradient_dataset(gym.spaces.Discrete(2), self.item["gamma"])
        except Exception as e:  # noqa: BLE001
            raise Rejected(f"{type(e).__name__}: {e}") from e
        obs, ret = np.asarray(obs), np.asarray(ret)
        n = sum(len(s) for s, _ in ctx)
        if ret.shape != (n,) or obs.shape != (n, 2):
            self.col.violation(SIG.format(self.entry, K_SHAPE), dict(context=ctx, returns_shape=ret.shape, observations_shape=obs.shape))
            return None
        out = {}
        for j in range(n):
            out[(int(obs[j, 0]), int(obs[j, 1]))] = (float(ret[j]),)
        if len(out) != n:
            self.col.violation(SIG.format(self.entry, K_SHAPE), dict(context=ctx, rows=obs.tolist()))
            return None
        return out

    def reference(self, ctx, i, t, cut=True):
        g = self.item["gamma"]
        acc = 0.0
        for (r,) in reversed(ctx[i][0][t:]):
            acc = r + g * acc
        return (acc,)


class NStep(Family):
    entry = "return_estimates.discounted_n_step_return"
    term_idx = 1
    per_t = False

    def contexts(self):
        N, H = self.item["N"], self.item["H"]
        A = self.A
        full = member_product([(r, te) for r in A for te in (0, 1)], H)
        comp = []
        for tes in itertools.product((0, 1), repeat=H):
            for v in (0, 1):
                comp.append((tuple((A[(2 * v + j) % 3] if v else A[0], te) for j, te in enumerate(tes)), None))
        if len(full) ** N <= (8000 if self.item["tier"] == "quick" else 60000):
            yield from itertools.product(full, repeat=N)
            return
        for f in range(N):  # every member in turn runs through its full product
            yield from itertools.product(*[full if j == f else comp for j in range(N)])

    def setup(self):
        import jax

        from rl_blox.blox.return_estimates import discounted_n_step_return

        g = self.item["gamma"]
        # process history inside the item: the same routine is first called with ANOTHER discount on arrays of the same shape
        # (a discount sweep, two trainings in one process), so anything remembered between calls is filled by that call
        import jax.numpy as jnp

        N_, H_ = self.dims() if hasattr(self, "dims") else (self.item["N"], self.item["H"])
        try:
            discounted_n_step_return(jnp.ones((N_, H_), dtype=jnp.float32), jnp.zeros((N_, H_), dtype=jnp.int32), 0.37)
        except Exception:  # noqa: BLE001 - the decoy is not under test
            pass
        if self.item["mode"] == "jit":
            self.fn = jax.jit(lambda r, te: discounted_n_step_return(r, te, g))
        else:
            self.fn = lambda r, te: discounted_n_step_return(r, te, g)

    def evaluate(self, ctx):
        import jax.numpy as jnp

        N = len(ctx)
        r = np.array([[s[0] for s in m[0]] for m in ctx], dtype=np.float32)
        te = np.array([[s[1] for s in m[0]] for m in ctx], dtype=np.int32)
        try:
            if self.item["mode"] == "jit":
                G, d = self.fn(r, te)
            else:
                G, d = self.fn(jnp.asarray(r), jnp.asarray(te))
        except Exception as e:  # noqa: BLE001
            raise Rejected(f"{type(e).__name__}: {e}") from e
        G, d = np.asarray(G), np.asarray(d)
        if G.shape != (N,) or d.shape != (N,):
            self.col.violation(SIG.format(self.entry, K_SHAPE), dict(context=ctx, shapes=[G.shape, d.shape]))
            return None
        return {(i, 0): (float(G[i]), float(d[i])) for i in range(N)}

    def reference(self, ctx, i, t, cut=True):
        g = self.item["gamma"]
        G, d = 0.0, 1.0
        for r, te in ctx[i][0]:
            G += d * r
            d *= g * ((1 - te) if cut else 1)
        return (G, d)


class Gae(Family):
    entry = "gae.compute_gae"
    term_idx = 3

    def strip(self, step):
        return (step[0], step[1], step[3])

    def merge(self, rel_step, post_step):
        return (rel_step[0], rel_step[1], post_step[2], rel_step[3])

    def contexts(self):
        L, A = self.item["L"], self.A
        if L <= 3:
            alpha = [(r, v, nv, te) for r in A for v in A for nv in A for te in (0, 1)]
            for steps in itertools.product(alpha, repeat=L):
                yield ((steps, None),)
            return
        # longer sequences: values from the two outer alphabet elements, next values chained
        # (next_value[t] = value[t+1]) as every caller in the repository does, last one free
        R = A if L == 4 else (A[0], A[2])
        V = (A[0], A[2])
        for tes in itertools.product((0, 1), repeat=L):
            for rs in itertools.product(R, repeat=L):
                for vs in itertools.product(V, repeat=L):
                    for last in (A if L == 4 else V):
                        nvs = vs[1:] + (last,)
                        yield ((tuple(zip(rs, vs, nvs, tes)), None),)

    def setup(self):
        self.td = dict(bool=np.bool_, int32=np.int32, float32=np.float32)[self.item["tdtype"]]

    def evaluate(self, ctx):
        from rl_blox.blox.gae import compute_gae

        steps = ctx[0][0]
        L = len(steps)
        r = np.array([s[0] for s in steps], dtype=np.float32)
        v = np.array([s[1] for s in steps], dtype=np.float32)
        nv = np.array([s[2] for s in steps], dtype=np.float32)
        te = np.array([s[3] for s in steps]).astype(self.td)
        try:
            o = compute_gae(r, v, nv, te, self.item["gamma"], self.item["lmbda"])
        except Exception as e:  # noqa: BLE001
            raise Rejected(f"{type(e).__name__}: {e}") from e
        adv, ret = np.asarray(o[0]), np.asarray(o[1])
        if adv.shape != (L,) or ret.shape != (L,):
            self.col.violation(SIG.format(self.entry, K_SHAPE), dict(context=ctx, shapes=[adv.shape, ret.shape]))
            return None
        return {(0, t): (float(adv[t]), float(ret[t])) for t in range(L)}

    def reference(self, ctx, i, t, cut=True):
        return gae_ref([(s[0], s[1], s[2], s[3]) for s in ctx[0][0][t:]], self.item["gamma"], self.item["lmbda"], cut)


def gae_ref(steps, gamma, lmbda, cut=True):
    """(advantage, return) at the first of `steps` = [(reward, value, next_value, terminated)]."""
    acc = 0.0
    for r, v, nv, te in reversed(steps):
        nt = (1.0 - te) if cut else 1.0
        acc = (r + gamma * nv * nt - v) + gamma * lmbda * nt * acc
    return (acc, acc + steps[0][1])


class EnvBatch(Family):
    """Parallel environments; a step is (data bit d, terminated); tail = data bit of the final observation."""

    term_idx = 1

    def dims(self):
        raise NotImplementedError

    def contexts(self):
        N, T = self.dims()
        alpha = [(d, te) for d in (0, 1) for te in (0, 1)]
        full = [(steps, steps[-1][0]) for steps in itertools.product(alpha, repeat=T)]
        comp = []
        for tes in itertools.product((0, 1), repeat=T):
            for d in (0, 1):
                comp.append((tuple((d, te) for te in tes), d))
        return batch_contexts(N, full, comp, self.item)

    def reward(self, e, t, d):
        return self.A[(t + e + d) % 3]

    def describe(self, ctx):
        return dict(
            envs=[
                dict(
                    terminated=[s[1] for s in steps],
                    reward=[self.reward(e, t, s[0]) for t, s in enumerate(steps)],
                    value=[self.value(e, t, s[0]) for t, s in enumerate(steps)],
                    value_of_final_observation=self.value(e, len(steps), tail),
                )
                for e, (steps, tail) in enumerate(ctx)
            ]
        )

    def reference(self, ctx, i, t, cut=True):
        steps, tail = ctx[i]
        T = len(steps)
        seq = []
        for j in range(t, T):
            d, te = steps[j]
            nv = self.value(i, j + 1, steps[j + 1][0]) if j + 1 < T else self.value(i, T, tail)
            seq.append((self.reward(i, j, d), self.value(i, j, d), nv, te))
        return gae_ref(seq, self.gamma, self.lmbda, cut)


class A2c(EnvBatch):
    entry = "a2c.prepare_a2c_batch"

    def dims(self):
        return self.item["N"], self.item["T"]

    def setup(self):
        from flax import nnx

        class Lin(nnx.Module):
            def __call__(s, x):
                return x[..., 0:1] * 0.5

        self.vf = Lin()
        self.gamma, self.lmbda = self.item["gamma"], self.item["lmbda"]

    def x(self, e, t, d):
        return 2.0 * self.A[(2 * t + e + 2 * d + 1) % 3]

    def value(self, e, t, d):
        return 0.5 * self.x(e, t, d)

    def evaluate(self, ctx):
        import gymnasium as gym
        import jax.numpy as jnp

        from rl_blox.algorithm import a2c
        from rl_blox.blox.replay_buffer import ReplayBuffer

        N, T = len(ctx), len(ctx[0][0])
        last = np.array([[self.x(e, T, ctx[e][1]), T, e] for e in range(N)], dtype=np.float32)
        outs = {}
        # truncation flags are not part of the (reward, value, termination) data the estimates are defined
        # on: the batch is prepared with no truncation, with every non-terminated step truncated and with
        # the last step truncated, and all three must give the same estimates
        for mode in ("none", "all", "last"):
            rb = ReplayBuffer(T, keys=["obs", "actions", "rewards", "terminations", "truncations"], dtypes=[float, float, float, int, int])
            for t in range(T):
                term = np.array([bool(ctx[e][0][t][1]) for e in range(N)])
                trunc = np.zeros(N, dtype=bool) if mode == "none" else (~term if (mode == "all" or t == T - 1) else np.zeros(N, dtype=bool))
                rb.add_sample(
                    obs=np.array([[self.x(e, t, ctx[e][0][t][0]), t, e] for e in range(N)], dtype=np.float32),
                    actions=np.zeros((N, 1), dtype=np.float32),
                    rewards=np.array([self.reward(e, t, ctx[e][0][t][0]) for e in range(N)]),
                    terminations=term,
                    truncations=trunc,
                )
            try:
                fo, fa, adv, ret = a2c.prepare_a2c_batch(rb, self.vf, jnp.asarray(last), gym.spaces.Box(-1.0, 1.0, (1,)), self.gamma, self.lmbda)
            except Exception as e:  # noqa: BLE001
                raise Rejected(f"{type(e).__name__}: {e}") from e
            fo, adv, ret = np.asarray(fo), np.asarray(adv), np.asarray(ret)
            if adv.shape != (N * T,) or ret.shape != (N * T,) or fo.shape != (N * T, 3):
                self.col.violation(SIG.format(self.entry, K_SHAPE), dict(context=self.describe(ctx), shapes=[fo.shape, adv.shape, ret.shape]))
                return None
            out = {(int(fo[j, 2]), int(fo[j, 1])): (float(adv[j]), float(ret[j])) for j in range(N * T)}
            if len(out) != N * T:
                self.col.violation(SIG.format(self.entry, K_SHAPE), dict(context=self.describe(ctx), rows=fo.tolist()))
                return None
            outs[mode] = out
        for mode in ("all", "last"):
            self.col.tick(1)
            if any(not same(outs[mode][k], outs["none"][k]) for k in outs["none"]):
                self.col.violation(SIG.format(self.entry, "depends-on-truncation-flags"), dict(context=self.describe(ctx), truncated=mode, without=outs["none"], with_truncation=outs[mode]))
                break
        else:
            self.col.outcome("a2c_contexts_invariant_under_truncation_flags")
        return outs["none"]


_PPO = {}


def _ppo_setup(seed):
    """Per worker: tiny actor/critic with zero learning rate, capture of ppo_loss's arguments."""
    if _PPO.get("seed") == seed:
        return _PPO
    import jax
    import optax
    from flax import nnx

    from rl_blox.algorithm import ppo
    from rl_blox.blox.function_approximator.mlp import MLP
    from rl_blox.blox.function_approximator.policy_head import SoftmaxPolicy
    from vlib import snap

    if "orig" not in _PPO:
        orig = ppo.ppo_loss
        sig = inspect.signature(orig)
        cap = []

        def wrapped(*a, **k):
            b = sig.bind(*a, **k).arguments
            jax.debug.callback(
                lambda o, ad, re: cap.append((np.asarray(o), np.asarray(ad), np.asarray(re))),
                b["observations"],
                b["advantages"],
                b["returns"],
            )
            return orig(*a, **k)

        ppo.ppo_loss = wrapped
        _PPO.update(orig=orig, cap=cap)
    actor = SoftmaxPolicy(MLP(3, 2, [3], "tanh", nnx.Rngs(seed)))
    critic = MLP(3, 1, [3], "tanh", nnx.Rngs(3 + seed))
    _PPO.update(
        seed=seed,
        actor=actor,
        critic=critic,
        oa=nnx.Optimizer(actor, optax.sgd(0.0), wrt=nnx.Param),
        oc=nnx.Optimizer(critic, optax.sgd(0.0), wrt=nnx.Param),
        critic_snap=snap.snap(critic),
        values={},
    )
    return _PPO


def _seq_env_class():
    import gymnasium as gym

    class SeqEnv(gym.Env):
        """Observation before step t is obs_seq[t] whatever happened before (also after a reset)."""

        def __init__(self, obs_seq, rewards, terms):
            self.observation_space = gym.spaces.Box(-np.inf, np.inf, (3,), dtype=np.float32)
            self.action_space = gym.spaces.Discrete(2)
            self.obs_seq = [np.asarray(o, dtype=np.float32) for o in obs_seq]
            self.rewards, self.terms = rewards, terms
            self.t = 0
            self.steps = 0

        def reset(self, seed=None, options=None):
            return self.obs_seq[self.t].copy(), {}

        def step(self, a):
            t = self.t
            if t >= len(self.rewards):
                raise RuntimeError("train_ppo(iterations=1, batch_size=T) stepped an environment more than T times")
            self.t += 1
            return self.obs_seq[t + 1].copy(), float(self.rewards[t]), bool(self.terms[t]), False, {}

    return SeqEnv


class Ppo(EnvBatch):
    entry = "ppo.update_ppo"
    gamma, lmbda = 0.99, 0.95  # compute_gae's documented defaults; update_ppo passes none

    def dims(self):
        return self.item["E"], self.item["T"]

    def setup(self):
        self.S = _ppo_setup(self.item["seed"])
        self.SeqEnv = _seq_env_class()

    def value(self, e, t, d):
        import jax.numpy as jnp

        v = self.S["values"].get((e, t, d))
        if v is None:
            v = float(np.asarray(self.S["critic"](jnp.asarray([[e + 1, t + 1, 2 * d - 1]], dtype=jnp.float32)))[0, 0])
            self.S["values"][(e, t, d)] = v
        return v

    def evaluate(self, ctx):
        import gymnasium as gym
        import jax

        from rl_blox.algorithm import ppo

        E, T = len(ctx), len(ctx[0][0])
        S = self.S

        def mk(e):
            steps, tail = ctx[e]
            obs_seq = [[e + 1, t + 1, 2 * steps[t][0] - 1] for t in range(T)] + [[e + 1, T + 1, 2 * tail - 1]]
            return lambda: self.SeqEnv(obs_seq, [self.reward(e, t, steps[t][0]) for t in range(T)], [s[1] for s in steps])

        envs = gym.vector.SyncVectorEnv([mk(e) for e in range(E)], autoreset_mode=gym.vector.AutoresetMode.SAME_STEP)
        logger = None
        if self.item.get("logged"):
            from vlib import drivers

            logger = drivers.RecLogger()  # train_ppo wraps the environments in RecordEpisodeStatistics itself
        S["cap"].clear()
        try:
            ppo.train_ppo(envs, S["actor"], S["critic"], S["oa"], S["oc"], iterations=1, epochs=1, batch_size=T, seed=1, logger=logger, progress_bar=False)
            jax.effects_barrier()
        except RuntimeError:
            raise
        except Exception as e:  # noqa: BLE001
            raise Rejected(f"{type(e).__name__}: {e}") from e
        if not S["cap"]:
            raise RuntimeError("ppo_loss was not called (capture by module-level name failed)")
        obs, adv, ret = S["cap"][-1]
        adv, ret = adv.reshape(-1), ret.reshape(-1)
        if obs.shape != (E * T, 3) or adv.shape != (E * T,) or ret.shape != (E * T,):
            self.col.violation(SIG.format(self.entry, K_SHAPE), dict(context=self.describe(ctx), shapes=[obs.shape, adv.shape, ret.shape]))
            return None
        out = {}
        for j in range(E * T):
            e, t, d = int(obs[j, 0]) - 1, int(obs[j, 1]) - 1, (int(obs[j, 2]) + 1) // 2
            if not (0 <= e < E and 0 <= t < T and ctx[e][0][t][0] == d):
                raise RuntimeError(f"captured observation row {obs[j]} is not one the scripted environments produced")
            out[(e, t)] = (float(adv[j]), float(ret[j]))
        if len(out) != E * T:
            self.col.violation(SIG.format(self.entry, K_SHAPE), dict(context=self.describe(ctx), rows=obs.tolist()))
            return None
        return out

    def finish(self):
        from vlib import snap

        if snap.snap(self.S["critic"]) != self.S["critic_snap"]:
            raise RuntimeError("critic changed although its optimizer has learning rate 0 (reference values are stale)")


class SampleBatch(Family):
    """Subtrajectory samples of MR.Q; a step is (data bit d, terminated)."""

    term_idx = 1
    per_t = False

    def dims(self):
        return self.item["N"], self.item["H"]

    def contexts(self):
        N, H = self.dims()
        alpha = [(d, te) for d in (0, 1) for te in (0, 1)]
        full = member_product(alpha, H, self.tails)
        comp = []
        for tes in itertools.product((0, 1), repeat=H):
            for d in (0, 1):
                comp.append((tuple((d, te) for te in tes), self.tails[d % len(self.tails)]))
        return batch_contexts(N, full, comp, self.item, limit=5000 if self.item["tier"] == "quick" else 40000)


def _tiny_mrq(seed):
    from flax import nnx

    from rl_blox.blox.double_qnet import ContinuousClippedDoubleQNet
    from rl_blox.blox.embedding.model_based_encoder import ModelBasedEncoder
    from rl_blox.blox.function_approximator.layer_norm_mlp import LayerNormMLP

    enc = ModelBasedEncoder(2, 1, 5, 3, 2, 3, [3], "elu", False, nnx.Rngs(seed))
    enc_t = ModelBasedEncoder(2, 1, 5, 3, 2, 3, [3], "elu", False, nnx.Rngs(seed + 7))
    q = ContinuousClippedDoubleQNet(LayerNormMLP(3, 1, [3], "elu", rngs=nnx.Rngs(seed + 1)), LayerNormMLP(3, 1, [3], "elu", rngs=nnx.Rngs(seed + 2)))
    q_t = ContinuousClippedDoubleQNet(LayerNormMLP(3, 1, [3], "elu", rngs=nnx.Rngs(seed + 3)), LayerNormMLP(3, 1, [3], "elu", rngs=nnx.Rngs(seed + 4)))
    return enc, enc_t, q, q_t


class Mrq(SampleBatch):
    entry = "mrq.mrq_loss"  # member -1 = the batch loss
    tails = (0, 1)
    scales = (2.0, 0.5)  # reward_scale, target_reward_scale

    def setup(self):
        import jax
        import jax.numpy as jnp
        from flax import nnx

        from rl_blox.algorithm.mrq import mrq_loss

        N, H_ = self.dims()
        # process history inside the item (see NStep.setup): the n-step helper is first used with another discount
        try:
            from rl_blox.blox.return_estimates import discounted_n_step_return

            discounted_n_step_return(jnp.ones((N, H_), dtype=jnp.float32), jnp.zeros((N, H_), dtype=jnp.int32), 0.37)
        except Exception:  # noqa: BLE001 - the decoy is not under test
            pass
        self.nets = _tiny_mrq(self.item["seed"])
        enc, enc_t, q, q_t = self.nets
        g = self.item["gamma"]
        graphdef, self.state = nnx.split(self.nets)

        @jax.jit
        def fn(state, na, batch, rs, trs):
            enc, enc_t, q, q_t = nnx.merge(graphdef, state)
            loss, (zs, q_mean, td) = mrq_loss(q, q_t, enc, enc_t, na, batch, g, rs, trs)
            return loss, td

        self.fn = fn
        rng = np.random.default_rng(100 + self.item["seed"])
        self.obs = np.round(rng.normal(size=(N, 2)), 2).astype(np.float32)
        self.act = np.round(rng.normal(size=(N, 1)), 2).astype(np.float32)
        self.nobs = np.round(rng.normal(size=(2, N, 2)), 2).astype(np.float32)  # [tail bit, sample]
        self.nact = np.round(rng.normal(size=(2, N, 1)), 2).astype(np.float32)
        # forward values the reference shares with the implementation (per sample, evaluated alone)
        self.q12 = []
        self.qn = {}
        for i in range(N):
            zsa = enc.encode_zsa(enc.encode_zs(jnp.asarray(self.obs[i : i + 1])), jnp.asarray(self.act[i : i + 1]))
            self.q12.append((float(np.asarray(q.q1(zsa))[0, 0]), float(np.asarray(q.q2(zsa))[0, 0])))
            for d in (0, 1):
                nz = enc_t.encode_zsa(enc_t.encode_zs(jnp.asarray(self.nobs[d, i : i + 1])), jnp.asarray(self.nact[d, i : i + 1]))
                self.qn[(i, d)] = float(np.asarray(q_t(nz)).reshape(-1)[0])
        from collections import namedtuple

        self.Batch = namedtuple("Batch", ["observation", "action", "reward", "next_observation", "terminated", "truncated"])

    def reward(self, i, t, d):
        return self.A[0] if d == 0 else self.A[2 - (t + i) % 2]

    def describe(self, ctx):
        return dict(
            samples=[
                dict(
                    terminated=[s[1] for s in steps],
                    reward=[self.reward(i, t, s[0]) for t, s in enumerate(steps)],
                    next_observation_and_next_action_variant=tail,
                    q_target_of_next=self.qn[(i, tail)],
                )
                for i, (steps, tail) in enumerate(ctx)
            ]
        )

    def evaluate(self, ctx):
        N, H = self.dims()
        r = np.array([[self.reward(i, t, s[0]) for t, s in enumerate(m[0])] for i, m in enumerate(ctx)], dtype=np.float32)
        te = np.array([[s[1] for s in m[0]] for m in ctx], dtype=np.int32)
        nobs = np.stack([self.nobs[m[1], i] for i, m in enumerate(ctx)])
        nact = np.stack([self.nact[m[1], i] for i, m in enumerate(ctx)])
        batch = self.Batch(self.obs, self.act, r, nobs, te, np.zeros((N, H), dtype=np.int32))
        try:
            loss, td = self.fn(self.state, nact, batch, self.scales[0], self.scales[1])
        except Exception as e:  # noqa: BLE001
            raise Rejected(f"{type(e).__name__}: {e}") from e
        td = np.asarray(td)
        if td.shape != (N,) or np.asarray(loss).shape != ():
            self.col.violation(SIG.format(self.entry, K_SHAPE), dict(context=self.describe(ctx), shapes=[td.shape, np.asarray(loss).shape]))
            return None
        out = {(i, 0): (float(td[i]),) for i in range(N)}
        out[(-1, 0)] = (float(loss),)
        return out

    def _td(self, ctx, i, cut):
        g = self.item["gamma"]
        G, d = 0.0, 1.0
        for t, (b, te) in enumerate(ctx[i][0]):
            G += d * self.reward(i, t, b)
            d *= g * ((1 - te) if cut else 1)
        target = (G + d * self.qn[(i, ctx[i][1])] * self.scales[1]) / self.scales[0]
        return abs(self.q12[i][0] - target), abs(self.q12[i][1] - target)

    def reference(self, ctx, i, t, cut=True):
        if i >= 0:
            return (max(self._td(ctx, i, cut)),)

        def huber(a):
            qd = min(a, 1.0)
            return 0.5 * qd * qd + (a - qd)

        tds = [self._td(ctx, j, cut) for j in range(len(ctx))]
        return (float(np.mean([huber(a) for a, _ in tds]) + np.mean([huber(b) for _, b in tds])),)


class Enc(SampleBatch):
    entry = "model_based_encoder.model_based_encoder_loss"  # member -1 = the batch loss (only output)
    has_reference = False
    tails = (None,)
    weights = (1.0, 0.1, 0.1)

    def setup(self):
        from collections import namedtuple

        import jax
        from flax import nnx

        from rl_blox.blox.embedding.model_based_encoder import model_based_encoder_loss
        from rl_blox.blox.preprocessing import make_two_hot_bins

        N, H = self.dims()
        self.enc, self.enc_t, _, _ = _tiny_mrq(self.item["seed"])
        self.bins = make_two_hot_bins(n_bin_edges=5)
        norm = bool(self.item["norm"])
        w = self.weights
        graphdef, self.state = nnx.split((self.enc, self.enc_t))

        @jax.jit
        def fn(state, bins, batch, envterm):
            e, et = nnx.merge(graphdef, state)
            loss, (dyn, rew, done, rmse) = model_based_encoder_loss(e, et, bins, batch, H, w[0], w[1], w[2], envterm, norm)
            return loss, dyn, rew, done

        self.fn = fn
        rng = np.random.default_rng(200 + self.item["seed"])
        self.obs = np.round(rng.normal(size=(N, H, 2)), 2).astype(np.float32)
        self.act = np.round(rng.normal(size=(2, N, H, 1)), 2).astype(np.float32)  # [data bit, ...]
        self.nobs = np.round(rng.normal(size=(2, N, H, 2)), 2).astype(np.float32)
        self.Batch = namedtuple("Batch", ["observation", "action", "reward", "next_observation", "terminated", "truncated"])

    def reward(self, i, t, d):
        return self.A[(i + t) % 3] if d == 0 else self.A[(i + t + 1) % 3]

    def attribute(self, va, vb):
        # estimates are (total, dynamics, reward, done): blame the components that differ
        names = [f"{self.entry}[{n}_loss]" for n, a, b in zip(("dynamics", "reward", "done"), va[1:], vb[1:]) if a != b]
        return names or [f"{self.entry}[total_loss]"]

    def describe(self, ctx):
        return dict(
            samples=[
                dict(
                    terminated=[s[1] for s in steps],
                    data_variant=[s[0] for s in steps],
                    reward=[self.reward(i, t, s[0]) for t, s in enumerate(steps)],
                    action=[float(self.act[s[0], i, t, 0]) for t, s in enumerate(steps)],
                )
                for i, (steps, _) in enumerate(ctx)
            ],
            note="data_variant selects action, reward and next_observation of that step",
        )

    def evaluate(self, ctx):
        N, H = self.dims()
        r = np.array([[self.reward(i, t, s[0]) for t, s in enumerate(m[0])] for i, m in enumerate(ctx)], dtype=np.float32)
        te = np.array([[s[1] for s in m[0]] for m in ctx], dtype=np.int32)
        act = np.array([[self.act[s[0], i, t] for t, s in enumerate(m[0])] for i, m in enumerate(ctx)], dtype=np.float32)
        nobs = np.array([[self.nobs[s[0], i, t] for t, s in enumerate(m[0])] for i, m in enumerate(ctx)], dtype=np.float32)
        batch = self.Batch(self.obs, act, r, nobs, te, np.zeros((N, H), dtype=np.int32))
        try:
            loss, dyn, rew, done = self.fn(self.state, self.bins, batch, bool(self.item["envterm"]))
        except Exception as e:  # noqa: BLE001
            raise Rejected(f"{type(e).__name__}: {e}") from e
        # relevance: the learning signal ignores what comes AFTER the first terminated step - the terminated step
        # itself (and everything before it) is part of the sub-trajectory and must count: changing the reward of
        # the first terminated step of a sample must change the reward term
        for i in range(N):
            ks = [t for t in range(H) if te[i, t]]
            if not ks:
                continue
            k = ks[0]
            r2 = r.copy()
            r2[i, k] += 1.0
            _, _, rew2, _ = self.fn(self.state, self.bins, self.Batch(self.obs, act, r2, nobs, te, np.zeros((N, H), dtype=np.int32)), bool(self.item["envterm"]))
            self.col.tick(1)
            self.col.outcome("enc_first_terminated_steps_probed_for_relevance")
            if float(rew2) == float(rew):
                self.col.violation(SIG.format(self.entry + "[reward_loss]", "ignores-data-of-the-first-terminated-step"), dict(context=self.describe(ctx), sample=i, step=k))
            break
        return {(-1, 0): (float(loss), float(dyn), float(rew), float(done))}


FAMILIES = dict(rtg=Rtg, pgd=Pgd, nstep=NStep, gae=Gae, a2c=A2c, ppo=Ppo, mrq=Mrq, enc=Enc)


def work_a2cloop(item, col):
    """train_a2c end to end on scripted vector environments: the observation handed to prepare_a2c_batch for
    bootstrapping the last step of a rollout must be the observation the environments returned at that step."""
    import contextlib
    import io

    import gymnasium as gym

    from checks.c01 import make_vec, pg_state
    from rl_blox.algorithm import a2c

    entry = "a2c.train_a2c"
    for pair in item["pairs"]:
        for spu in (2, 3):
            envs = make_vec([p * 5 for p in pair], False, gym.vector.AutoresetMode.NEXT_STEP, 30)
            st = pg_state(envs.envs[0], False, item["seed"])
            captured = []
            real = a2c.prepare_a2c_batch

            def wrap(rb, vf, last_obs, *a, **k):
                captured.append((np.array(last_obs), sum(1 for e in envs.vlog if e[0] == "step")))
                return real(rb, vf, last_obs, *a, **k)

            a2c.prepare_a2c_batch = wrap
            try:
                with contextlib.redirect_stdout(io.StringIO()):
                    a2c.train_a2c(envs, st.policy, st.policy_optimizer, st.value_function, st.value_function_optimizer, seed=1,
                                  total_timesteps=3 * spu * 2, steps_per_update=spu, log_frequency=None, progress_bar=False)
            finally:
                a2c.prepare_a2c_batch = real
            steps = [e for e in envs.vlog if e[0] == "step"]
            for r, (lo, n) in enumerate(captured):
                col.tick(1, ("a2cloop", tuple(pair), spu, r))
                col.outcome("a2c_rollouts_checked_for_bootstrap_observation")
                want = steps[n - 1][2]
                if lo.shape != want.shape or not np.array_equal(lo, want):
                    col.violation(SIG.format(entry, "bootstrap-observation-not-the-last-observation-of-the-rollout"),
                                  dict(scripts=pair, steps_per_update=spu, rollout=r, got=lo.tolist(), expected=want.tolist()))
                    break
            envs.close()
    col.sample(dict(fam="a2cloop", pairs=item["pairs"][:2]))


def work_ppo_collector(item, col):
    import contextlib
    import io

    import gymnasium as gym
    import jax
    import jax.numpy as jnp

    from checks.c01 import TagCritic, make_vec, pg_state
    from rl_blox.algorithm import ppo
    from vlib import drivers

    T = 4
    entry = "ppo.collect_trajectories" + ("(logger)" if item["logger"] else "")
    w = np.array([100.0, 1.0, 10000.0])
    for pair in item["pairs"]:
        envs = make_vec(pair, True, gym.vector.AutoresetMode.SAME_STEP, T)
        st = pg_state(envs.envs[0], True, item["seed"])
        obs, _ = envs.reset(seed=1)
        wrapped = gym.wrappers.vector.RecordEpisodeStatistics(envs)
        logger = drivers.RecLogger() if item["logger"] else None
        drivers._register_logger()
        with contextlib.redirect_stdout(io.StringIO()):
            traj = ppo.collect_trajectories(wrapped, st.policy, TagCritic(), jax.random.key(1), T, logger, jnp.asarray(obs), 0)
        steps = [e for e in envs.vlog if e[0] == "step"][:T]
        NV = np.asarray(traj.next_value).reshape(2, T)
        for t, e in enumerate(steps):
            for i in range(2):
                ended = bool(e[4][i] or e[5][i])
                fin = e[6][i] if (e[6] is not None and e[6][i] is not None) else None
                succ = fin if (ended and fin is not None) else e[2][i]  # the step's own successor observation
                want = float(np.asarray(succ, dtype=np.float64) @ w)
                trunc_only = bool(e[5][i]) and not bool(e[4][i])
                col.tick(1, ("ppo-collector", item["logger"], tuple(pair), t, i) if ended else None)
                if trunc_only:
                    col.outcome("ppo_collector_truncated_steps")
                if bool(e[4][i]):
                    continue  # a terminated step does not bootstrap (the value is masked by the recurrence)
                if float(NV[i, t]) != want:
                    kind = "truncated-step-bootstrapped-from-the-next-episode" if trunc_only else "bootstrap-value-not-of-the-step's-successor"
                    col.violation(SIG.format(entry, kind), dict(scripts=pair, logger=item["logger"], t=t, env=i, next_value=float(NV[i, t]), value_of_the_step_successor=want))
        envs.close()
    col.sample(dict(kind="ppo.collect_trajectories bootstrap values", logger=item["logger"], pairs=item["pairs"][:3]))


def work(item, col):
    if item["fam"] == "a2cloop":
        return work_a2cloop(item, col)
    if item["fam"] == "ppo-collector":
        return work_ppo_collector(item, col)
    if item["fam"] == "mrq-own-buffer":
        from vlib import mrq_windows

        return mrq_windows.work_item(item, col, lambda kind: SIG.format("mrq.train_mrq", kind))
    fam = FAMILIES[item["fam"]](item)
    fam.col = col
    if hasattr(fam, "setup"):
        fam.setup()
    explore(fam, col)
    if hasattr(fam, "finish"):
        fam.finish()
