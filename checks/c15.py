"""C15 - deferred training releases exactly the collected steps; checkpoints only improve.

Two parts (DESIGN 3, C15):

* function part (engine E1): breadth-first search over histories of (episode length, episode return)
  pairs fed to the real `assess_performance_and_checkpoint`, driven the way `train_td7` drives it
  (epoch = number of training iterations released so far), against an independent window machine;
* loop part (engine E2): the real `train_td7(use_checkpoints=True)` with tiny networks on a scripted
  environment (episode ends and reward levels are the explorer's choices); the number of critic
  updates per environment step and the checkpoint events are observed through a recording logger
  and compared with the window machine fed with the environment's own log.
"""

import itertools
import math

from vlib import e1
from vlib.senv import ScriptEnv

PROPERTY = "C15"
LEVEL = "model_checking"
USES_JAX = True
CLEAR_EVERY = 20
RULE = (
    "function part: BFS over histories of (episode length, episode return) ops on the real "
    "assess_performance_and_checkpoint, one search per configuration (long window size, threshold, reset "
    "weight, starting iteration count), canonical state = (CheckpointState fields, reference window machine "
    "state, min(iteration count, threshold)); one evaluation = one transition compared with the reference "
    "(flag, released steps, counters, best minimum, window size); non-trivial = the transition closes a "
    "window (complete or cut short) or extends a window that already holds an episode; distinct = distinct "
    "(configuration, canonical source state, op). loop part: one evaluation = one environment step of one "
    "train_td7 run (critic updates observed == steps released by the reference) or one checkpoint-content "
    "comparison; non-trivial = an assessed episode end (a step at which the reference is consulted); "
    "distinct = distinct (run configuration, script, level pattern, step)"
)
ASSUMPTIONS = [
    "epoch (the training-iteration count) enters the assessment only through `epoch < threshold <= epoch + released`, so states with equal min(epoch, threshold) have equal futures (canonicalisation argument, DESIGN 3 C15); for the 'never reached' threshold 10**6 every explored epoch is more than one maximal release below the threshold and is merged into one class: that search closes the pre-threshold phase only",
    "returns and lengths outside the stated alphabets are not decided (lengths 1-3 / 1-4, returns -1..2 / -2..3 incl. 0.5; window sizes <= 3 / <= 4)",
    "an episode that began during warm-up and ends after learning started belongs to the first assessment window with ALL its steps (this is how the original TD7 counts; the property's 'steps collected during that window' is read as the steps of the window's episodes)",
    "episodes that end during warm-up belong to no window",
    "'nothing recorded so far' is any best-minimum value below every return of the alphabet (the code's -1e8 sentinel is not demanded)",
    "the checkpoint flag is demanded in both directions (set iff a complete window finished with every return >= best so far): the converse direction is the documented behaviour ('update actor checkpoint and train'), it has its own failure kind",
    "loop part: tiny networks (all widths 3), batch size 2, horizon 10, warm-up 2; the shipped nnx.jit mode only; terminated and truncated episode ends are both enumerated",
    "flax/jax/numpy/gymnasium behave as documented; the scripted environment and the recording logger are trusted",
]
BUDGET_S = {"quick": 480, "thorough": 4800}

F_ENTRY = "assess_performance_and_checkpoint"
L_ENTRY = "train_td7"
SIG = "C15|{}|{}"
# a defect that keeps state between calls shows with a failure kind that depends on what ran earlier in the process;
# the replay gate therefore asks for a reproduced violation at the same entry point
REPLAY_MATCH = "entry"
# failure kinds (fixed vocabulary)
K_RELEASED = "released-steps!=steps-collected-in-window"
K_OPEN = "steps-released-inside-open-window"
K_NOCUT = "window-not-cut-on-return-below-best"
K_NOREL = "complete-window-not-released"
K_RESET = "window-counters-not-reset-after-release"
K_CKPT_BAD = "checkpoint-without-complete-qualifying-window"
K_CKPT_MISS = "no-checkpoint-after-complete-qualifying-window"
K_BEST = "best-minimum-return-wrong"
K_WINDOW = "assessment-window-size-wrong"
K_TWICE = "window-switch-more-than-once"
K_UPDATES = "critic-updates!=released-steps"
K_EV_BAD = "checkpoint-copy-without-predicted-checkpoint"
K_EV_MISS = "predicted-checkpoint-not-copied"
K_CONTENT = "checkpoint-content!=acting-policy-at-window-end"
K_DRIFT = "checkpoint-changed-outside-checkpoint-event"
K_RESULT = "returned-policy!=last-checkpoint"
K_RAISED = "raised"

NEVER = 10**6


# -- the reference: a window machine written to the property text -----------------------------


class WindowMachine:
    """Open assessment window = list of (length, return) of the episodes run with the frozen policy."""

    def __init__(self, long_window, threshold, weight):
        self.window = 1
        self.long_window = long_window
        self.threshold = threshold
        self.weight = weight
        self.best = None  # best minimum return recorded so far (None: nothing recorded)
        self.open = []
        self.switches = 0

    def below(self, r):
        return self.best is not None and r < self.best

    def episode(self, length, ret, iterations):
        """-> (replace checkpoint?, released iterations, 'open'|'cut'|'complete', switched?)"""
        self.open.append((length, ret))
        cut = any(self.below(r) for _, r in self.open)
        complete = (not cut) and len(self.open) >= self.window
        if not (cut or complete):
            return False, 0, "open", False
        released = sum(n for n, _ in self.open)
        if complete:
            self.best = min(r for _, r in self.open)
        switched = False
        if self.switches == 0 and iterations < self.threshold <= iterations + released:
            self.switches += 1
            switched = True
            self.window = self.long_window
            if self.best is not None:
                self.best = self.best * self.weight
        self.open = []
        return complete, released, ("complete" if complete else "cut"), switched

    def key(self):
        # the machine's future depends on the open window only through its size, step total and
        # smallest return (every return of an open window is >= best, else it had been cut)
        o = self.open
        return (len(o), sum(n for n, _ in o), min((r for _, r in o), default=None), self.best, self.window, self.switches)


# -- function part (E1) -------------------------------------------------------------------------


def f_alphabets(tier):
    if tier == "quick":
        return dict(lengths=[1, 2, 3], returns=[-1.0, 0.0, 1.0, 2.0])
    return dict(lengths=[1, 2, 3, 4], returns=[-2.0, -1.0, 0.0, 0.5, 1.0, 2.0, 3.0])


def f_configs(tier):
    if tier == "quick":
        wins, thrs, ws = [1, 2, 3], [0, 1, 2.5, 3, 5, NEVER], [0.5, 0.9, 1.0, 1.5]  # 2.5: a threshold computed as a fraction of the budget
    else:
        wins, thrs, ws = [1, 2, 3, 4], [0, 1, 2, 2.5, 3, 5, 8, NEVER], [0.0, 0.5, 0.9, 1.0, 1.5]  # > 1 is documented for negative returns
    out = []
    for win, thr in itertools.product(wins, thrs):
        starts = [0]
        if thr not in (0, NEVER):
            # resumed runs: train_td7 starts with epoch = global_step - learning_starts > 0
            below = math.ceil(thr) - 1  # the largest whole iteration count still below the threshold
            starts += sorted({below, math.ceil(thr), math.ceil(thr) + 2} - {0}) if tier != "quick" else ([below] if thr > 1 else [])
        # initial window (CheckpointState.max_episodes_before_update is a public field; train_td7 uses 1)
        iws = [1] if thr in (0, NEVER) else ([1, 3] if tier == "quick" else [1, 2, 3])
        out.append((win, thr, ws, starts, iws))
    return out


class FB(e1.Bundle):
    pass


def f_make(cfg, col):
    from rl_blox.blox.checkpointing import CheckpointState

    bd = FB()
    bd.cfg = cfg
    bd.col = col
    bd.cs = CheckpointState(max_episodes_before_update=cfg.get("iw", 1))
    bd.ref = WindowMachine(cfg["win"], cfg["thr"], cfg["w"])
    bd.ref.window = cfg.get("iw", 1)
    bd.it = cfg["start"]  # training iterations performed so far (what train_td7 calls epoch)
    bd.impl_switches = 0
    bd.dead = False
    bd.hist = []
    return bd


def f_epoch_class(cfg, it):
    if cfg["thr"] == NEVER:
        return "pre"
    return min(it, cfg["thr"])


def f_canon(bd):
    cs = bd.cs
    return (
        cs.episodes_since_udpate,
        cs.timesteps_since_upate,
        cs.max_episodes_before_update,
        cs.min_return,
        cs.best_min_return,
        f_epoch_class(bd.cfg, bd.it),
        bd.ref.key(),
        bd.impl_switches,
        bd.dead,
    )


def f_ops(bd):
    if bd.dead:
        return []
    return bd.cfg["ops"]


def f_apply(bd, op):
    from rl_blox.blox.checkpointing import CheckpointState, assess_performance_and_checkpoint

    cfg, col, cs, ref = bd.cfg, bd.col, bd.cs, bd.ref
    length, ret = op
    bd.hist = bd.hist + [[length, ret]]
    src = f_canon(bd) if not isinstance(col, e1.NullCol) else None
    it = bd.it
    held = len(ref.open)
    window_before = cs.max_episodes_before_update
    low = min(cfg["returns"])
    upd, rel = assess_performance_and_checkpoint(cs, length, ret, it, cfg["w"], cfg["win"], cfg["thr"])
    r_upd, r_rel, kind, switched = ref.episode(length, ret, it)
    nontrivial = kind != "open" or held > 0
    col.tick(1, ("f", cfg["name"], src, length, ret) if nontrivial else None)

    def bad(k, **kw):
        bd.dead = True  # the branch is not continued once implementation and reference disagree
        col.violation(
            SIG.format(F_ENTRY, k),
            dict(
                config=dict(long_window=cfg["win"], threshold=cfg["thr"], reset_weight=cfg["w"], start_iterations=cfg["start"], initial_window=cfg.get("iw", 1)),
                history=bd.hist, iterations_before=it, returned=[bool(upd), int(rel)],
                reference=dict(checkpoint=r_upd, released=r_rel, window_event=kind, switch=switched,
                               best=ref.best, window=ref.window),
                state_after=dict(cs.__dict__), **kw,
            ),
        )

    if cs.max_episodes_before_update != window_before:
        bd.impl_switches += 1
    fresh = CheckpointState()
    # one failure kind per transition: the first disagreement in the order of the property text
    if kind == "open" and rel != 0:
        bad(K_OPEN)  # released steps / window boundaries
    elif kind != "open" and rel == 0:
        bad(K_NOCUT if kind == "cut" else K_NOREL)
    elif rel != r_rel:
        bad(K_RELEASED)
    elif rel != 0 and (cs.episodes_since_udpate, cs.timesteps_since_upate, cs.min_return) != (
        fresh.episodes_since_udpate, fresh.timesteps_since_upate, fresh.min_return,
    ):
        bad(K_RESET)  # counters after a release equal a fresh state's
    elif upd and not r_upd:
        bad(K_CKPT_BAD)
    elif r_upd and not upd:
        bad(K_CKPT_MISS)
    elif (not cs.best_min_return < low) if ref.best is None else (cs.best_min_return != ref.best):
        bad(K_BEST)
    elif cs.max_episodes_before_update != ref.window:
        bad(K_WINDOW)
    elif bd.impl_switches > 1:
        bad(K_TWICE)
    bd.it = it + rel  # train_td7 performs `rel` iterations before the next assessment

    # vacuity counters
    if kind == "complete":
        col.outcome("f_windows_completed_with_checkpoint")
        if held > 0:
            col.outcome("f_complete_windows_of_several_episodes")
    elif kind == "cut":
        col.outcome("f_windows_cut_short")
        if held > 0:
            col.outcome("f_cuts_after_earlier_episodes_in_window")
    else:
        col.outcome("f_window_stays_open")
    if kind != "open" and r_rel != length:
        col.outcome("f_releases_where_window_total!=last_episode_length")
    if switched:
        col.outcome("f_switch_on_" + kind + "_release")
        if cfg["w"] != 1.0 and ref.best not in (0.0, None):
            col.outcome("f_switches_where_the_reset_weight_changes_best")
    if kind != "open" and it >= cfg["thr"] and cfg["thr"] > 0 and cfg["w"] != 1.0 and ref.best != 0.0:
        col.outcome("f_releases_after_switch_where_a_repeated_weight_would_show")
    if kind == "open" and ret == ref.best:
        col.outcome("f_return_equal_to_best_keeps_window_open")
    if kind == "complete" and held + 1 == ref.long_window and not switched and ref.window > 1:
        col.outcome("f_long_windows_filled_exactly")
    return (bool(upd), int(rel))


def f_work(item, col):
    alph = f_alphabets(item["tier"])
    ops = [(n, r) for n in alph["lengths"] for r in alph["returns"]]
    for w, start, iw in itertools.product(item["weights"], item["starts"], item.get("iws", [1])):
        cfg = dict(
            name=f"w{item['win']}-t{item['thr']}-r{w}-s{start}" + (f"-iw{iw}" if iw != 1 else ""), win=item["win"], thr=item["thr"], w=w,
            start=start, ops=ops, returns=alph["returns"], iw=iw,
        )
        res = e1.bfs(
            make=lambda: f_make(cfg, col),
            ops=f_ops,
            apply=f_apply,
            canon=f_canon,
            max_depth=item["max_depth"],
            max_states=200000,
            validate_make=lambda: f_make(cfg, e1.NullCol()),
        )
        col.graph(res["states"], res["transitions"], res["validated"], res["max_depth"])
        if not res["fixpoint"]:
            col.cap(f"function part {cfg['name']}: search did not close within depth {item['max_depth']}")
        col.append(
            "function_configurations",
            dict(name=cfg["name"], states=res["states"], transitions=res["transitions"], fixpoint=res["fixpoint"], max_depth=res["max_depth"]),
        )
        if cfg["thr"] == NEVER:
            # the merged epoch class is only sound while the threshold is out of reach
            assert res["max_depth"] * max(alph["lengths"]) * max(1, cfg["win"]) + start < NEVER
        col.outcome("f_configurations")
        if res["fixpoint"]:
            col.outcome("f_configurations_closed_to_fixpoint")
        deepest = max(res["paths"].values(), key=len)
        col.sample(dict(part="function", config=cfg["name"], deepest_new_state_history=[list(o) for o in deepest]))


# -- loop part (E2) -----------------------------------------------------------------------------

T = 10
WARMUP = 2


def deviations(base, alphabet, max_dev):
    """All scripts that differ from `base` in at most max_dev positions (symbols from alphabet)."""
    out = []
    n = len(base)
    for k in range(max_dev + 1):
        for pos in itertools.combinations(range(n), k):
            for sub in itertools.product(alphabet, repeat=k):
                if any(base[p] == ch for p, ch in zip(pos, sub)):
                    continue
                s = list(base)
                for p, ch in zip(pos, sub):
                    s[p] = ch
                out.append("".join(s))
    return out


LEVEL_PATTERNS = {
    # reward of global step t is level*100 + t, so episode returns rise and fall with the levels
    "flat": "0000000000",
    "fall": "9988776655",
    "zigzag": "0090009000",
    "rise-fall": "0123454321",
}
# run configurations: (long window, threshold, reset weight, target_delay, policy_delay)
LOOP_CONFIGS = {
    "A": dict(win=2, thr=3, w=0.5, target_delay=2, policy_delay=2),
    "B": dict(win=3, thr=1, w=1.0, target_delay=3, policy_delay=1),
    "C": dict(win=2, thr=NEVER, w=0.9, target_delay=2, policy_delay=1),
}


def loop_scripts(tier):
    """Deviation-bounded scripts: around the all-continue default (DESIGN) and around two episode-dense
    bases, so that several assessment windows fit into the horizon."""
    dev = 1 if tier == "quick" else 2
    out = []
    for base in ("c" * T, "cT" * (T // 2), "T" * T):
        for s in deviations(base, "cTU", dev):
            if s not in out:
                out.append(s)
    return out


def loop_items(tier, seed):
    out = []
    scripts_ = loop_scripts(tier)
    if tier == "quick":
        plan = [("A", "fall")]
    else:
        plan = [("A", "fall"), ("A", "rise-fall"), ("A", "flat"), ("B", "rise-fall"), ("C", "zigzag")]
    for cfg, pat in plan:
        for i, s in enumerate(scripts_):
            out.append(dict(name=f"loop-{cfg}-{pat}-{s}", part="loop", cfg=cfg, pattern=pat, script=s, seed=seed))
            if i % 3 == 1:
                # a continued run: the iteration count that the threshold refers to starts at global_step - learning_starts
                out.append(dict(name=f"loop-{cfg}-{pat}-{s}-resumed", part="loop", cfg=cfg, pattern=pat, script=s, seed=seed, global_step=4))
            if i % 3 == 0:
                # a batch larger than the buffer content at the first releases (sampling is with replacement)
                out.append(dict(name=f"loop-{cfg}-{pat}-{s}-bs9", part="loop", cfg=cfg, pattern=pat, script=s, seed=seed, batch_size=9))
    return out


def predict(env_steps, cfg, g0=0):
    """Feed the environment's own log to the window machine.

    env_steps: [(reward, ended)] per executed step.  -> per step: dict(released, checkpoint, kind)
    g0: starting step count of a continued run (iterations so far = g0 - warm-up, documented for global_step)."""
    ref = WindowMachine(cfg["win"], cfg["thr"], cfg["w"])
    out = []
    length, ret, its = 0, 0.0, max(0, g0 - WARMUP)
    for t, (r, ended) in enumerate(env_steps):
        length += 1
        ret += r
        p = dict(released=0, checkpoint=False, kind=None, switched=False, length=length, ret=ret)
        if ended:
            if g0 + t >= WARMUP:
                ck, rel, kind, sw = ref.episode(length, ret, its)
                its += rel
                p.update(released=rel, checkpoint=ck, kind=kind, switched=sw, window=ref.window)
            else:
                p.update(kind="warmup-episode")
            length, ret = 0, 0.0
        out.append(p)
    return out


def make_logger():
    from rl_blox.logging.logger import LoggerBase

    class Rec(LoggerBase):
        """Records the order of everything train_td7 reports; snapshots checkpoint modules."""

        def __init__(self):
            self.events = []  # ("env", t) | ("stat", key, value, step) | ("epoch", key, step)
            self.mods = {}
            self.on_epoch = None

        def start_new_episode(self):
            pass

        def stop_episode(self, total_steps):
            pass

        def define_experiment(self, env_name=None, algorithm_name=None, hparams=None):
            pass

        def record_stat(self, key, value, episode=None, step=None, t=None, verbose=None, format_str="{0:.3f}"):
            self.events.append(("stat", key, value, step))

        def record_epoch(self, key, value, episode=None, step=None, t=None):
            self.mods[key] = value
            self.events.append(("epoch", key, step))
            if self.on_epoch is not None:
                self.on_epoch(key, value)

    return Rec()


def l_work(item, col):
    import jax
    from rl_blox.algorithm.td7 import create_td7_state, train_td7

    from vlib.snap import snap

    cfg = LOOP_CONFIGS[item["cfg"]]
    script, levels = item["script"], LEVEL_PATTERNS[item["pattern"]]
    seed = int(item["seed"])
    env = ScriptEnv(script, levels=levels, horizon=T + 2)
    st = create_td7_state(
        env, n_embedding_dimensions=3, state_embedding_hidden_nodes=[3], state_action_embedding_hidden_nodes=[3],
        policy_sa_encoding_nodes=3, policy_hidden_nodes=[3], q_sa_encoding_nodes=3, q_hidden_nodes=[3], seed=seed,
    )
    lg = make_logger()
    init_actor, init_emb = snap(st.actor), snap(st.embedding)
    acting = {}  # t -> snapshots of the acting policy at the top of env step t
    ckpt_now = dict(actor=init_actor, emb=init_emb)  # what the checkpoint must currently hold
    seen_ckpt = {}  # key -> module object handed to the logger
    problems = []

    def acting_snap():
        jax.effects_barrier()
        a = snap(st.actor)
        # the acting embedding is an internal clone; the logger sees it at its first hard update,
        # before that it is the initial embedding
        e = snap(lg.mods["fixed_embedding"]) if "fixed_embedding" in lg.mods else init_emb
        return a, e

    def check_drift(where, pos):
        for key, name in (("actor_checkpoint", "actor"), ("fixed_embedding_checkpoint", "emb")):
            if key in seen_ckpt and snap(seen_ckpt[key]) != ckpt_now[name]:
                problems.append((pos, K_DRIFT, dict(where=where, module=key)))

    def on_step(e):
        lg.events.append(("env", e.t))
        acting[e.t] = acting_snap()
        check_drift(f"before env step {e.t}", e.t - 0.5)

    def on_epoch(key, value):
        if key in ("actor_checkpoint", "fixed_embedding_checkpoint"):
            a, e = acting_snap()
            want = a if key == "actor_checkpoint" else e
            name = "actor" if key == "actor_checkpoint" else "emb"
            seen_ckpt[key] = value
            ckpt_now[name] = snap(value)
            col.tick(1)
            col.outcome("l_checkpoint_contents_compared")
            if ckpt_now[name] != want:
                problems.append((env.t - 1 + 0.25, K_CONTENT, dict(module=key, at_env_step=env.t - 1)))
            if want != (init_actor if name == "actor" else init_emb):
                col.outcome("l_checkpoints_of_a_trained_policy")

    # process history is part of the item: another, unrelated train_td7 call (own networks, own environment) that
    # stops in the middle of an assessment window runs first, so state that survives between calls (module-level
    # or default-argument objects) reaches the run under test in every process, also when the item is replayed alone
    denv = ScriptEnv("cTccTccc", levels="90909090", horizon=10)
    dst = create_td7_state(
        denv, n_embedding_dimensions=3, state_embedding_hidden_nodes=[3], state_action_embedding_hidden_nodes=[3],
        policy_sa_encoding_nodes=3, policy_hidden_nodes=[3], q_sa_encoding_nodes=3, q_hidden_nodes=[3], seed=seed + 50,
    )
    try:
        train_td7(denv, dst.embedding, dst.embedding_optimizer, dst.actor, dst.actor_optimizer, dst.critic, dst.critic_optimizer,
                  seed=seed + 50, total_timesteps=8, buffer_size=16, batch_size=2, learning_starts=WARMUP, target_delay=2, policy_delay=2,
                  use_checkpoints=True, max_episodes_when_checkpointing=3, steps_before_checkpointing=2, reset_weight=0.5, progress_bar=False)
    except Exception:  # noqa: BLE001 - the decoy is not under test
        pass
    col.outcome("l_runs_preceded_by_an_unrelated_train_td7_call")
    env.on_step = on_step
    lg.on_epoch = on_epoch
    detail0 = dict(script=script, levels=levels, config=cfg, warmup=WARMUP, horizon=T, seed=seed, batch_size=item.get("batch_size", 2))
    try:
        res = train_td7(
            env, st.embedding, st.embedding_optimizer, st.actor, st.actor_optimizer, st.critic, st.critic_optimizer,
            seed=seed, total_timesteps=T + int(item.get("global_step", 0)), global_step=int(item.get("global_step", 0)), buffer_size=16,
            batch_size=item.get("batch_size", 2), learning_starts=WARMUP,
            target_delay=cfg["target_delay"], policy_delay=cfg["policy_delay"], use_checkpoints=True,
            max_episodes_when_checkpointing=cfg["win"], steps_before_checkpointing=cfg["thr"],
            reset_weight=cfg["w"], progress_bar=False, logger=lg,
        )
    except Exception as e:  # the routine is defined for every episode history
        col.tick(1)
        col.violation(SIG.format(L_ENTRY, K_RAISED), dict(detail0, error=f"{type(e).__name__}: {e}"[:300]))
        return
    check_drift("after the run", T + 1)

    # ground truth from the environment's log, prediction from the window machine
    steps = [(e[3], bool(e[4] or e[5])) for e in env.log if e[0] == "step"]
    pred = predict(steps, cfg, int(item.get("global_step", 0)))
    # observed: critic updates and checkpoint copies between consecutive environment steps
    upd = [0] * len(steps)
    copies = [0] * len(steps)
    cur = -1
    for ev in lg.events:
        if ev[0] == "env":
            cur += 1
        elif ev[0] == "stat" and ev[1] == "q loss":
            upd[cur] += 1
        elif ev[0] == "epoch" and ev[1] == "actor_checkpoint":
            copies[cur] += 1
    assert cur == len(steps) - 1
    name = (item["cfg"], item["pattern"], script, item.get("batch_size", 2), item.get("global_step", 0))
    for t, p in enumerate(pred):
        assessed = p["kind"] in ("open", "cut", "complete")
        col.tick(1, ("l", name, t) if assessed else None)
        d = dict(detail0, env_step=t, predicted=p, critic_updates=upd[t], checkpoint_copies=copies[t],
                 per_step_updates=upd, per_step_predicted=[q["released"] for q in pred])
        if copies[t] and not p["checkpoint"]:
            problems.append((t, K_EV_BAD, d))
        elif p["checkpoint"] and not copies[t]:
            problems.append((t + 0.1, K_EV_MISS, d))
        if upd[t] != p["released"]:
            problems.append((t + 0.2, K_UPDATES, d))
        if p["kind"] == "complete":
            col.outcome("l_windows_completed_with_checkpoint")
            if p["released"] != p["length"]:
                col.outcome("l_complete_windows_of_several_episodes")
        elif p["kind"] == "cut":
            col.outcome("l_windows_cut_short")
            if p["released"] != p["length"]:
                col.outcome("l_cuts_after_earlier_episodes_in_window")
        elif p["kind"] == "open":
            col.outcome("l_window_stays_open")
        elif p["kind"] == "warmup-episode":
            col.outcome("l_episodes_ended_in_warmup")
        if p["switched"]:
            col.outcome("l_switches_to_long_window")
        if assessed and p["released"] and t - p["released"] + 1 < WARMUP:
            col.outcome("l_windows_including_warmup_steps")
    col.outcome("l_runs")
    col.outcome("l_critic_updates_observed", sum(upd))
    if sum(p["released"] for p in pred) < sum(1 for t in range(len(steps)) if t >= WARMUP):
        col.outcome("l_runs_ending_with_an_open_window")
    # the returned evaluation policy is the last checkpoint (initial policy if none was made)
    col.tick(1)
    last = [t for t, p in enumerate(pred) if p["checkpoint"]]
    # acting policy at the window end = policy at the top of the step that ended the window
    want_actor = acting[last[-1]][0] if last else init_actor
    want_emb = acting[last[-1]][1] if last else init_emb
    jax.effects_barrier()
    if snap(res.actor) != want_actor or snap(res.fixed_embedding) != want_emb:
        problems.append((T + 2, K_RESULT, dict(last_predicted_checkpoint_step=last[-1] if last else None)))
    if last and want_actor != init_actor:
        col.outcome("l_runs_returning_a_trained_checkpoint")
    if snap(res.actor) != snap(st.actor):
        col.outcome("l_runs_where_returned_checkpoint_differs_from_final_actor")
    if problems:
        # one signature per run: the earliest observable divergence (later ones are its consequences)
        _, kind, d = min(problems, key=lambda q: q[0])
        full = dict(detail0)
        full.update(d)
        full.update(per_step_updates=upd, per_step_predicted=[q["released"] for q in pred],
                    per_step_checkpoint_copies=copies, per_step_predicted_checkpoints=[q["checkpoint"] for q in pred],
                    later_divergences=sorted({q[1] for q in problems} - {kind}))
        col.violation(SIG.format(L_ENTRY, kind), full)
    if any(p["kind"] == "cut" and p["released"] != p["length"] for p in pred) or script == "cT" * (T // 2):
        col.sample(dict(part="loop", script=script, levels=levels, config=item["cfg"], critic_updates_per_step=upd,
                        checkpoint_copies_per_step=copies,
                        episode_returns=[p["ret"] for p in pred if p["kind"]]))


# -- enumeration --------------------------------------------------------------------------------


def items(tier, seed):
    out = []
    depth = 24
    for win, thr, ws, starts, iws in f_configs(tier):
        out.append(dict(name=f"function-w{win}-t{thr}", part="function", tier=tier, win=win, thr=thr,
                        weights=ws, starts=starts, iws=iws, max_depth=depth))
    # the expensive searches first so that the pool balances
    out.sort(key=lambda i: -(i["win"] * (0 if i["thr"] in (0, NEVER) else 1)))
    return out + loop_items(tier, seed)


def work(item, col):
    if item["part"] == "function":
        f_work(item, col)
    else:
        l_work(item, col)
