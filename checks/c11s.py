"""TEMPORARY: standalone runner for vlib/c11_sched.py (scheduler half of C11)."""
from vlib.c11_sched import ASSUMPTIONS, RULE_SCHED as RULE, items, work  # noqa: F401

PROPERTY = "C11"
LEVEL = "exploration"
USES_JAX = True
BUDGET_S = {"quick": 900, "thorough": 3 * 3600}
