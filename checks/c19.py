"""C19 - saved models and buffers reload to identical state and behaviour (E1 + complete module round trips).

Part A (buffers, engine E1): breadth-first search over operation histories of the real buffer classes
(ReplayBuffer, LAP, PrioritizedReplayBuffer, SubtrajectoryReplayBuffer, SubtrajectoryReplayBufferPER and
MultiTaskReplayBuffer over LAP / over SubtrajectoryReplayBufferPER), states deduplicated by an exact
digest of the complete object state.  EVERY reached state is a crash point: the object is pickled and
reloaded there, the reloaded object must be equal (same attribute set, bytes-equal arrays incl. dtype and
shape, equal typed scalars, a recreated usable Batch type), and then EVERY continuation of length <= C
over the same alphabet is applied in lockstep to the original and to the reloaded object; after every
step results (sampled batches under identically seeded numpy Generators, generator state afterwards,
raised exceptions) and the complete states must be equal.

Part B (modules): for every module type a short training history v0 -> v1 -> ... (one optimizer step
between versions); at every version the module is saved with save_pickle, with
OrbaxCheckpointer.record_epoch and with StandardLogger.record_epoch; afterwards every saved artefact is
reloaded into a DIFFERENTLY initialised instance (load_pickle with that instance's graphdef, Orbax
StandardCheckpointer.restore against its abstract state + nnx.update, probabilistic_ensemble.
restore_checkpoint) and must equal the version that was saved: bytes-equal variables (and variable
types), bytes-equal outputs on 3 inputs, and one further optimizer step from a fresh (equal) optimizer
state must give exactly the next version of the original history.
"""

import collections
import contextlib
import hashlib
import io
import os
import pickle
import shutil
import tempfile

import jax
import jax.numpy as jnp
import numpy as np
import optax
import orbax.checkpoint as ocp
from flax import nnx

from rl_blox.blox import replay_buffer as rb
from rl_blox.blox import probabilistic_ensemble as pe
from rl_blox.logging.checkpointer import OrbaxCheckpointer
from rl_blox.logging.logger import StandardLogger
from rl_blox.util import serialize

from vlib import e1
from vlib.snap import snap

PROPERTY = "C19"
LEVEL = "model_checking"
USES_JAX = True
RULE = (
    "buffers: BFS over op histories {add (c/T/U for subtrajectory buffers), sample_batch(2, ...) with "
    "np.random.default_rng(k) for 3 values of k (covering both sampling views / two beta values), update_priority with "
    "[2.1,0.3] / [0.7,0.15] / scalar 3.7, reset_max_priority, select_task(0|1)} of the real buffer objects to depth D; two "
    "states are merged only when the complete visible object state (every attribute, array bytes of the written prefix, "
    "dtype, shape, scalars, key order) and the add counter are identical. EVERY reached state is a save point: pickle "
    "round trip with every protocol 2..HIGHEST, a second-generation round trip, then every op sequence of length <= C "
    "over the same alphabet applied in lockstep to the original and the reloaded copy (`states`/`transitions` count each "
    "configuration's deepest search once; shallower searches of the same configuration are sub-graphs). One evaluation = one oracle "
    "comparison (one reloaded state, one lockstep result, one lockstep state). non-trivial = the saved state has wrapped, "
    "or is mid-episode, or holds non-uniform priorities / a moved priority maximum, or holds a pending sampled batch, or "
    "(multi-task) a task other than 0 is selected or data exist in >= 2 tasks; distinct = distinct (configuration, saved "
    "state). modules: every (module type, parameter set, saved version, save route, restore route); non-trivial when the "
    "restore target differed from the saved module before the restore (counted per variable); distinct = that tuple."
)
ASSUMPTIONS = [
    "numpy Generators seeded with the same integer are in the same state; the generator is owned by the harness and recreated for every sample op",
    "never-written slots (index >= current_len) of the np.empty ring / priority storage are not contents: they are excluded from every comparison, and overwritten by the harness with a fixed pattern right after allocation so that a read of one would be reproducible",
    "a Python float/int/bool and the numpy scalar of the same value count as the same scalar",
    "the structural copier used to branch the search (attribute-wise copy, no __getstate__/__setstate__/deepcopy) is trusted; it is validated by re-executing every BFS path from a fresh object",
    "during the bulk search jax.numpy inside replay_buffer.sample_batch is replaced by numpy (host->device transfer is the identity for equality); separate shallower work items run the same search with the real jax.numpy",
    "buffer capacities 2-4, horizon <= 2, 2 tasks, batch size 2; histories of length <= D + C",
    "modules: tiny networks (1 hidden layer of 3 units), float32, CPU; the optimizer state itself is not saved by any of the routes (the property names function approximators), the continuation step therefore starts from a fresh optimizer on both sides",
    "Orbax's own StandardCheckpointer.restore is trusted as a reader of what the loggers wrote",
]
BUDGET_S = {"quick": 480, "thorough": 2400}
CLEAR_EVERY = 8

SIG = "C19|{}|{}"
# failure kinds (fixed vocabulary)
K_RAISE = "save-or-reload-raised"
K_STATE = "reloaded-state-differs"
K_BATCH = "batch-type-not-recreated"
K_ORIG = "save-changed-original"
K_IDEM = "second-generation-reload-differs"
K_CRES = "continuation-result-differs"
K_CSTATE = "continuation-state-differs"
K_NOCKPT = "no-checkpoint-written"
K_OUT = "reloaded-output-differs"
K_STEP = "reloaded-training-step-differs"
K_VTYPE = "reloaded-variable-type-differs"
K_ALIAS = "two-loads-of-one-file-share-storage"

POISON_F = -777.0
POISON_I = -7
POISON_P = 64.0

# ==========================================================================================
# Part A: buffers
# ==========================================================================================

BUFS = {
    # name: class, capacity, horizon, tasks, flags
    "ReplayBuffer": dict(cls="ReplayBuffer", cap=3),
    "ReplayBuffer-custom": dict(cls="ReplayBuffer", cap=2, custom=True),
    "LAP": dict(cls="LAP", cap=3),
    "LAP-cap2": dict(cls="LAP", cap=2, discrete=True),
    "PrioritizedReplayBuffer": dict(cls="PrioritizedReplayBuffer", cap=3, discrete=True),
    "SubtrajectoryReplayBuffer": dict(cls="SubtrajectoryReplayBuffer", cap=4, H=2),
    "SubtrajectoryReplayBufferPER": dict(cls="SubtrajectoryReplayBufferPER", cap=4, H=2),
    "SubtrajectoryReplayBufferPER-H1": dict(cls="SubtrajectoryReplayBufferPER", cap=3, H=1),
    "MultiTask-LAP": dict(cls="LAP", cap=2, tasks=2),
    "MultiTask-SubPER": dict(cls="SubtrajectoryReplayBufferPER", cap=3, H=1, tasks=2),
    # ten tasks of which only 9 and 1 are ever selected besides 0: ids that collide modulo 8, so the iteration order of a
    # set holding them depends on the order in which they were inserted
    "MultiTask-LAP-10": dict(cls="LAP", cap=2, tasks=10, task_ids=[9, 1]),
}
PVALS = [[2.1, 0.3], [0.7, 0.15], 3.7]  # none is representable in float32 (a lossy save must show)


def entry_name(cfg):
    return f"pickle:MultiTaskReplayBuffer({cfg['cls']})" if cfg.get("tasks") else f"pickle:{cfg['cls']}"


def DIVERGENCE_ENTRY(item):
    return entry_name(item) if item.get("part") == "buf" else "save/restore"


def alphabet(cfg):
    """Static op alphabet of a configuration."""
    sub = bool(cfg.get("H"))
    prio = cfg["cls"] not in ("ReplayBuffer", "SubtrajectoryReplayBuffer")
    out = []
    if sub:
        H = cfg["H"]
        out += [("a", "c"), ("a", "T"), ("a", "U")]
        out += [("s", 0, H, True), ("s", 1, 1, False), ("s", 2, H, False)]  # generator seed, horizon, include_intermediate
    else:
        out += [("a", "c")]
        out += [("s", 0), ("s", 1), ("s", 2)]  # generator seed (PrioritizedReplayBuffer: seed 1 uses beta=1.0)
    if prio:
        out += [("p", 0), ("p", 1), ("p", 2), ("m",)]  # index into PVALS; reset_max_priority
    if cfg.get("tasks"):
        out += [("t", i) for i in cfg.get("task_ids", range(cfg["tasks"]))]
    return out


def buffer_items(tier, seed):
    """One item = one shard of one configuration: every shard runs the (cheap) complete BFS and applies the
    (expensive) reload + continuation oracle to the states whose discovery index is congruent to its shard number."""
    q = tier == "quick"
    out = []

    def add(kind, D, C, n, real_jnp=False, graph=True):
        base = dict(BUFS[kind])
        for i in range(n):
            nm = f"buf-{kind}-D{D}-C{C}{'-jnp' if real_jnp else ''}-shard{i}of{n}"
            out.append(dict(name=nm, part="buf", kind=kind, D=D, C=C, shard=i, nshards=n, real_jnp=real_jnp, graph=graph, seed=seed, **base))

    # cheap configurations first: a run that hits the wall-clock cap has still explored (and counted) complete graphs
    small = (("ReplayBuffer", 1), ("ReplayBuffer-custom", 1), ("LAP", 2), ("LAP-cap2", 2), ("PrioritizedReplayBuffer", 2),
             ("SubtrajectoryReplayBuffer", 2))
    if q:
        for kind, n in small + (("MultiTask-LAP", 3), ("SubtrajectoryReplayBufferPER", 8), ("SubtrajectoryReplayBufferPER-H1", 8),
                                ("MultiTask-SubPER", 16), ("MultiTask-LAP-10", 3)):
            add(kind, 5, 2, n)
    else:
        for kind, n in small:
            add(kind, 7, 3, n)
        # the four largest state spaces: 2-step continuations at full depth, 3-step continuations at a shallower depth
        # (the shallower search is a sub-graph of the deeper one and is not added to the state count)
        add("MultiTask-LAP", 7, 2, 1)
        add("MultiTask-LAP", 6, 3, 4, graph=False)
        add("MultiTask-LAP-10", 6, 2, 4)
        add("SubtrajectoryReplayBufferPER-H1", 7, 2, 3)
        add("SubtrajectoryReplayBufferPER-H1", 5, 3, 4, graph=False)
        add("SubtrajectoryReplayBufferPER", 7, 2, 4)
        add("SubtrajectoryReplayBufferPER", 6, 3, 12, graph=False)
        add("MultiTask-SubPER", 6, 2, 8)
        add("MultiTask-SubPER", 4, 3, 6, graph=False)
    # the same search with the real jax.numpy transfer in sample_batch (shallower: ~1 ms per sampled batch); sub-graphs as well
    for kind in BUFS:
        add(kind, 3, 1, 1, real_jnp=True, graph=False)
    return out


class _NoTransfer:
    """Stand-in for jax.numpy inside replay_buffer during the bulk search (see ASSUMPTIONS)."""

    asarray = staticmethod(np.asarray)

    def __init__(self, real):
        self._real = real

    def __getattr__(self, name):  # everything else is the real jax.numpy
        return getattr(self._real, name)


def inner_buffers(b):
    return b.buffers if hasattr(b, "buffers") else [b]


def new_buffer(cfg):
    cls = getattr(rb, cfg["cls"])
    kw = {}
    if cfg.get("H"):
        kw["horizon"] = cfg["H"]
    if cfg.get("custom"):
        kw.update(keys=["a", "b"], dtypes=[np.float32, np.int16])
    if cfg.get("discrete"):
        kw["discrete_actions"] = True
    b = cls(cfg["cap"], **kw)
    if hasattr(b, "priority"):
        b.priority.priority[:] = POISON_P  # np.empty storage: own the uninitialised values
    if cfg.get("tasks"):
        b = rb.MultiTaskReplayBuffer(b, cfg["tasks"])
    return b


# -- complete object state ------------------------------------------------------------------


def state_of(v, n=None):
    """Complete *visible* object state as a tagged nested tuple: array bytes, dtype, shape, typed scalars, key order.

    Slots of the ring storage (and of the priority store) that were never written (index >= current_len) are
    allocated with np.empty; they are not contents, so only the written prefix takes part (`n`)."""
    t = type(v)
    if t is np.ndarray:
        if n is not None and v.ndim >= 1:
            return ("A", v.dtype.str, v.shape, v[:n].tobytes())
        return ("A", v.dtype.str, v.shape, v.tobytes())
    if t is int or t is bool or t is str or v is None:
        return ("V", t.__name__, v)
    if t is float or isinstance(v, np.floating):  # a Python float and a numpy float64 of the same value are the same scalar
        return ("V", "float", repr(float(v)))
    if isinstance(v, np.integer):
        return ("V", "int", int(v))
    if isinstance(v, np.bool_):
        return ("V", "bool", bool(v))
    if isinstance(v, np.generic):
        return ("V", t.__name__, repr(v))
    if isinstance(v, np.ndarray):
        return ("A", t.__name__ + v.dtype.str, v.shape, v.tobytes())
    if isinstance(v, dict):
        return ("D", t.__name__, tuple([(k, state_of(x, n)) for k, x in v.items()]))  # order is state (Batch field order)
    if t is list or t is tuple:
        return ("L", t.__name__, tuple([state_of(x) for x in v]))
    if t is set or t is frozenset:
        return ("S", t.__name__, tuple(sorted((state_of(x) for x in v), key=repr)))
    if isinstance(v, type):
        return ("T", v.__name__, tuple(getattr(v, "_fields", ())))
    if hasattr(v, "__dict__"):
        d = vars(v)
        m = d.get("current_len") if (isinstance(d.get("buffer"), dict) and type(d.get("current_len")) is int) else None
        items = []
        for k, x in sorted(d.items()):
            if m is not None and k == "buffer":
                items.append((k, state_of(x, m)))
            elif m is not None and k == "priority" and isinstance(getattr(x, "priority", None), np.ndarray):
                items.append((k, ("O", type(x).__name__, tuple([(kk, state_of(xx, m if kk == "priority" else None)) for kk, xx in sorted(vars(x).items())]))))
            else:
                items.append((k, state_of(x)))
        return ("O", t.__name__, tuple(items))
    return ("V", t.__name__, repr(v))


def state_digest(st, size=16):
    return hashlib.blake2b(repr(st).encode(), digest_size=size).digest()


def _flatten(st, path, out):
    tag = st[0]
    if tag == "A":
        try:
            vals = np.frombuffer(st[3], dtype=np.dtype(st[1])).tolist()[:16]
        except Exception:  # noqa: BLE001
            vals = st[3].hex()[:64]
        out[path] = ("ndarray", st[1], list(st[2]), vals)
    elif tag in ("D", "O"):
        out[path + ".<type>"] = st[1]
        out[path + ".<keys>"] = [str(k) for k, _ in st[2]] if tag == "D" else sorted(str(k) for k, _ in st[2])
        for k, x in st[2]:
            _flatten(x, f"{path}.{k}" if path else str(k), out)
    elif tag == "L":
        out[path + ".<type,len>"] = (st[1], len(st[2]))
        for i, x in enumerate(st[2]):
            _flatten(x, f"{path}[{i}]", out)
    else:
        out[path] = st


def diff_leaves(a, b, limit=8):
    """Paths at which the visible states of two objects differ (slow path, only used to describe a violation)."""
    la, lb = {}, {}
    _flatten(state_of(a), "", la)
    _flatten(state_of(b), "", lb)
    paths = [p for p in sorted(set(la) | set(lb)) if la.get(p, "<absent>") != lb.get(p, "<absent>")]
    return paths, {p: dict(original=la.get(p, "<absent>"), reloaded=lb.get(p, "<absent>")) for p in paths[:limit]}


def clone(v):
    """Attribute-wise structural copy that does not go through __getstate__/__setstate__/__deepcopy__."""
    t = type(v)
    if t is np.ndarray:
        return v.copy()
    if t is int or t is float or t is bool or t is str or v is None:
        return v
    if t is collections.OrderedDict:
        return collections.OrderedDict([(k, clone(x)) for k, x in v.items()])
    if t is dict:
        return {k: clone(x) for k, x in v.items()}
    if t is list:
        return [clone(x) for x in v]
    if t is tuple:
        return tuple([clone(x) for x in v])
    if t is set:
        return set(v)
    if isinstance(v, (type, bytes, np.generic)):
        return v
    if isinstance(v, np.ndarray):
        return v.copy()
    if hasattr(v, "__dict__"):
        new = object.__new__(t)
        d = new.__dict__
        for k, x in vars(v).items():
            d[k] = clone(x)
        return new
    raise TypeError(f"clone: unexpected {t}")


# -- ops ------------------------------------------------------------------------------------


def _encode_result(x):
    if hasattr(x, "_fields"):
        return ("namedtuple", type(x).__name__, tuple(x._fields), tuple(_encode_result(y) for y in x))
    if isinstance(x, (tuple, list)):
        return (type(x).__name__, tuple(_encode_result(y) for y in x))
    if isinstance(x, (np.ndarray, jax.Array, np.generic)):
        a = np.asarray(x)
        return ("array", isinstance(x, jax.Array), a.dtype.str, a.shape, a.tobytes())
    return (type(x).__name__, repr(x))


def run_op(buf, op, g, cfg):
    """Applies one op with the real methods. Returns a comparable result (never raises)."""
    try:
        k = op[0]
        if k == "a":
            tgt = buf.buffers[buf.selected_task] if cfg.get("tasks") else buf
            first = tgt.current_len == 0
            v = float(g + cfg["seed"] % 7) + 0.1  # tag of this transition; v, v+0.2, ... are not representable in float32
            if cfg.get("custom"):
                kw = dict(a=np.array([v, v + 0.5]), b=g % 100)
            else:
                act = (g % 3) if cfg.get("discrete") else np.array([v + 0.2])
                kw = dict(observation=np.array([v, 1.0 / 3.0]), action=act, reward=v + 0.3, next_observation=np.array([v + 1.0, 1.0 / 3.0]))
                if cfg.get("H"):
                    kw.update(terminated=op[1] == "T", truncated=op[1] == "U")
                else:
                    kw["termination"] = bool(g % 2)
            r = buf.add_sample(**kw)
            if first:
                n = tgt.current_len
                for arr in tgt.buffer.values():
                    arr[n:] = POISON_F if arr.dtype.kind == "f" else POISON_I
            return ("add", _encode_result(r))
        if k == "s":
            rng = np.random.default_rng(1000 * cfg["seed"] + op[1])
            if cfg.get("H"):
                out = buf.sample_batch(2, op[2], op[3], rng)
            elif cfg["cls"] == "PrioritizedReplayBuffer" and op[1] == 1 and not cfg.get("tasks"):
                out = buf.sample_batch(2, rng, beta=1.0)
            else:
                out = buf.sample_batch(2, rng)
            return ("batch", _encode_result(out), repr(rng.bit_generator.state["state"]))
        if k == "p":
            val = PVALS[op[1]]
            r = buf.update_priority(np.asarray(val, dtype=float) if isinstance(val, list) else np.float64(val))
            return ("update", _encode_result(r))
        if k == "m":
            return ("reset", _encode_result(buf.reset_max_priority()))
        if k == "t":
            return ("select", _encode_result(buf.select_task(op[1])))
        raise ValueError(op)
    except Exception as e:  # noqa: BLE001 - an exception is a result that both copies must share
        return ("raised", type(e).__name__, str(e)[:200])


class B(e1.Bundle):
    pass


def make_real(cfg):
    bd = B()
    bd.cfg = cfg
    bd.buf = new_buffer(cfg)
    bd.g = 0
    return bd


def copy_bundle(bd):
    new = B()
    new.cfg = bd.cfg
    new.buf = clone(bd.buf)
    new.g = bd.g
    return new


def apply(bd, op):
    r = run_op(bd.buf, op, bd.g, bd.cfg)
    if op[0] == "a":
        bd.g += 1
    return r


def canon(bd):
    return state_digest((state_of(bd.buf), bd.g))


# -- the oracle: reload + lockstep continuation in one state -----------------------------------

def classify(buf, cfg, g):
    """Which parts of the state are non-default (vacuity guard + RULE's non-triviality)."""
    tags = set()
    inner = inner_buffers(buf)
    for x in inner:
        cap = x.buffer_size
        if x.current_len == 0:
            tags.add("empty")
        elif x.current_len < cap:
            tags.add("partially_filled")
        if x.current_len == cap and (x.insert_idx != 0 or (g > cap and len(inner) == 1)):
            tags.add("wrapped")
        if getattr(x, "episode_timesteps", 0) > 0:
            tags.add("mid_episode")
        if getattr(x, "environment_terminates", False):
            tags.add("terminates_flag_set")
        if hasattr(x, "mask_") and x.mask_.any():
            tags.add("mask_has_admissible_starts")
        if hasattr(x, "priority"):
            p = x.priority.priority[: x.current_len]
            if len(set(p.tolist())) > 1:
                tags.add("nonuniform_priorities")
            if float(x.priority.max_priority) != 1.0:
                tags.add("max_priority_moved")
            if len(x.priority.sampled_indices) > 0:
                tags.add("pending_sampled_batch")
    if hasattr(buf, "buffers"):
        if buf.selected_task != 0:
            tags.add("task_other_than_0_selected")
        if len(buf.active_buffers) >= 2:
            tags.add("data_in_two_tasks")
        if hasattr(buf, "sampled_task_idx"):
            tags.add("sampled_task_recorded")
    return tags


NONTRIVIAL = {"wrapped", "mid_episode", "nonuniform_priorities", "max_priority_moved", "pending_sampled_batch",
              "task_other_than_0_selected", "data_in_two_tasks"}


def batch_type_ok(x):
    try:
        f = tuple(x.buffer)
        if tuple(x.Batch._fields) != f:
            return False
        t = x.Batch(**{k: i for i, k in enumerate(f)})
        return tuple(t) == tuple(range(len(f))) and isinstance(t, tuple)
    except Exception:  # noqa: BLE001
        return False


def check_state(bd, hist, col, ops):
    cfg = bd.cfg
    S = bd.buf
    E = entry_name(cfg)
    H = [list(o) for o in hist]
    before = state_of(S)
    tags = classify(S, cfg, bd.g)
    for t in tags:
        col.outcome("save_points_" + t)
    nontriv = bool(tags & NONTRIVIAL)
    key = (cfg["kind"], state_digest(before, 8).hex(), bd.g) if nontriv else None
    fresh_bytes = _fresh_state(cfg)
    if before != fresh_bytes:
        col.outcome("save_points_where_a_freshly_constructed_object_would_differ")
    blob0 = None
    for proto in range(2, pickle.HIGHEST_PROTOCOL + 1):
        try:
            blob = pickle.dumps(S, protocol=proto)
            R = pickle.loads(blob)
        except Exception as e:  # noqa: BLE001
            col.tick(1, key)
            col.violation(SIG.format(E, K_RAISE), dict(history=H, protocol=proto, raised=f"{type(e).__name__}: {str(e)[:200]}"))
            return
        if proto == pickle.DEFAULT_PROTOCOL:
            blob0 = blob
        col.tick(1, key)
        if state_of(S) != before:
            col.violation(SIG.format(E, K_ORIG), dict(history=H, protocol=proto))
            return
        if state_of(R) != before:
            paths, d = diff_leaves(S, R)
            last = [p.split(".")[-1] for p in paths]
            only_batch = "Batch" in last and all(x in ("Batch", "<keys>") for x in last)
            col.violation(SIG.format(E, K_BATCH if only_batch else K_STATE), dict(history=H, protocol=proto, differing=paths[:20], values=d))
            return
        if not all(batch_type_ok(x) for x in inner_buffers(R)):
            col.violation(SIG.format(E, K_BATCH), dict(history=H, protocol=proto))
            return
    # a reloaded object can be saved again
    col.tick(1)
    try:
        R2 = pickle.loads(pickle.dumps(pickle.loads(blob0)))
        ok = state_of(R2) == before
    except Exception:  # noqa: BLE001
        ok = False
    if not ok:
        col.violation(SIG.format(E, K_IDEM), dict(history=H))
        return
    if nontriv:
        col.outcome("nontrivial_save_points")
    # lockstep continuations
    _continue(S, None, blob0, bd.g, 0, cfg, col, ops, H, [], E, fresh_bytes)


_FRESH = {}
_FRESH_STEP = {}


def _fresh_state(cfg):
    k = cfg["kind"]
    if k not in _FRESH:
        _FRESH[k] = state_of(new_buffer(cfg))
    return _FRESH[k]


def _continue(S, R, blob, g, depth, cfg, col, ops, H, path, E, fresh_bytes):
    C = cfg["C"]
    for op in ops:
        S1 = clone(S)
        R1 = pickle.loads(blob) if depth == 0 else clone(R)  # first step: a freshly reloaded object every time
        ra = run_op(S1, op, g, cfg)
        rb_ = run_op(R1, op, g, cfg)
        col.tick(2)
        col.outcome("continuation_steps")
        if ra != rb_:
            col.violation(SIG.format(E, K_CRES), dict(history=H, continuation=path + [list(op)], original=_short(ra), reloaded=_short(rb_)))
            continue
        if ra[0] == "raised":
            col.outcome("continuation_steps_where_both_raise_the_same_exception")
        elif ra[0] == "batch":
            col.outcome("continuation_steps_comparing_equal_sampled_batches")
        sa = state_of(S1)
        if sa != state_of(R1):
            paths, d = diff_leaves(S1, R1)
            col.violation(SIG.format(E, K_CSTATE), dict(history=H, continuation=path + [list(op)], differing=paths[:20], values=d))
            continue
        if depth == 0:
            # vacuity guard: would an object rebuilt by the constructor have behaved differently here?
            fk = (cfg["kind"], cfg["real_jnp"], cfg["seed"], op, g)
            if fk not in _FRESH_STEP:
                F = new_buffer(cfg)
                rf = run_op(F, op, g, cfg)
                _FRESH_STEP[fk] = (rf, state_of(F))
            if _FRESH_STEP[fk] != (ra, sa):
                col.outcome("first_continuation_steps_that_distinguish_the_saved_state_from_a_fresh_object")
        if depth + 1 < C:
            _continue(S1, R1, blob, g + (op[0] == "a"), depth + 1, cfg, col, ops, H, path + [list(op)], E, fresh_bytes)


def _short(r):
    def f(x):
        if isinstance(x, tuple) and x and x[0] == "array":
            return ["array", x[2], list(x[3]), np.frombuffer(x[4], dtype=np.dtype(x[2])).tolist()[:16]]
        if isinstance(x, tuple):
            return [f(y) for y in x]
        return x

    return f(r)


def buffer_item(cfg, col):
    cfg = dict(cfg)
    ops = [tuple(o) for o in alphabet(cfg)]
    D, shard, n = cfg["D"], cfg["shard"], cfg["nshards"]
    real = rb.jnp
    if not cfg["real_jnp"]:
        rb.jnp = _NoTransfer(real)
    try:
        counter = [0, 0]

        def on_state(bd, hist):
            i = counter[0]
            counter[0] += 1
            if i % n == shard:
                counter[1] += 1
                check_state(bd, hist, col, ops)

        res = e1.bfs(make=lambda: make_real(cfg), ops=lambda bd: ops, apply=apply, canon=canon, on_state=on_state,
                     max_depth=D, validate=(shard == 0), copier=copy_bundle)
        col.outcome("save_points", counter[1])
        if shard == 0:  # the graph is the same in every shard; it is reported once (and not at all for sub-graphs)
            if cfg["graph"]:
                col.graph(res["states"], res["transitions"], res["validated"], res["max_depth"])
            deepest = max(res["paths"].values(), key=len)
            col.sample(dict(config=cfg["name"], alphabet=[list(o) for o in ops], deepest_history=[list(o) for o in deepest]))
            col.append("configurations", dict(name=cfg["name"].rsplit("-shard", 1)[0], states=res["states"], transitions=res["transitions"],
                                              depth=D, continuation_length=cfg["C"], alphabet_size=len(ops), shards=n, counted_in_states=cfg["graph"]))
    finally:
        rb.jnp = real


# ==========================================================================================
# Part B: modules
# ==========================================================================================

MODULES = ["MLP", "MLP-12-layers", "LayerNormMLP", "GaussianMLP-shared", "GaussianMLP-separate", "DeterministicTanhPolicy", "GaussianTanhPolicy",
           "SoftmaxPolicy", "ContinuousClippedDoubleQNet", "td7.embedding", "td7.actor", "td7.critic",
           "mrq.policy_with_encoder", "mrq.q", "GaussianMLPEnsemble"]
PSETS = ["init", "perturbed"]


def module_items(tier, seed):
    out = []
    K = 2 if tier == "quick" else 3
    for kind in MODULES:
        for ps in PSETS:
            for s in ([seed] if tier == "quick" else [seed, seed + 3]):
                out.append(dict(name=f"mod-{kind}-{ps}-seed{s}", part="mod", module=kind, pset=ps, versions=K, seed=s))
    return out


def _box(lo, hi):
    import gymnasium as gym

    return gym.spaces.Box(np.array(lo, dtype=np.float32), np.array(hi, dtype=np.float32))


def build(kind, s, alt):
    """The module under test (alt=False) or a differently initialised instance of the same architecture."""
    from rl_blox.algorithm.mrq import create_mrq_state
    from rl_blox.algorithm.td7 import create_td7_state
    from rl_blox.blox.double_qnet import ContinuousClippedDoubleQNet
    from rl_blox.blox.function_approximator.gaussian_mlp import GaussianMLP
    from rl_blox.blox.function_approximator.layer_norm_mlp import LayerNormMLP
    from rl_blox.blox.function_approximator.mlp import MLP
    from rl_blox.blox.function_approximator.policy_head import DeterministicTanhPolicy, GaussianTanhPolicy, SoftmaxPolicy
    from vlib.senv import ScriptEnv

    s = s + (100 if alt else 0)
    box = _box([-3.0, 1.0], [-1.0, 5.0]) if alt else _box([-1.0, 0.0], [2.0, 3.0])
    r = nnx.Rngs(s)
    if kind == "MLP":
        return MLP(2, 2, [3], "relu", r)
    if kind == "MLP-12-layers":
        # more than ten entries in one layer list: a restore that orders path keys as strings ('10' < '2') shuffles them
        return MLP(2, 2, [3] * 12, "tanh", r)
    if kind == "LayerNormMLP":
        return LayerNormMLP(2, 2, [3], "elu", rngs=r)
    if kind == "GaussianMLP-shared":
        return GaussianMLP(True, 2, 2, [3], "tanh", r)
    if kind == "GaussianMLP-separate":
        return GaussianMLP(False, 2, 2, [3], "tanh", r)
    if kind == "DeterministicTanhPolicy":
        return DeterministicTanhPolicy(MLP(2, 2, [3], "relu", r), box)
    if kind == "GaussianTanhPolicy":
        return GaussianTanhPolicy(GaussianMLP(False, 2, 2, [3], "tanh", r), box)
    if kind == "SoftmaxPolicy":
        return SoftmaxPolicy(MLP(2, 3, [3], "tanh", r))
    if kind == "ContinuousClippedDoubleQNet":
        return ContinuousClippedDoubleQNet(MLP(2, 1, [3], "relu", r), LayerNormMLP(2, 1, [3], "elu", rngs=r))
    if kind.startswith("td7.") or kind.startswith("mrq."):
        env = ScriptEnv("c", low=(-3.0, 1.0), high=(-1.0, 5.0)) if alt else ScriptEnv("c")
        if kind.startswith("td7."):
            st = create_td7_state(env, n_embedding_dimensions=3, state_embedding_hidden_nodes=[3], state_action_embedding_hidden_nodes=[3],
                                  policy_sa_encoding_nodes=3, policy_hidden_nodes=[3], q_sa_encoding_nodes=3, q_hidden_nodes=[3], seed=s)
        else:
            st = create_mrq_state(env, policy_hidden_nodes=[3], q_hidden_nodes=[3], encoder_n_bins=5, encoder_zs_dim=3, encoder_za_dim=2,
                                  encoder_zsa_dim=3, encoder_hidden_nodes=[3], seed=s)
        return getattr(st, kind.split(".")[1])
    if kind == "GaussianMLPEnsemble":
        return pe.GaussianMLPEnsemble(2, True, 2, 2, [3], "tanh", r)
    raise KeyError(kind)


ARITY = {"td7.embedding": [2, 2], "td7.actor": [2, 3], "td7.critic": [4, 3, 3], "mrq.q": [3]}


def inputs(kind, s):
    """Three inputs per module type: a batch, a single vector (ensemble: per-member batches), a large-magnitude row."""
    dims = ARITY.get(kind, [2])
    g = np.random.default_rng(77 + s)  # value alphabet only

    def arr(shape, scale=1.0):
        return jnp.asarray((g.integers(-8, 9, size=shape) / 4.0 * scale).astype(np.float32))

    if kind == "GaussianMLPEnsemble":
        return [(arr((3, 2)),), (arr((2, 3, 2)),), (arr((1, 2), 512.0),)]
    return [tuple(arr((3, d)) for d in dims), tuple(arr((d,)) for d in dims), tuple(arr((1, d), 512.0) for d in dims)]


def forward(kind, m, x):
    out = [m(*x)]
    if kind in ("GaussianTanhPolicy", "SoftmaxPolicy"):
        out.append(m.sample(x[0], jax.random.key(5)))
    if kind == "ContinuousClippedDoubleQNet":
        out.append(m.mean(*x))
    if kind == "GaussianMLPEnsemble" and x[0].ndim == 2:
        out.append(m.aggregate(x[0]))
    return out


def out_bytes(o):
    return tuple((str(np.asarray(a).dtype), np.asarray(a).shape, np.asarray(a).tobytes()) for a in jax.tree_util.tree_leaves(o))


def train_step(kind, m, x):
    """One optimizer step from a fresh optimizer state on a fixed loss (sum of squared outputs)."""
    opt = nnx.Optimizer(m, optax.adam(0.05), wrt=nnx.Param)

    def loss(mm):
        tot = 0.0
        for a in jax.tree_util.tree_leaves(mm(*x)):
            if jnp.issubdtype(a.dtype, jnp.floating):
                tot = tot + jnp.sum(jnp.square(a))
        return tot

    grads = nnx.grad(loss)(m)
    opt.update(m, grads)


def perturb(m, salt):
    """Moves EVERY variable (params, LayerNorm scale/bias, zero-initialised biases, action scale/bias) away from its constructor value."""
    i = 0
    for _, v in nnx.iter_graph(m):
        if isinstance(v, nnx.Variable) and hasattr(v.value, "dtype") and jnp.issubdtype(v.value.dtype, jnp.floating):
            a = np.asarray(v.value)
            pat = ((np.arange(a.size).reshape(a.shape) % 5) - 2) * 0.125 + 0.0625 * (1 + (i + salt) % 3)
            v.value = jnp.asarray((a * 1.5 + pat).astype(a.dtype))
            i += 1


def var_types(m):
    return tuple(("/".join(map(str, p)), type(v).__name__) for p, v in nnx.iter_graph(m) if isinstance(v, nnx.Variable))


@contextlib.contextmanager
def quiet():
    with contextlib.redirect_stdout(io.StringIO()):
        yield


ROUTES_CKPT = ["StandardCheckpointer.restore", "restore_checkpoint"]


def module_item(item, col):
    kind, pset, s, K = item["module"], item["pset"], item["seed"], item["versions"]
    base = dict(module=kind, parameter_set=pset, seed=s)
    m = build(kind, s, alt=False)
    if pset == "perturbed":
        perturb(m, s)
    xs = inputs(kind, s)
    tmp = tempfile.mkdtemp(prefix=f"c19-{os.getpid()}-")
    _TMP["dir"] = tmp
    try:
        with quiet():
            ock = OrbaxCheckpointer(checkpoint_dir=os.path.join(tmp, "orbax"))
            ock.define_experiment("Env", "Alg")
            ock.define_checkpoint_frequency("net", 1)
            slg = StandardLogger(checkpoint_dir=os.path.join(tmp, "std"))
            slg.define_experiment("Env", "Alg")
            slg.define_checkpoint_frequency("net", 1)
        versions = []  # per version: snapshot, variable types, outputs
        saved = []  # (version, save route, artefact)
        for k in range(K):
            ver = dict(snap=snap(m), vtypes=var_types(m), outs=[out_bytes(forward(kind, m, x)) for x in xs])
            versions.append(ver)
            for route, fn in (
                ("save_pickle", lambda p: serialize.save_pickle(p, m)),
                ("save_pickle(move_to_device=cpu)", (lambda p: serialize.save_pickle(p, m, move_to_device="cpu")) if k == 0 else None),
            ):
                if fn is None:
                    continue
                p = os.path.join(tmp, f"v{k}-{len(saved)}.pkl")
                try:
                    fn(p)
                    saved.append((k, route, p))
                except Exception as e:  # noqa: BLE001
                    col.tick(1)
                    col.violation(SIG.format(route.split("(")[0] + "/load_pickle", K_RAISE), dict(base, version=k, raised=f"{type(e).__name__}: {str(e)[:300]}"))
            # the same file name rewritten at every version ("latest.pkl") and read back at once, twice: the reload must show
            # THIS version, and the two loaded modules must be independent objects
            latest = os.path.join(tmp, "latest.pkl")
            try:
                serialize.save_pickle(latest, m)
                alt1, alt2 = build(kind, s, alt=True), build(kind, s, alt=True)
                g1 = serialize.load_pickle(latest, nnx.graphdef(alt1))
                g2 = serialize.load_pickle(latest, nnx.graphdef(alt2))
                col.tick(2, (kind, pset, s, k, "same-file-name") if k > 0 else None)
                col.outcome("reloads_of_a_rewritten_file_name")
                for g in (g1, g2):
                    if snap(g) != ver["snap"]:
                        stale = next((j for j in range(len(versions)) if versions[j]["snap"] == snap(g)), None)
                        col.violation(SIG.format("save_pickle/load_pickle", K_STATE), dict(base, version=k, file="rewritten under the same name", equals_version=stale))
                        break
                else:
                    before2 = snap(g2)
                    train_step(kind, g1, xs[0])
                    if snap(g1) != ver["snap"] and snap(g2) != before2:
                        col.violation(SIG.format("save_pickle/load_pickle", K_ALIAS), dict(base, version=k))
            except Exception as e:  # noqa: BLE001
                col.tick(1)
                col.violation(SIG.format("save_pickle/load_pickle", K_RAISE), dict(base, version=k, file="rewritten under the same name", raised=f"{type(e).__name__}: {str(e)[:300]}"))
            for route, lg, kw in (("OrbaxCheckpointer.record_epoch", ock, dict(step=k + 1)), ("StandardLogger.record_epoch", slg, {})):
                n0 = len(lg.checkpoint_path["net"])
                try:
                    with quiet():
                        # odd versions hand over another object with the same content (a clone, as a loop that rebuilds its
                        # module or records a freshly made target network does): the checkpoint is of what was handed over
                        lg.record_epoch("net", m if k % 2 == 0 else nnx.clone(m), **kw)
                except Exception as e:  # noqa: BLE001
                    col.tick(1)
                    col.violation(SIG.format(route, K_RAISE), dict(base, version=k, raised=f"{type(e).__name__}: {str(e)[:300]}"))
                    continue
                new = lg.checkpoint_path["net"][n0:]
                if len(new) < 1:
                    col.tick(1)
                    col.violation(SIG.format(route, K_NOCKPT), dict(base, version=k, paths=list(lg.checkpoint_path["net"])))
                    continue
                saved.append((k, route, new[-1]))
            col.tick(1)
            if snap(m) != ver["snap"]:
                col.violation(SIG.format("save_pickle+record_epoch", K_ORIG), dict(base, version=k))
            # the original history continues: one optimizer step
            train_step(kind, m, xs[0])
            if snap(m) != ver["snap"]:
                col.outcome("history_steps_that_changed_parameters")
        versions.append(dict(snap=snap(m)))

        # reload every artefact into a differently initialised instance
        for k, sroute, art in saved:
            routes = ["load_pickle"] if sroute.startswith("save_pickle") else ROUTES_CKPT
            for rroute in routes:
                entry = ("save_pickle/load_pickle" if rroute == "load_pickle" else f"{sroute}+{rroute}")
                case = dict(base, version=k, save=sroute, restore=rroute)
                alt = build(kind, s, alt=True)
                perturb(alt, s + 1)
                differing = sum(1 for a, b in zip(snap(alt), versions[k]["snap"]) if a != b)
                col.outcome("variables_that_differed_in_the_restore_target_before_the_restore", differing)
                col.outcome("variables_compared", len(versions[k]["snap"]))
                key = (kind, pset, s, k, sroute, rroute) if differing else None
                try:
                    with quiet():
                        if rroute == "load_pickle":
                            dev = "cpu" if "move_to_device" in sroute else None
                            got = serialize.load_pickle(art, nnx.graphdef(alt), dev)
                        elif rroute == "StandardCheckpointer.restore":
                            abstract = jax.tree.map(ocp.utils.to_shape_dtype_struct, nnx.state(alt))
                            st = ocp.StandardCheckpointer().restore(art, abstract)
                            nnx.update(alt, st)
                            got = alt
                        else:
                            got = pe.restore_checkpoint(art, alt)
                except Exception as e:  # noqa: BLE001
                    col.tick(1, key)
                    col.violation(SIG.format(entry, K_RAISE), dict(case, raised=f"{type(e).__name__}: {str(e)[:300]}"))
                    continue
                col.outcome("reloads")
                col.tick(1, key)
                gs = snap(got)
                if gs != versions[k]["snap"]:
                    bad = [a[0] for a, b in zip(gs, versions[k]["snap"]) if a != b][:8]
                    if len(gs) != len(versions[k]["snap"]):
                        bad.append(f"<{len(gs)} variables instead of {len(versions[k]['snap'])}>")
                    stale = next((j for j in range(len(versions)) if versions[j]["snap"] == gs), None)
                    col.violation(SIG.format(entry, K_STATE), dict(case, differing_variables=bad, equals_version=stale))
                    continue
                col.tick(1, key)
                if var_types(got) != versions[k]["vtypes"]:
                    col.violation(SIG.format(entry, K_VTYPE), dict(case, got=[list(x) for x in var_types(got)], want=[list(x) for x in versions[k]["vtypes"]]))
                    continue
                okout = True
                for i, x in enumerate(xs):
                    col.tick(1, key)
                    try:
                        ob = out_bytes(forward(kind, got, x))
                    except Exception as e:  # noqa: BLE001
                        ob = ("raised", f"{type(e).__name__}: {str(e)[:200]}")
                    if ob != versions[k]["outs"][i]:
                        okout = False
                        col.violation(SIG.format(entry, K_OUT), dict(case, input=i, got=str(ob)[:300]))
                        break
                if not okout:
                    continue
                col.tick(1, key)
                try:
                    train_step(kind, got, xs[0])
                    after = snap(got)
                except Exception as e:  # noqa: BLE001
                    after = ("raised", f"{type(e).__name__}: {str(e)[:200]}")
                if after != versions[k + 1]["snap"]:
                    col.violation(SIG.format(entry, K_STEP), dict(case, got=str(after)[:200]))
                else:
                    col.outcome("continuation_training_steps_equal")
        # one template module used for two restores (e.g. evaluating several checkpoints of a run): the module
        # obtained for the first checkpoint must keep that checkpoint's parameters when a later one is restored
        for sroute in ("OrbaxCheckpointer.record_epoch", "StandardLogger.record_epoch"):
            arts = [(k, art) for k, r, art in saved if r == sroute]
            if len(arts) < 2 or versions[arts[0][0]]["snap"] == versions[arts[-1][0]]["snap"]:
                continue
            (k0, a0), (k1, a1) = arts[0], arts[-1]
            entry = f"{sroute}+restore_checkpoint"
            case = dict(base, save=sroute, restore="restore_checkpoint", first_version=k0, later_version=k1)
            tmpl = build(kind, s, alt=True)
            try:
                with quiet():
                    g0 = pe.restore_checkpoint(a0, tmpl)
                    s0 = snap(g0)
                    g1 = pe.restore_checkpoint(a1, tmpl)
            except Exception as e:  # noqa: BLE001
                col.tick(1)
                col.violation(SIG.format(entry, K_RAISE), dict(case, raised=f"{type(e).__name__}: {str(e)[:300]}"))
                continue
            col.tick(1, (kind, pset, s, sroute, "shared-template"))
            col.outcome("restores_sharing_one_template_module")
            if snap(g0) != s0 or s0 != versions[k0]["snap"] or snap(g1) != versions[k1]["snap"]:
                col.violation(SIG.format(entry, "restored-module-changed-by-a-later-restore"), dict(case, first_still_equal=snap(g0) == s0,
                                                                                                   later_equal=snap(g1) == versions[k1]["snap"]))
        # two DIFFERENT modules recorded one after the other under the same key (a logger reused for a second training, a
        # freshly built network): each checkpoint restores to the module that was handed over for it
        mA, mB = build(kind, s, alt=False), build(kind, s, alt=True)
        perturb(mB, s + 5)
        if snap(mA) != snap(mB):
            for cname, mk in (("OrbaxCheckpointer", lambda d: OrbaxCheckpointer(checkpoint_dir=d)), ("StandardLogger", lambda d: StandardLogger(checkpoint_dir=d))):
                entry = f"{cname}.record_epoch+restore_checkpoint"
                case = dict(base, scenario="two modules under one key")
                try:
                    with quiet():
                        lg2 = mk(os.path.join(tmp, "two-" + cname))
                        lg2.define_experiment("Env", "Alg")
                        lg2.define_checkpoint_frequency("net", 1)
                        lg2.record_epoch("net", mA, **(dict(step=1) if cname == "OrbaxCheckpointer" else {}))
                        lg2.record_epoch("net", mB, **(dict(step=2) if cname == "OrbaxCheckpointer" else {}))
                        paths = list(lg2.checkpoint_path["net"])
                        got = [snap(pe.restore_checkpoint(pth, build(kind, s, alt=bool(i)))) for i, pth in enumerate(paths[:2])]
                except Exception as e:  # noqa: BLE001
                    col.tick(1)
                    col.violation(SIG.format(entry, K_RAISE), dict(case, raised=f"{type(e).__name__}: {str(e)[:300]}"))
                    continue
                col.tick(2, (kind, pset, s, cname, "two-modules-one-key"))
                col.outcome("checkpoints_of_two_modules_under_one_key")
                if len(got) < 2:
                    col.violation(SIG.format(entry, K_NOCKPT), dict(case, paths=paths))
                elif got[0] != snap(mA) or got[1] != snap(mB):
                    col.violation(SIG.format(entry, K_STATE), dict(case, first_equals_first_module=got[0] == snap(mA), second_equals_second_module=got[1] == snap(mB),
                                                                   second_equals_first_module=got[1] == snap(mA)))
        col.sample(dict(base, versions=K, artefacts=" ".join(f"v{k}:{r}" for k, r, _ in saved), n_variables=len(versions[0]["snap"]),
                        variable_types=sorted({t for _, t in versions[0]["vtypes"]})))
    finally:
        shutil.rmtree(tmp, ignore_errors=True)
        _TMP["dir"] = None


# ==========================================================================================

_TMP = {"dir": None}


def _cleanup_and_exit(signum, frame):  # the pool terminates its workers with SIGTERM when the wall-clock cap trips
    if _TMP["dir"]:
        shutil.rmtree(_TMP["dir"], ignore_errors=True)
    os._exit(0)


def _remove_stale_scratch():
    """Scratch directories of C19 workers that no longer exist (killed before their `finally` ran)."""
    root = tempfile.gettempdir()
    for name in os.listdir(root):
        parts = name.split("-")
        if len(parts) >= 3 and parts[0] == "c19" and parts[1].isdigit() and not os.path.exists(f"/proc/{parts[1]}"):
            shutil.rmtree(os.path.join(root, name), ignore_errors=True)



def items(tier, seed):
    b = buffer_items(tier, seed)
    first = [i for i in b if i["kind"].startswith("ReplayBuffer") and not i["real_jnp"]]  # two sub-second items that report a graph
    return first + module_items(tier, seed) + [dict(name="mod-same-checkpoint-directory", part="samedir", seed=seed)] + [i for i in b if i not in first]


def worker_init():
    try:
        import absl.logging

        absl.logging.set_verbosity(absl.logging.ERROR)
    except Exception:  # noqa: BLE001
        pass
    try:
        import multiprocessing
        import signal

        if multiprocessing.current_process().name != "MainProcess":  # pool workers only, never the runner itself
            signal.signal(signal.SIGTERM, _cleanup_and_exit)
        _remove_stale_scratch()
    except Exception:  # noqa: BLE001
        pass


class _SameDir:
    """C20's same-directory scenario (two checkpointer instances, one directory) decides C19's clause too: what a
    checkpointing logger lists must reload to the parameters it recorded; its findings are re-labelled."""

    def __init__(self, col):
        self._col = col

    def violation(self, signature, detail=None, item=None):
        kind = signature.split("|")[2]
        self._col.violation(SIG.format("OrbaxCheckpointer.record_epoch+StandardCheckpointer.restore", "listed-checkpoint-" + kind), detail)

    def sample(self, obj):
        pass

    def __getattr__(self, name):
        return getattr(self._col, name)


def work(item, col):
    if item["part"] == "samedir":
        from checks import c20

        return c20.work(dict(item, part="samedir"), _SameDir(col))
    if item["part"] == "mod":
        return module_item(item, col)
    return buffer_item(item, col)
