"""C18 - numeric building blocks: two-hot coding, robust losses, norms, schedules (E3, exploration).

Every public function is called on the complete Cartesian product of small finite alphabets and judged
against a float64 numpy reference that shares no code with rl-blox.
"""

import itertools
import math
from fractions import Fraction

import numpy as np

from vlib.num import EPS32, close

PROPERTY = "C18"
LEVEL = "exploration"
USES_JAX = True
CLEAR_EVERY = 20
RULE = (
    "full product of finite alphabets per function: two-hot = (bin-edge count x exponent range | hand-made bins) x "
    "{every edge, both range ends, every bin midpoint, edge+-1ulp, +0/-0, log-spaced interior points[, 4 interior "
    "fractions per bin]} x {eager, jit}; cross-entropy = the same x values x 4 logit sets; Huber = deltas x |e| "
    "alphabet around the threshold x 3 shapes x {eager, jit}; masked MSE = (N, D) x all 2^N masks x 3 mask dtypes x "
    "2 base matrices x every (masked row, replacement value, pred/target/both); avg-L1 = element alphabet ^ D "
    "(all vectors) x eps x {1-D, 2-D, 3-D call}; linear schedule = lengths x fractions x (start, end). "
    "One evaluation = one oracle comparison. Non-trivial: two-hot/CE every in-range x (each exercises the "
    "lower-edge search); Huber |e| > 0; masked MSE only masks with at least one masked row; avg-L1 every vector; "
    "schedule only 1 <= int(T*f) < T with start != end. Distinct = distinct (function, configuration, input "
    "value) - call modes (jit, shapes) are not counted as distinct."
)
ASSUMPTIONS = [
    "bins come from make_two_hot_bins with >= 2 edges and exponents within +-12 (the implementation's 1e8 offset "
    "trick is only meaningful there; larger exponents are not covered), or are short hand-made strictly "
    "increasing float32 vectors",
    "x is a float32 value with bins[0] <= x <= bins[-1]; decode tolerance 8*eps32*max(|lower edge|,|upper edge|,|x|) "
    "because the decode is a float32 convex combination of the two edges",
    "huber_loss receives absolute errors (>= 0), as its parameter name states",
    "masked_mse_loss is exercised with its documented 2-D (n_samples, n_features) predictions/targets and a "
    "{0,1} mask of shape (n_samples,); replacement values stay below 1e4 so squares do not overflow float32; the "
    "normalisation (all rows or unmasked rows) is not fixed by the statement, both are accepted",
    "avg_l1_norm inputs stay below 1e12 in magnitude (no float32 overflow of the sum); mean|out| = 1 is demanded "
    "only when mean|x| >= eps, below that only finiteness (statement: 'finite for near-zero input')",
    "linear_schedule: 'after the transition fraction' = indices i >= T*fraction; 'spans at least one step' = "
    "T*fraction >= 1 (exact rational arithmetic on the double fraction)",
    "numpy float64 arithmetic is the trusted reference",
]
BUDGET_S = {"quick": 300, "thorough": 1500}
SIG = "C18|{}|{}"

# failure-kind vocabulary (fixed)
K_RAISED = "raised"
K_SHAPE = "output-shape"
K_BINS = "bins-not-strictly-increasing"
K_NEG = "row-negative-or-nonfinite"
K_SUM = "row-sum!=1"
K_ADJ = "nonzeros-not-at-most-two-adjacent"
K_DEC = "decoding-does-not-return-value"
K_RT = "roundtrip-does-not-return-value"
K_BATCH = "row-depends-on-batch"
K_NUMT = "row-depends-on-number-type-of-the-value"
K_CE = "value!=-sum(target*log_softmax)"
K_HQ = "quadratic-branch-value"
K_HL = "linear-branch-value"
K_MW = "masked-row-has-weight"
K_MV = "value-not-masked-mean-squared-error"
K_NF = "non-finite"
K_N1 = "mean-abs!=1"
K_NS = "not-a-rescaling-of-input"
K_SL = "length"
K_SM = "not-monotone"
K_S0 = "first!=start"
K_ST = "tail!=end"


# ------------------------------------------------------------------------------------------------
# enumeration
# ------------------------------------------------------------------------------------------------

HAND_BINS = [
    ("uniform5", [-1.0, -0.5, 0.0, 0.5, 1.0]),
    ("uniform11", [float(v) for v in range(0, 101, 10)]),
    ("irregular5", [-3.0, -1.0, 0.0, 0.5, 10.0]),
    ("doubling4", [0.1, 0.2, 0.4, 0.8]),
    ("wide3", [-40000.0, 7.0, 40000.0]),
]


def bin_specs(tier):
    q = tier == "quick"
    ns = [2, 3, 5, 65, 101] if q else [2, 3, 4, 5, 9, 33, 65, 101, 255]
    ranges = [(-1, 1), (-5, 5), (-10, 10), (-2, 6), (-6, 2)]  # symmetric, larger positive side, larger negative side
    if not q:
        ranges += [(-12, 12), (0, 10), (-10, 0), (-0.5, 0.5), (3, 7), (-7, -3)]
    out = [dict(kind="symexp", tag=f"n{n}_{lo}_{hi}", n=n, lo=float(lo), hi=float(hi)) for n in ns for lo, hi in ranges]
    out += [dict(kind="list", tag=t, edges=e) for t, e in HAND_BINS]
    return out


def items(tier, seed):
    q = tier == "quick"
    out = []
    for spec in bin_specs(tier):
        for mode in ("eager", "jit"):
            out.append(dict(name=f"twohot-{spec['tag']}-{mode}", group="twohot", bins=spec, mode=mode,
                            nlog=200 if q else 1000, fracs=[] if q else [0.001, 0.25, 0.75, 0.999], seed=seed))
    for spec in bin_specs(tier):
        out.append(dict(name=f"ce-{spec['tag']}", group="ce", bins=spec, nlog=60 if q else 300, fracs=[], seed=seed))
    deltas = [0.1, 0.5, 1.0, 2.0, 10.0, [0.3, 0.7, 1.3][seed % 3]]
    if not q:
        deltas += [0.01, 0.25, 3.0, 100.0]
    for d in deltas:
        out.append(dict(name=f"huber-{d}", group="huber", delta=d, dense=not q, seed=seed))
    nmax = 3 if q else 4
    for n, d in itertools.product(range(1, nmax + 1), range(1, nmax + 1)):
        out.append(dict(name=f"mask-N{n}-D{d}", group="mask", N=n, D=d, seed=seed))
    norm_cfg = [(1, 11), (2, 11), (3, 7), (5, 5)] if q else [(1, 11), (2, 11), (3, 11), (4, 7), (5, 7), (8, 3)]
    for (d, a), eps in itertools.product(norm_cfg, [None, 1e-3]):
        out.append(dict(name=f"norm-D{d}-A{a}-eps{eps}", group="norm", D=d, A=a, eps=eps, seed=seed))
    tmax, blk = (40, 10) if q else (200, 10)
    for t0 in range(1, tmax + 1, blk):
        out.append(dict(name=f"sched-T{t0}-{t0 + blk - 1}", group="sched", T=list(range(t0, t0 + blk)), full=not q, seed=seed))
    return out


# ------------------------------------------------------------------------------------------------
# library access
# ------------------------------------------------------------------------------------------------

_L = {}


def lib():
    if not _L:
        import jax
        import jax.numpy as jnp
        from rl_blox.blox import losses, preprocessing, schedules
        from rl_blox.blox.function_approximator import norm

        _L.update(jax=jax, jnp=jnp, pre=preprocessing, losses=losses, norm=norm, sched=schedules)
        # jit wrappers look the function up at trace time (late binding on the module attribute)
        _L["enc_jit"] = jax.jit(lambda b, x: preprocessing.two_hot_encoding(b, x))
        _L["dec_jit"] = jax.jit(lambda b, r: preprocessing.two_hot_decoding(b, r))
        _L["ce_jit"] = jax.jit(lambda b, lg, t: preprocessing.two_hot_cross_entropy_loss(b, lg, t))
        _L["huber_jit"] = jax.jit(lambda e, d: losses.huber_loss(e, d), static_argnums=1)
    return _L


def call(col, entry, detail, fn, *a, **k):
    """Run the implementation; raising on an input the statement quantifies over is a violation."""
    try:
        out = fn(*a, **k)
        return True, np.asarray(out)
    except Exception as e:  # noqa: BLE001
        col.violation(SIG.format(entry, K_RAISED), dict(detail, error=f"{type(e).__name__}: {str(e)[:300]}"))
        return False, None


def f32bits(v):
    return int(np.asarray(v, dtype=np.float32).view(np.uint32))


# ------------------------------------------------------------------------------------------------
# two-hot
# ------------------------------------------------------------------------------------------------


def get_bins(spec, col):
    L = lib()
    if spec["kind"] == "symexp":
        detail = dict(lower_exponent=spec["lo"], upper_exponent=spec["hi"], n_bin_edges=spec["n"])
        ok, b = call(col, "make_two_hot_bins", detail, L["pre"].make_two_hot_bins, spec["lo"], spec["hi"], spec["n"])
        if not ok:
            return None
        col.tick(1)
        if b.shape != (spec["n"],):
            col.violation(SIG.format("make_two_hot_bins", K_SHAPE), dict(detail, shape=list(b.shape)))
            return None
        b = b.astype(np.float32)
        if not (np.all(np.isfinite(b)) and np.all(np.diff(b.astype(np.float64)) > 0)):
            col.violation(SIG.format("make_two_hot_bins", K_BINS), dict(detail, bins=b))
            return None
        return b
    return np.asarray(spec["edges"], dtype=np.float32)


def symexp64(r):
    return np.sign(r) * (np.exp(np.abs(r)) - 1.0)


def x_alphabet(b, spec, nlog, fracs, seed):
    """float32 x values inside [b[0], b[-1]] with the tags that say why each one is in the alphabet."""
    n = len(b)
    b64 = b.astype(np.float64)
    cand = []
    for i, e in enumerate(b):
        cand.append((e, "range_end" if i in (0, n - 1) else "exact_edge"))
    for i in range(n - 1):
        cand.append((np.float32((b64[i] + b64[i + 1]) / 2), "midpoint"))
        for f in fracs:
            cand.append((np.float32(b64[i] + f * (b64[i + 1] - b64[i])), "interior_fraction"))
    for e in b:
        cand.append((np.nextafter(e, np.float32(np.inf)), "edge_plus_1ulp"))
        cand.append((np.nextafter(e, np.float32(-np.inf)), "edge_minus_1ulp"))
    cand.append((np.float32(0.0), "zero"))
    cand.append((np.float32(-0.0), "negative_zero"))
    off = ((seed % 5) - 2) / 5.0 * 0.9  # the seed only shifts the interior grid
    for i in range(nlog):
        t = (i + 0.5 + off) / nlog
        if spec["kind"] == "symexp":
            v = symexp64(spec["lo"] + (spec["hi"] - spec["lo"]) * t)
        else:
            v = b64[0] + (b64[-1] - b64[0]) * t
        cand.append((np.float32(v), "log_spaced"))
    seen = {}
    for v, tag in cand:
        v = np.float32(v)
        if not (b[0] <= v <= b[-1]):
            continue
        seen.setdefault(f32bits(v), (v, set()))[1].add(tag)
    keys = sorted(seen)  # deterministic order (by bit pattern)
    xs = np.array([seen[k][0] for k in keys], dtype=np.float32)
    tags = [sorted(seen[k][1]) for k in keys]
    return xs, tags


def ref_two_hot(b64, x64):
    """Independent float64 two-hot: returns (rows, j) with lower edge j-1 and upper edge j."""
    n = len(b64)
    j = np.clip(np.searchsorted(b64, x64, side="left"), 1, n - 1)
    lo, up = b64[j - 1], b64[j]
    w = (x64 - lo) / (up - lo)
    rows = np.zeros((len(x64), n))
    rows[np.arange(len(x64)), j - 1] = 1.0 - w
    rows[np.arange(len(x64)), j] = w
    return rows, j, w


def work_twohot(item, col):
    L = lib()
    jnp = L["jnp"]
    spec, mode = item["bins"], item["mode"]
    b = get_bins(spec, col)
    if b is None:
        return
    n = len(b)
    b64 = b.astype(np.float64)
    xs, tags = x_alphabet(b, spec, item["nlog"], item["fracs"], item["seed"])
    x64 = xs.astype(np.float64)
    M = len(xs)
    bj, xj = jnp.asarray(b), jnp.asarray(xs)
    enc = L["enc_jit"] if mode == "jit" else L["pre"].two_hot_encoding
    dec = L["dec_jit"] if mode == "jit" else L["pre"].two_hot_decoding
    base = dict(bins=spec, mode=mode)

    ref_rows, j, w = ref_two_hot(b64, x64)
    tol = 8 * EPS32 * np.maximum(np.maximum(np.abs(b64[j - 1]), np.abs(b64[j])), np.abs(x64))

    # vacuity guards, computed from the reference only
    swapped = np.abs(w * b64[j - 1] + (1 - w) * b64[j] - x64) > tol
    guard = (lambda name, k=1: col.outcome(name, k)) if mode == "eager" else (lambda name, k=1: None)  # counted once per input
    guard("twohot_cases_where_swapped_weights_would_miss_the_value", int(swapped.sum()))
    jm = np.clip(j - 1, 1, n - 1)  # lower-edge index one too small
    wm = (x64 - b64[jm - 1]) / (b64[jm] - b64[jm - 1])
    shifted = (jm != j) & ((wm > 1 + 1e-6) | (wm < -1e-6))
    guard("twohot_cases_where_lower_index_minus_one_gives_weights_outside_[0,1]", int(shifted.sum()))
    for tg in tags:
        for t in tg:
            guard("twohot_x_" + t)

    # ---- encoding -----------------------------------------------------------------------------
    ok, rows = call(col, "two_hot_encoding", dict(base, n_samples=M), enc, bj, xj)
    enc_bad = np.ones(M, dtype=bool)
    if ok and rows.shape != (M, n):
        col.violation(SIG.format("two_hot_encoding", K_SHAPE), dict(base, shape=list(rows.shape), expected=[M, n]))
        ok = False
    if ok:
        r = rows.astype(np.float64)
        fin = np.isfinite(r).all(axis=1)
        nonneg = fin & (np.where(np.isfinite(r), r, 0) >= 0).all(axis=1)
        ssum = np.where(fin, np.abs(np.where(np.isfinite(r), r, 0).sum(axis=1) - 1.0), np.inf)
        sum_ok = ssum <= 1e-6
        adj_ok = np.zeros(M, dtype=bool)
        nnz = np.zeros(M, dtype=int)
        for i in range(M):
            nz = np.nonzero(r[i] != 0)[0]  # NaN != 0 counts as non-zero
            nnz[i] = len(nz)
            adj_ok[i] = len(nz) <= 2 and (len(nz) < 2 or nz[1] - nz[0] == 1)
        dec64 = np.where(fin, (np.where(np.isfinite(r), r, 0) * b64[None]).sum(axis=1), np.nan)
        dec_ok = np.abs(dec64 - x64) <= tol  # NaN -> False
        guard("twohot_rows_with_two_nonzeros", int((nnz == 2).sum()))
        guard("twohot_rows_with_one_nonzero", int((nnz == 1).sum()))
        for i in range(M):
            col.tick(4, ("twohot", spec["tag"], f32bits(xs[i])))
            d = None
            for good, kind in ((nonneg[i], K_NEG), (sum_ok[i], K_SUM), (adj_ok[i], K_ADJ), (dec_ok[i], K_DEC)):
                if not good:
                    if d is None:
                        nzi = np.nonzero(r[i] != 0)[0]
                        d = dict(base, x=float(xs[i]), x_tags=tags[i], nonzero_index=nzi[:6], nonzero_value=r[i][nzi[:6]],
                                 lower_edge=[int(j[i] - 1), b64[j[i] - 1]], upper_edge=[int(j[i]), b64[j[i]]],
                                 float64_decode=dec64[i], tol=tol[i], row_sum=float(np.nansum(r[i])))
                    col.violation(SIG.format("two_hot_encoding", kind), d)
        enc_bad = ~(nonneg & sum_ok & adj_ok & dec_ok)
        if mode == "eager":
            k = 0
            for i in range(M):
                ok1, r1 = call(col, "two_hot_encoding", dict(base, n_samples=1, x=float(xs[i])), enc, bj, xj[i : i + 1])
                if not ok1:
                    break
                col.tick(1)
                same = r1.shape == (1, n) and bool(np.all((r1[0] == rows[i]) | (np.isnan(r1[0]) & np.isnan(rows[i]))))
                if not same:
                    col.violation(SIG.format("two_hot_encoding", K_BATCH), dict(base, x=float(xs[i]), x_tags=tags[i], alone=r1, in_batch=rows[i]))
                k += 1
            col.outcome("twohot_single_sample_calls", k)

    # ---- number type of the values: the same numbers as int32 / int64 / float16 arrays encode to the same rows -----
    if ok and mode == "eager":
        ints = [k for k in range(int(np.ceil(b64[0])), int(np.floor(b64[-1])) + 1)]
        if len(ints) > 9:
            ints = ints[:: max(1, len(ints) // 9)][:9] + [ints[-1]]
        halves = [v for v in (k + 0.5 for k in ints) if b64[0] <= v <= b64[-1]]  # exactly representable in float16
        variants = []
        if ints:
            variants += [("int32", np.asarray(ints, np.int32)), ("int64", np.asarray(ints, np.int64))]
        if halves and max(abs(v) for v in halves) < 1000:
            variants.append(("float16", np.asarray(halves, np.float16)))
        for tname, arr in variants:
            okf, rf = call(col, "two_hot_encoding", dict(base, value_dtype="float32", n_samples=len(arr)), enc, bj, jnp.asarray(arr.astype(np.float32)))
            okt, rt_ = call(col, "two_hot_encoding", dict(base, value_dtype=tname, n_samples=len(arr)), enc, bj, jnp.asarray(arr))
            if not (okf and okt):
                continue
            col.tick(len(arr), ("twohot-numtype", spec["tag"], tname))
            col.outcome("twohot_number_type_comparisons", len(arr))
            if rt_.shape != rf.shape or not np.allclose(rt_.astype(np.float64), rf.astype(np.float64), rtol=0, atol=1e-6):
                bad = int(np.nonzero(~np.isclose(rt_.astype(np.float64), rf.astype(np.float64), rtol=0, atol=1e-6).all(axis=1))[0][0]) if rt_.shape == rf.shape else 0
                col.violation(SIG.format("two_hot_encoding", K_NUMT), dict(base, value_dtype=tname, x=float(arr[bad]), row=rt_[bad] if rt_.ndim == 2 else None,
                                                                           row_for_float32=rf[bad]))

    # ---- decoding of the harness-made reference rows ----------------------------------------------
    ref32 = ref_rows.astype(np.float32)
    okd, d32 = call(col, "two_hot_decoding", dict(base, n_samples=M), dec, bj, jnp.asarray(ref32))
    dec_bad = np.ones(M, dtype=bool)
    if okd and d32.shape != (M,):
        col.violation(SIG.format("two_hot_decoding", K_SHAPE), dict(base, shape=list(d32.shape), expected=[M]))
        okd = False
    if okd:
        good = np.abs(d32.astype(np.float64) - x64) <= tol
        dec_bad = ~good
        col.tick(M)
        for i in np.nonzero(~good)[0]:
            col.violation(SIG.format("two_hot_decoding", K_DEC), dict(base, x=float(xs[i]), x_tags=tags[i], decoded=float(d32[i]), tol=tol[i],
                                                                       lower_edge=[int(j[i] - 1), b64[j[i] - 1]], upper_edge=[int(j[i]), b64[j[i]]], weight_upper=w[i]))

    # ---- round trip through both library functions --------------------------------------------------
    if ok and okd:
        okr, rt = call(col, "two_hot_decoding", dict(base, n_samples=M, input="two_hot_encoding output"), dec, bj, jnp.asarray(rows))
        if okr and rt.shape == (M,):
            good = np.abs(rt.astype(np.float64) - x64) <= tol
            col.tick(M)
            # only charged to the pair when neither single function was already blamed for this x
            for i in np.nonzero(~good & ~enc_bad & ~dec_bad)[0]:
                col.violation(SIG.format("two_hot_decoding(two_hot_encoding)", K_RT), dict(base, x=float(xs[i]), x_tags=tags[i], decoded=float(rt[i]), tol=tol[i]))
    col.sample(dict(function="two_hot_encoding", bins=spec["tag"], mode=mode, x=float(xs[M // 3]), tags=tags[M // 3],
                    lower_edge=b64[j[M // 3] - 1], upper_edge=b64[j[M // 3]], reference_weight_upper=w[M // 3]))


def logit_sets(M, n, seed):
    i = np.arange(M)[:, None]
    k = np.arange(n)[None, :]
    out = {}
    out["zeros"] = np.zeros((M, n))
    out["ramp"] = ((k * 7 + i * 3) % 13 - 6.0) * 0.5
    out["peaked"] = np.where((k + i) % 2 == 0, 30.0, -30.0) + (k % 5) * 0.25
    g = np.random.Generator(np.random.PCG64(1000 + seed))  # builds a value alphabet only
    out["seeded"] = g.normal(size=(M, n)) * 3.0
    # rows on very different levels (a per-row softmax is invariant to a row offset; a batch-wide shift is not)
    out["row-levels"] = out["ramp"] + np.array([0.0, -250.0, 300.0, -90.0, 120.0])[np.arange(M) % 5][:, None]
    return {a: v.astype(np.float32) for a, v in out.items()}


def log_softmax64(z):
    z = z.astype(np.float64)
    m = z.max(axis=-1, keepdims=True)
    return z - m - np.log(np.exp(z - m).sum(axis=-1, keepdims=True))


def work_ce(item, col):
    L = lib()
    jnp = L["jnp"]
    spec = item["bins"]
    b = get_bins(spec, col)
    if b is None:
        return
    n = len(b)
    b64 = b.astype(np.float64)
    xs, tags = x_alphabet(b, spec, item["nlog"], item["fracs"], item["seed"])
    x64 = xs.astype(np.float64)
    M = len(xs)
    ref_rows, j, w = ref_two_hot(b64, x64)
    idx = np.arange(M)
    for kind, lg in logit_sets(M, n, item["seed"]).items():
        lp = log_softmax64(lg)
        ref = -(ref_rows * lp).sum(axis=1)
        # float32 target weights carry an absolute error of up to ~2 eps each, multiplied by |log p| of the two bins
        tol = 1e-5 * np.maximum(1.0, np.abs(ref)) + 4 * EPS32 * (np.abs(lp[idx, j - 1]) + np.abs(lp[idx, j]))
        for mode, fn in (("eager", L["pre"].two_hot_cross_entropy_loss), ("jit", L["ce_jit"])):
            base = dict(bins=spec, logits=kind, mode=mode)
            ok, out = call(col, "two_hot_cross_entropy_loss", base, fn, jnp.asarray(b), jnp.asarray(lg), jnp.asarray(xs))
            if not ok:
                continue
            if out.shape != (M,):
                col.violation(SIG.format("two_hot_cross_entropy_loss", K_SHAPE), dict(base, shape=list(out.shape), expected=[M]))
                continue
            good = np.abs(out.astype(np.float64) - ref) <= tol  # NaN -> False
            for i in range(M):
                col.tick(1, ("ce", spec["tag"], kind, f32bits(xs[i])))
            for i in np.nonzero(~good)[0]:
                col.violation(SIG.format("two_hot_cross_entropy_loss", K_CE), dict(base, x=float(xs[i]), x_tags=tags[i], got=float(out[i]), expected=ref[i], tol=tol[i]))
        # vacuity: how often a one-hot (nearest edge) target would give another loss
        onehot = -lp[idx, np.where(w >= 0.5, j, j - 1)]
        col.outcome("ce_cases_where_a_one_hot_target_would_differ", int((np.abs(onehot - ref) > tol).sum()))
    col.sample(dict(function="two_hot_cross_entropy_loss", bins=spec["tag"], n_targets=M, logit_sets=5))


# ------------------------------------------------------------------------------------------------
# Huber
# ------------------------------------------------------------------------------------------------


def e_alphabet(d, dense):
    d32 = np.float32(d)
    vals = [0.0, d / 1024, d / 2, np.nextafter(d32, np.float32(0)), d32, np.nextafter(d32, np.float32(np.inf)),
            1.5 * d, 2 * d, 10 * d, 1e-3, 1.0, 1e3, 1e6]
    if dense:
        vals += list(np.linspace(0, 4 * d, 401)) + list(np.logspace(-6, 8, 57))
    e = np.unique(np.array(vals, dtype=np.float32))
    if len(e) % 2:
        e = np.concatenate([e, np.array([3 * d], dtype=np.float32)])
    return e


def work_huber(item, col):
    L = lib()
    jnp = L["jnp"]
    d = float(item["delta"])
    e = e_alphabet(d, item["dense"])
    e64 = e.astype(np.float64)
    quad = e64 <= d
    ref = np.where(quad, 0.5 * e64**2, d * (e64 - 0.5 * d))
    tol = 1e-6 * np.maximum(np.abs(ref), 0.5 * d * d)
    K = len(e)
    col.outcome("huber_quadratic_branch_cases", int(quad.sum()))
    col.outcome("huber_linear_branch_cases", int((~quad).sum()))
    col.outcome("huber_cases_where_slope_one_would_differ", int((~quad & (np.abs((0.5 * d * d + (e64 - d)) - ref) > tol)).sum()))
    col.outcome("huber_cases_where_dropping_the_half_delta_offset_would_differ", int((~quad & (np.abs(d * e64 - ref) > tol)).sum()))
    col.outcome("huber_cases_within_1ulp_of_delta", int((np.abs(e64 - d) <= 2 * EPS32 * d).sum()))
    shapes = [(K,), (K, 1), (2, K // 2)]
    for shape, mode in itertools.product(shapes, ("eager", "jit")):
        fn = L["huber_jit"] if mode == "jit" else L["losses"].huber_loss
        base = dict(delta=d, shape=list(shape), mode=mode)
        ok, out = call(col, "huber_loss", base, fn, jnp.asarray(e.reshape(shape)), d)
        if not ok:
            continue
        if out.shape != shape:
            col.violation(SIG.format("huber_loss", K_SHAPE), dict(base, got=list(out.shape)))
            continue
        out = out.reshape(-1).astype(np.float64)
        good = np.abs(out - ref) <= tol
        for i in range(K):
            col.tick(1, ("huber", d, f32bits(e[i])) if e[i] > 0 else None)
        for i in np.nonzero(~good)[0]:
            col.violation(SIG.format("huber_loss", K_HQ if quad[i] else K_HL), dict(base, abs_error=float(e[i]), got=out[i], expected=ref[i], tol=tol[i]))
    # scalar calls (0-d), a few
    for i in sorted({0, K // 2, K - 1}):
        ok, out = call(col, "huber_loss", dict(delta=d, shape=[], abs_error=float(e[i])), L["losses"].huber_loss, jnp.asarray(e[i]), d)
        if ok:
            col.tick(1)
            if out.shape != () or not abs(float(out) - ref[i]) <= tol[i]:
                col.violation(SIG.format("huber_loss", K_HQ if quad[i] else K_HL), dict(delta=d, shape=[], abs_error=float(e[i]), got=out, expected=ref[i]))
    col.sample(dict(function="huber_loss", delta=d, abs_errors=e[:14]))


# ------------------------------------------------------------------------------------------------
# masked MSE
# ------------------------------------------------------------------------------------------------

MASK_A = [-2.0, -0.5, 0.0, 1.0, 3.0, 0.25, -1.25]
MASK_ALT = [-1000.0, -1.5, 0.0, 2.25, 1000.0]


def mask_base(N, D, s):
    P = np.array([[MASK_A[(i * D + d + s) % 7] for d in range(D)] for i in range(N)], dtype=np.float32)
    T = np.array([[MASK_A[(3 * i + 2 * d + 3 + s) % 7] for d in range(D)] for i in range(N)], dtype=np.float32)
    T = np.where(T == P, T + np.float32(0.75), T).astype(np.float32)  # every row has a non-zero error
    return P, T


def work_mask(item, col):
    L = lib()
    jnp = L["jnp"]
    N, D, seed = item["N"], item["D"], item["seed"]
    fn = L["losses"].masked_mse_loss
    entry = "masked_mse_loss"
    for bi, mdt in itertools.product(range(2), ("float32", "bool", "int32")):
        P, T = mask_base(N, D, seed + 2 * bi)
        for mask in itertools.product([0, 1], repeat=N):
            m = np.array(mask)
            mj = jnp.asarray(m.astype(mdt))
            base = dict(N=N, D=D, mask=list(mask), mask_dtype=mdt, predictions=P, targets=T)
            ok, l0 = call(col, entry, base, fn, jnp.asarray(P), jnp.asarray(T), mj)
            if not ok:
                continue
            col.outcome("mask_masks_enumerated")
            has_masked = 0 in mask
            key = ("mask", N, D, mdt, mask, bi) if has_masked else None
            # value: masked mean of squared errors, either normalisation
            sq = (P.astype(np.float64) - T.astype(np.float64)) ** 2
            num = (sq * m[:, None]).sum()
            refs = [num / (N * D)]
            if m.sum() > 0:
                refs.append(num / (D * m.sum()))
            col.tick(1, key)
            if len(refs) == 2 and abs(refs[0] - refs[1]) > 1e-5:
                col.outcome("mask_value_cases_where_the_two_normalisations_differ")
            if l0.shape != () or not any(close(l0, r, rtol=1e-5) for r in refs):
                col.violation(SIG.format(entry, K_MV), dict(base, got=l0, accepted=refs))
            # differential: masked rows carry zero weight -> replacing them changes nothing (IEEE ==)
            for i in [r for r in range(N) if mask[r] == 0]:
                for vi, which in itertools.product(range(len(MASK_ALT)), ("pred", "target", "both")):
                    row = (MASK_ALT[vi] + 0.5 * np.arange(D) + 0.125 * (seed % 4)).astype(np.float32)
                    P2, T2 = P.copy(), T.copy()
                    if which in ("pred", "both"):
                        P2[i] = row
                    if which in ("target", "both"):
                        T2[i] = -row if which == "both" else row
                    if np.array_equal(P2, P) and np.array_equal(T2, T):
                        continue
                    d2 = dict(base, row=i, replaced=which, new_row=row)
                    ok2, l1 = call(col, entry, d2, fn, jnp.asarray(P2), jnp.asarray(T2), mj)
                    if not ok2:
                        continue
                    col.tick(1, ("maskdiff", N, D, mdt, mask, bi, i, vi, which))
                    col.outcome("mask_masked_row_replacements")
                    if ((P2.astype(np.float64) - T2) ** 2).sum() != sq.sum():
                        col.outcome("mask_replacements_that_change_the_unmasked_mse")
                    if not (l1.shape == l0.shape and bool(np.all(l1 == l0))):
                        col.violation(SIG.format(entry, K_MW), dict(d2, loss_before=l0, loss_after=l1))
    col.sample(dict(function="masked_mse_loss", N=N, D=D, masks=2**N, mask_dtypes=3, replacement_values=MASK_ALT))


# ------------------------------------------------------------------------------------------------
# avg L1 norm
# ------------------------------------------------------------------------------------------------

NORM_A = {
    11: [0.0, 1e-12, -1e-12, 1e-9, 1e-8, -3e-8, 1.0, -2.5, 1e3, -1e12, 1e12],
    7: [0.0, 1e-12, -1e-8, 1.0, -2.5, 1e12, -1e3],
    5: [0.0, -1e-12, 3e-8, -2.5, 1e12],
    3: [0.0, 1e-9, -2.0],
}


def judge_norm(col, x, out, eps, D, base, key_prefix, keyed):
    """x, out: (M, D) arrays. Oracle per row."""
    x64, o64 = x.astype(np.float64), out.astype(np.float64)
    m = np.abs(x64).mean(axis=1)
    fin = np.isfinite(o64).all(axis=1)
    normal = m >= eps * (1 + 1e-5)
    mo = np.where(fin, np.abs(np.where(fin[:, None], o64, 0)).mean(axis=1), np.nan)
    tol1 = 4 * (D + 4) * EPS32
    for i in range(len(x)):
        col.tick(1 + 2 * int(normal[i]), (key_prefix, D, eps, tuple(f32bits(v) for v in x[i])) if keyed else None)
        det = None
        if not fin[i]:
            det = dict(base, x=x[i], out=out[i], mean_abs_x=m[i])
            col.violation(SIG.format("avg_l1_norm", K_NF), det)
            continue
        if normal[i]:
            if not abs(mo[i] - 1.0) <= tol1:
                col.violation(SIG.format("avg_l1_norm", K_N1), dict(base, x=x[i], out=out[i], mean_abs_x=m[i], mean_abs_out=mo[i], tol=tol1))
            if not close(out[i], x64[i] / m[i], rtol=1e-5):
                col.violation(SIG.format("avg_l1_norm", K_NS), dict(base, x=x[i], out=out[i], expected=x64[i] / m[i]))
    return m, normal


def work_norm(item, col):
    L = lib()
    jnp = L["jnp"]
    D, eps_arg, seed = item["D"], item["eps"], item["seed"]
    eps = 1e-8 if eps_arg is None else eps_arg
    scale = 1.0 + 0.37 * (seed % 3)
    A = [a * scale if abs(a) >= 1 else a for a in NORM_A[item["A"]]]
    X = np.array(list(itertools.product(A, repeat=D)), dtype=np.float32)
    M = len(X)
    fn = L["norm"].avg_l1_norm
    kw = {} if eps_arg is None else dict(eps=eps_arg)
    base = dict(D=D, eps=eps_arg, call="2-D (M, D)")
    ok, out = call(col, "avg_l1_norm", base, fn, jnp.asarray(X), **kw)
    if ok and out.shape != X.shape:
        col.violation(SIG.format("avg_l1_norm", K_SHAPE), dict(base, got=list(out.shape), expected=list(X.shape)))
        ok = False
    if ok:
        m, normal = judge_norm(col, X, out, eps, D, base, "norm", True)
        col.outcome("norm_vectors_all_zero", int((m == 0).sum()))
        col.outcome("norm_vectors_nonzero_below_eps", int(((m > 0) & (m < eps)).sum()))
        col.outcome("norm_vectors_normalised_(mean|x|>=eps)", int(normal.sum()))
        col.outcome("norm_vectors_where_dropping_eps_gives_0/0", int((m == 0).sum()))
        col.outcome("norm_vectors_where_dropping_eps_changes_the_value", int(((m > 0) & (m < eps)).sum()))
    # 3-D call: (a, b, D)
    bdim = 1 if M < 4 else (11 if M % 11 == 0 else (7 if M % 7 == 0 else (5 if M % 5 == 0 else 3)))
    if M % bdim == 0:
        X3 = X.reshape(M // bdim, bdim, D)
        base3 = dict(D=D, eps=eps_arg, call=f"3-D {list(X3.shape)}")
        ok3, out3 = call(col, "avg_l1_norm", base3, fn, jnp.asarray(X3), **kw)
        if ok3 and out3.shape != X3.shape:
            col.violation(SIG.format("avg_l1_norm", K_SHAPE), dict(base3, got=list(out3.shape)))
        elif ok3:
            judge_norm(col, X, out3.reshape(M, D), eps, D, base3, "norm", False)
    # 1-D calls, a strided subset (every vector when there are few)
    stride = max(1, M // 150)
    n1 = 0
    for i in range(0, M, stride):
        base1 = dict(D=D, eps=eps_arg, call="1-D (D,)")
        ok1, o1 = call(col, "avg_l1_norm", dict(base1, x=X[i]), fn, jnp.asarray(X[i]), **kw)
        if not ok1:
            break
        if o1.shape != (D,):
            col.violation(SIG.format("avg_l1_norm", K_SHAPE), dict(base1, got=list(o1.shape)))
            break
        judge_norm(col, X[i : i + 1], o1[None], eps, D, base1, "norm", False)
        n1 += 1
    col.outcome("norm_single_vector_calls", n1)
    col.sample(dict(function="avg_l1_norm", D=D, eps=eps_arg, element_alphabet=A, vectors=M))


# ------------------------------------------------------------------------------------------------
# linear schedule
# ------------------------------------------------------------------------------------------------


def work_sched(item, col):
    L = lib()
    fn = L["sched"].linear_schedule
    full = item["full"]
    fracs = [0.01, 0.05, 0.1, 0.3, 0.5, 0.75, 1.0]  # 0.3 and 0.75 are no unit fractions 1/n
    pairs = [(1.0, 0.1), (0.4, 1.0), (0.5, 0), (1, 0.25)]  # the last two: an end / a start given as a Python int
    if full:
        fracs = [0.001, 0.01, 0.02, 0.05, 0.1, 0.25, 1.0 / 3.0, 0.5, 0.75, 0.9, 0.99, 1.0]
        pairs += [(1.0, 0.0), (0.0, 1.0), (0.5, 0.5), (-1.0, 1.0), (2.0, -3.0)]
    s = item["seed"] % 3
    if s:
        pairs = [(a + 0.125 * s if isinstance(a, float) else a, b - 0.0625 * s if isinstance(b, float) else b) for a, b in pairs]
    for T, f, (st, en) in itertools.product(item["T"], fracs, pairs):
        base = dict(total_timesteps=T, start=st, end=en, fraction=f)
        p = Fraction(T) * Fraction(f)  # exact product of the int and the double
        spans = p >= 1
        first_after = math.ceil(p)  # first index i with i >= T*f
        k_impl_like = int(T * f)
        nontrivial = 1 <= k_impl_like < T and st != en
        ok, out = call(col, "linear_schedule", base, fn, T, st, en, f)
        if not ok:
            continue
        col.tick(4, ("sched", T, f, st, en) if nontrivial else None)
        col.outcome("sched_with_transition_and_tail" if nontrivial else ("sched_without_transition" if not spans else "sched_transition_only_or_constant"))
        if out.ndim != 1 or out.shape[0] != T:
            col.violation(SIG.format("linear_schedule", K_SL), dict(base, shape=list(out.shape)))
            continue
        v = out.astype(np.float64)
        det = dict(base, schedule=v[:12], T_times_fraction=float(p))
        if not np.all(np.isfinite(v)):
            col.violation(SIG.format("linear_schedule", K_NF), det)
            continue
        slack = 4 * EPS32 * max(abs(st), abs(en), 1e-30)
        dv = np.diff(v)
        mono = np.all(dv <= slack) if st > en else (np.all(dv >= -slack) if st < en else np.all(np.abs(dv) <= slack))
        if not mono:
            col.violation(SIG.format("linear_schedule", K_SM), det)
        if spans:
            col.outcome("sched_first_value_checked")
            if not abs(v[0] - st) <= 1e-6 * max(1.0, abs(st)):
                col.violation(SIG.format("linear_schedule", K_S0), det)
        tail = v[first_after:]
        col.outcome("sched_tail_values_checked", len(tail))
        if len(tail) and st != en and abs(st - en) > 1e-6:
            col.outcome("sched_cases_where_a_tail_filled_with_start_would_differ")
        if len(tail) and not np.all(np.abs(tail - en) <= 1e-6 * max(1.0, abs(en))):
            bad = first_after + int(np.nonzero(np.abs(tail - en) > 1e-6 * max(1.0, abs(en)))[0][0])
            col.violation(SIG.format("linear_schedule", K_ST), dict(det, first_bad_index=bad, value=v[bad], first_index_after_fraction=first_after))
    col.sample(dict(function="linear_schedule", total_timesteps=item["T"], fractions=fracs, start_end=pairs))


# ------------------------------------------------------------------------------------------------

WORK = dict(twohot=work_twohot, ce=work_ce, huber=work_huber, mask=work_mask, norm=work_norm, sched=work_sched)


def work(item, col):
    WORK[item["group"]](item, col)
