"""C04 - sampled subtrajectories are contiguous single-episode runs (E1 to fixpoint)."""

import numpy as np

from vlib import e1

PROPERTY = "C04"
LEVEL = "model_checking"
USES_JAX = True
RULE = (
    "BFS over add(c/T/U/B) histories on the real SubtrajectoryReplayBuffer(PER) until the frontier is empty "
    "(canonical state = insert_idx, current_len, min(episode_timesteps,H+1), mask, terminates-flag, per written "
    "slot: episodes-ago, age, flags, is-successor-row); in every state, for every sampling horizon h<=H and both "
    "views, sample_batch is driven by a stub generator that returns every admissible start; one evaluation = one "
    "returned window judged by the tag oracle; non-trivial = the buffer has wrapped, or the window holds a "
    "terminated row, or its start lies within H slots of the write position; distinct = distinct (config, "
    "canonical state, start, h, view). A stateless sweep of all {c,T,U,B}^n (no state merging) cross-checks the canonicalisation."
)
ASSUMPTIONS = [
    "the buffer branches only on incoming flags, episode_timesteps vs horizon and indices, never on stored content (canonicalisation argument, DESIGN 3 C04)",
    "'never contains a truncated step / never crosses the write position' is applied to the prefix up to the first terminated step, which the statement calls the subtrajectory; rows after a terminated step are padding",
    "sampling is exercised only in states with at least one admissible start",
    "capacities H+1..6, H<=3 (quick); up to capacity 8, H<=4 (thorough)",
]
SIG = "C04|{}|{}"
BUDGET_S = {"quick": 480, "thorough": 2400}
SENT = -777.0
KNOWN_BUF = {"buffer", "Batch", "buffer_size", "current_len", "insert_idx", "priority", "mask_", "episode_timesteps", "environment_terminates", "horizon"}
KNOWN_PRI = {"priority", "max_priority", "sampled_indices"}


def items(tier, seed):
    out = []
    if tier == "quick":
        cfgs = [(cap, H) for H in (1, 2, 3) for cap in range(H + 1, 7)]
        sweep_n = 5
    else:
        cfgs = [(cap, H) for H in (1, 2, 3, 4) for cap in range(H + 1, 9)]
        sweep_n = 7
    for cls in ("SubtrajectoryReplayBuffer", "SubtrajectoryReplayBufferPER"):
        for cap, H in cfgs:
            out.append(dict(name=f"bfs-{cls}-{cap}-{H}", kind="bfs", cls=cls, cap=cap, H=H, seed=seed))
    for cls in ("SubtrajectoryReplayBuffer", "SubtrajectoryReplayBufferPER"):
        for cap, H in ([(4, 2), (5, 3)] if tier == "quick" else [(3, 1), (4, 2), (5, 3), (6, 3)]):
            out.append(dict(name=f"bfs-MultiTask({cls})-{cap}-{H}", kind="bfs", cls=cls, cap=cap, H=H, seed=seed, mt=True))
    for cls in ("SubtrajectoryReplayBuffer", "SubtrajectoryReplayBufferPER"):
        for cap, H in cfgs:
            if cap > 6 or H > 3:
                continue
            out.append(dict(name=f"sweep-{cls}-{cap}-{H}", kind="sweep", cls=cls, cap=cap, H=H, n=sweep_n, seed=seed))
    return out


class B(e1.Bundle):
    pass


def make(cfg, col):
    from rl_blox.blox import replay_buffer as rb

    bd = B()
    bd.cfg, bd.col = cfg, col
    if cfg.get("mt"):
        # per-task buffers are made by the wrapper from the template; all traffic goes through the wrapper, task 1
        bd.wrapper = rb.MultiTaskReplayBuffer(getattr(rb, cfg["cls"])(cfg["cap"], horizon=cfg["H"]), 2)
        bd.wrapper.select_task(1)
        bd.buf = bd.wrapper.buffers[1]
    else:
        bd.buf = getattr(rb, cfg["cls"])(cfg["cap"], horizon=cfg["H"])
    bd.steps = []  # reference: per global step g -> (ep, k, kind)
    bd.ep, bd.k = 0, 0
    bd.hist = ""
    return bd


def apply(bd, op):
    g = len(bd.steps)
    ep, k = bd.ep, bd.k
    off = bd.cfg["seed"] % 5
    first = bd.buf.current_len == 0
    (bd.wrapper if bd.cfg.get("mt") else bd.buf).add_sample(
        observation=np.array([ep, k, g + off], dtype=float),
        action=np.array([g + off], dtype=float),
        reward=float(g + 1 + off),
        next_observation=np.array([ep, k + 1, g + off], dtype=float),
        terminated=op in "TB",
        truncated=op in "UB",
    )
    if first:
        # poison the slots that were never written so that reading one is observable
        n = bd.buf.current_len
        for key, arr in bd.buf.buffer.items():
            arr[n:] = SENT if arr.dtype.kind == "f" else -7
    bd.steps.append((ep, k, op))
    bd.hist += op
    bd.k += 1
    if op in "TUB":
        bd.ep += 1
        bd.k = 0
    return None


def slot_info(bd, i):
    buf = bd.buf
    off = bd.cfg["seed"] % 5
    o = buf.buffer["observation"][i]
    g = int(round(o[2] - off))
    return int(o[0]), int(o[1]), g


def is_real_step(bd, row):
    """row = dict of field values; returns g if all fields belong to the same real step g, else None."""
    off = bd.cfg["seed"] % 5
    o = row["observation"]
    g = int(round(float(o[2]) - off))
    if not (0 <= g < len(bd.steps)):
        return None
    ep, k, kind = bd.steps[g]
    ok = (
        float(o[0]) == ep and float(o[1]) == k and float(o[2]) == g + off
        and float(row["action"][0]) == g + off
        and float(row["reward"]) == g + 1 + off
        and tuple(float(x) for x in row["next_observation"]) == (ep, k + 1, g + off)
        and int(row["terminated"]) == int(kind in "TB")
        and int(row["truncated"]) == int(kind in "UB")
    )
    return g if ok else None


def canon(bd):
    buf = bd.buf
    H = bd.cfg["H"]
    gnow = len(bd.steps)
    slots = []
    for i in range(buf.current_len):
        row = {k: buf.buffer[k][i] for k in buf.buffer}
        ep, k, g = slot_info(bd, i)
        real = is_real_step(bd, row) is not None
        slots.append((bd.ep - ep, gnow - g, int(row["terminated"]), int(row["truncated"]), real))
    extra = (e1.hidden_state(buf, KNOWN_BUF),)
    if hasattr(buf, "priority"):
        extra += (tuple(buf.priority.priority[: buf.current_len].tolist()), buf.priority.max_priority, e1.hidden_state(buf.priority, KNOWN_PRI))
    return (
        buf.insert_idx,
        buf.current_len,
        min(buf.episode_timesteps, H + 1),
        tuple(int(x) for x in buf.mask_),
        bool(buf.environment_terminates),
        tuple(slots),
        extra,
    )


class StubRng:
    def __init__(self, grid=64):
        self.grid = grid
        self.asked = []

    def integers(self, low, high=None, size=None):
        self.asked.append(("integers", int(low), int(high)))
        return np.arange(size) % max(high, 1)

    def uniform(self, low=0.0, high=1.0, size=None):
        n = size if isinstance(size, int) else int(np.prod(size))
        return (np.arange(n) % self.grid + 0.5) / self.grid

    def choice(self, a, size=None):
        return np.asarray(list(range(int(a))) if isinstance(a, (int, np.integer)) else list(a))[:1]


def judge(bd, hist, h, view, batch, col, entry):
    cfg = bd.cfg
    buf = bd.buf
    H, cap = cfg["H"], cfg["cap"]
    arr = {k: np.asarray(getattr(batch, k)) for k in batch._fields}
    nwin = arr["terminated"].shape[0]
    wrapped = len(bd.steps) + bd.ep >= cap and buf.current_len == cap
    seen_starts = set()
    for w in range(nwin):
        rows = [{k: arr[k][w, j] for k in arr} for j in range(h)]
        g0 = is_real_step(bd, rows[0])
        start_key = tuple(float(x) for x in rows[0]["observation"])
        if start_key in seen_starts:
            continue
        seen_starts.add(start_key)
        has_term = False
        bad = None
        prev_g = None
        for j, row in enumerate(rows):
            if any(np.any(np.asarray(v) == SENT) for v in (row["observation"], row["next_observation"], row["reward"])) or int(row["terminated"]) == -7:
                bad = "reads-never-written-slot"
                break
        if bad is None:
            for j, row in enumerate(rows):
                g = is_real_step(bd, row)
                if g is None:
                    bad = "prefix-row-not-a-stored-step"  # successor/padding row or torn row inside the prefix
                    break
                ep, k, kind = bd.steps[g]
                if kind in "UB":
                    bad = "contains-truncated-step"
                    break
                if prev_g is not None:
                    pe = bd.steps[prev_g][0]
                    if g != prev_g + 1 or ep != pe:
                        bad = "not-contiguous-single-episode"
                        break
                prev_g = g
                if kind == "T":
                    has_term = True
                    break
        near = False
        if g0 is not None:
            # distance (in slots) from the window start to the write position
            near = True if len(bd.steps) - g0 <= H + 1 else False
        nontriv = wrapped or has_term or near
        col.tick(1, (cfg["name"], canon_key(bd), start_key, h, view) if nontriv else None)
        if has_term:
            col.outcome("windows_ending_in_terminated")
        if near:
            col.outcome("windows_starting_within_H_of_write_position")
        if bad:
            col.violation(SIG.format(entry, bad), dict(history=hist, h=h, view=view, window=[{k: np.asarray(v).tolist() for k, v in r.items()} for r in rows]))
    return len(seen_starts)


def canon_key(bd):
    return hash(canon(bd))


def admissible(bd):
    return int(np.count_nonzero(bd.buf.mask_))


def valid_windows_reference(bd, h):
    """Number of windows of length h that are valid under the property, computed from the reference
    history alone (for the completeness report)."""
    n = 0
    buf = bd.buf
    live = set()
    for i in range(buf.current_len):
        row = {k: buf.buffer[k][i] for k in buf.buffer}
        g = is_real_step(bd, row)
        if g is not None:
            live.add(g)
    for g in sorted(live):
        ok = True
        for j in range(h):
            gg = g + j
            if gg not in live or bd.steps[gg][0] != bd.steps[g][0] or bd.steps[gg][2] in "UB":
                ok = False
                break
            if bd.steps[gg][2] == "T":
                break
        n += ok
    return n


def on_state(bd, hist_ops, col=None):
    col = col or bd.col
    cfg = bd.cfg
    buf = bd.buf
    hist = bd.hist
    if buf.current_len == 0:
        return
    if buf.current_len == cfg["cap"] and buf.insert_idx != 0:
        col.outcome("wrapped_full_states")
    if "TT" in hist or "UU" in hist or "TU" in hist or "UT" in hist:
        col.outcome("states_after_back_to_back_one_step_episodes")
    if admissible(bd) == 0:
        col.outcome("states_without_admissible_start")
        return
    entry = cfg["cls"] + ".sample_batch"
    before = canon(bd)
    n_adm = admissible(bd)
    for h in range(1, cfg["H"] + 1):
        bsz = n_adm if cfg["cls"].endswith("PER") is False else 64
        if cfg.get("mt"):
            full = bd.wrapper.sample_batch(bsz, h, True, rng=StubRng())
            reduced = bd.wrapper.sample_batch(bsz, h, False, rng=StubRng())
        else:
            full = buf.sample_batch(bsz, h, True, StubRng())
            reduced = buf.sample_batch(bsz, h, False, StubRng())
        got = judge(bd, hist, h, "intermediate", full, col, entry)
        col.outcome("distinct_starts_sampled", got)
        col.outcome("admissible_starts", n_adm)
        # reduced view == (obs[0], act[0], next_obs[h-1], reward[0:h], flags[0:h]) of the same window
        fa = {k: np.asarray(getattr(full, k)) for k in full._fields}
        ra = {k: np.asarray(getattr(reduced, k)) for k in reduced._fields}
        col.tick(1)
        okv = (
            np.array_equal(ra["observation"], fa["observation"][:, 0])
            and np.array_equal(ra["action"], fa["action"][:, 0])
            and np.array_equal(ra["next_observation"], fa["next_observation"][:, h - 1])
            and np.array_equal(ra["reward"], fa["reward"])
            and np.array_equal(ra["terminated"], fa["terminated"])
            and np.array_equal(ra["truncated"], fa["truncated"])
        )
        if not okv:
            col.violation(SIG.format(entry, "reduced-view-differs-from-window"), dict(history=hist, h=h, full={k: v.tolist() for k, v in fa.items()}, reduced={k: v.tolist() for k, v in ra.items()}))
        if h == cfg["H"]:
            col.outcome("valid_windows_rejected_by_mask(reported only)", max(0, valid_windows_reference(bd, h) - n_adm))
    if cfg["cls"].endswith("PER") and not cfg.get("mt"):
        # the same windows with every stored priority tiny (what update_priority(2^-40) leaves behind): the admissible
        # starts still carry ALL the priority mass, however small it is in absolute terms
        keep = buf.priority.priority.copy()
        buf.priority.priority[: buf.current_len] = 2.0**-40
        try:
            for h in range(1, cfg["H"] + 1):
                tiny = buf.sample_batch(64, h, True, StubRng())
                judge(bd, hist, h, "intermediate(tiny priorities)", tiny, col, entry)
            col.outcome("states_sampled_with_tiny_priorities")
        finally:
            buf.priority.priority[:] = keep
    after = canon(bd)
    if after != before:
        col.violation(SIG.format(entry, "sampling-changed-buffer-state"), dict(history=hist))


def DIVERGENCE_ENTRY(item):
    return ("MultiTaskReplayBuffer(" + item["cls"] + ")") if item.get("mt") else str(item.get("cls"))


def work(item, col):
    cfg = item
    from vlib import poison

    poison.install(SENT)
    if cfg["kind"] == "bfs":
        res = e1.bfs(
            make=lambda: make(cfg, col),
            ops=lambda bd: "cTUB",
            apply=apply,
            canon=canon,
            on_state=on_state,
            max_states=60000,
            max_depth=40,
            validate_make=lambda: make(cfg, e1.NullCol()),
        )
        col.graph(res["states"], res["transitions"], res["validated"], res["max_depth"])
        if not res["fixpoint"]:
            col.cap(f"{cfg['name']}: BFS did not close (cap)")
        col.append("configurations", dict(name=cfg["name"], states=res["states"], transitions=res["transitions"], fixpoint=res["fixpoint"], max_depth=res["max_depth"]))
        deepest = max(res["paths"].values(), key=len)
        col.sample(dict(config=cfg["name"], deepest_history="".join(deepest)))
    else:
        # stateless sweep: every history of length <= n, no state merging (canon = the history)
        res = e1.bfs(
            make=lambda: make(cfg, col),
            ops=lambda bd: "cTUB",
            apply=apply,
            canon=lambda bd: bd.hist,
            on_state=on_state,
            max_depth=cfg["n"],
            validate=False,
        )
        col.outcome("stateless_histories", res["states"])
        col.append("sweeps", dict(name=cfg["name"], histories=res["states"], n=cfg["n"]))
