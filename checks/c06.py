"""C06 - target networks follow the Polyak / hard-copy law, only at update points.

Three parts (DESIGN 3, C06):

* law (engine E3): `soft_target_net_update` / `hard_target_net_update` on every module type the
  algorithms use x tau in {0, 0.005, 0.25, 0.5, 1} x parameter-set pairs, against a float64 reference,
  leaf by leaf; online network bytes-unchanged; no shared Variables / storage afterwards;
* cadence (engine E2): the real train_* of Nature-DQN, DDQN, PER, DDPG, TD3, TD3+LAP, SAC, TD7, MR.Q
  on a scripted environment with tiny networks.  Online and target modules are snapshotted at every
  update boundary (top of every env.step(), and - where several gradient steps happen per
  environment step - at the logger records the routines issue once per gradient step).  Between two
  consecutive boundaries the target must obey the documented rule if the interval contains a
  documented update point (table UPDATE_POINTS below = DESIGN appendix B.2, restated from the
  docstrings) and must be bytes-unchanged otherwise;
* created targets: the same routines called WITHOUT target networks; the targets they create must be
  copies of the online networks and share no Variable with them.
"""

from __future__ import annotations

import contextlib
import importlib
import io
import itertools
from unittest import mock

import jax
import jax.numpy as jnp
import numpy as np
from flax import nnx

from vlib import drivers, senv, snap as S
from vlib.num import EPS32

PROPERTY = "C06"
LEVEL = "exploration"
USES_JAX = True
CLEAR_EVERY = 12
RULE = (
    "law part: full product (module type) x (soft update with tau in {0,0.005,0.25,0.5,1} | hard update) x "
    "(online parameter set) x (target parameter set); one evaluation = one leaf of the updated target compared "
    "with the float64 reference tau*online+(1-tau)*target (or one whole-module bytes comparison: online "
    "unchanged, no shared storage); non-trivial = the leaf's online and target values differ (so the update is "
    "visible and swapping tau/1-tau or the copy direction would change it); distinct = distinct (module type, "
    "rule, tau, parameter-set pair, leaf). cadence part: one run of a real train_* per (routine, delay, "
    "warm-up, tau, script, start step, extra axis); one evaluation = one (boundary interval, target module) "
    "comparison; non-trivial = at a documented update point: leaving the target unchanged would violate the "
    "rule (online differs from the old target); at any other interval: the online network differs from the "
    "target (an update there would be visible); distinct = distinct (run, interval, target module). "
    "created-target part: one evaluation = one (routine, created target) copy / no-sharing comparison"
)
ASSUMPTIONS = [
    "update points are those of DESIGN appendix B.2, restated from the train_* docstrings: Nature-DQN/DDQN/PER hard copy at steps t with t % target_update_frequency == 0; DDPG soft update with every gradient step; TD3/TD3+LAP soft update with the delayed policy update (t % policy_delay == 0); SAC soft update when t % target_network_delay == 0; TD7 and MR.Q hard copies at training iteration e (1-based count of training iterations, offset by max(0, global_step - learning_starts) on resumed runs) with e % target_delay == 0; t is the 0-based global step index the docstrings call t",
    "where the docstring does not order the target copy and the gradient step of the same iteration (all hard-copy routines) the copy may be taken from the online network before or after that gradient step; TD7's fixed-embedding target must receive the OLD fixed embedding and the fixed embedding the current embedding (the paper's rule); soft updates use the online network after the gradient step (the order listed in the docstrings)",
    "Nature-DQN/DDQN/PER: at a step t with t % target_update_frequency == 0 that lies before the documented learning_starts the copy is allowed but not demanded (the warm-up gate itself is property C11)",
    "modules created inside train_td7 (fixed embeddings, checkpoint copies) are observed from their first record_epoch callback / the returned result on; before that they are taken to be copies of the embedding / actor handed in (what the docstring says), and the first observation is checked against that",
    "TD7 checkpoint copies are checked at environment-step granularity against a window machine restated from the assess_performance_and_checkpoint docstring (property C15 checks that machine itself in depth)",
    "soft-update tolerance: 4 float32 epsilons of (|tau*online| + |(1-tau)*target|) per leaf (two roundings of the products, one of 1-tau, one of the sum); tau in {0,1}, hard copies and 'unchanged' are bytes-exact",
    "tiny networks (width 3, embedding sizes 2-3), batch size 2, horizon 8-12, learning rate 1e-2, the shipped nnx.jit mode; tau, delays, warm-ups, scripts outside the stated alphabets are not decided",
    "logger records are issued after the complete gradient step they report (TD7: 'embedding loss' is the first record of a training iteration; DDPG/TD3/TD3+LAP: 'q loss') - used only to separate several gradient steps inside one environment step",
    "flax/jax/optax/numpy/gymnasium behave as documented; the scripted environment, the snapshot helper and the recording logger are trusted",
]
BUDGET_S = {"quick": 480, "thorough": 2400}

SIG = "C06|{}|{}"
# failure kinds (fixed vocabulary)
K_SOFT = "soft-update!=tau*online+(1-tau)*target"
K_TAU1 = "tau=1-not-a-hard-copy"
K_TAU0 = "tau=0-not-a-no-op"
K_HARD = "hard-update-target!=online"
K_ONLINE = "online-network-changed-by-target-update"
K_SHARE = "target-shares-storage-with-online"
K_STRUCT = "target-structure-changed"
K_OFF = "target-changed-outside-update-point"
K_MISSED = "target-not-updated-at-update-point"
K_RULE = "update-rule-violated-at-update-point"
K_REVERSE = "online-overwritten-by-target"
K_CK_OFF = "checkpoint-changed-outside-checkpoint-event"
K_CK_RULE = "checkpoint!=acting-policy-at-checkpoint-event"
K_CREATED_COPY = "created-target-not-a-copy-of-online"
K_CREATED_SHARE = "created-target-shares-storage-with-online"
K_RAISED = "run-raised"

MUST, MAY, MUST_NOT = "must", "may", "must-not"

# -- documented update points (DESIGN appendix B.2) --------------------------------------------------
#   pairs: (target module, online module, allowed sources of the copy: "post" = online after the
#   interval, "pre" = online before the interval)
HARD_EITHER = ("post", "pre")
UPDATE_POINTS = {
    "nature_dqn": dict(entry="train_nature_dqn", rule="hard", unit="step", pairs=[("q_target", "q", HARD_EITHER)]),
    "ddqn": dict(entry="train_ddqn", rule="hard", unit="step", pairs=[("q_target", "q", HARD_EITHER)]),
    "ddqn_per": dict(entry="train_ddqn_per", rule="hard", unit="step", pairs=[("q_target", "q", HARD_EITHER)]),
    "ddpg": dict(entry="train_ddpg", rule="soft", unit="step",
                 pairs=[("policy_target", "policy", ("post",)), ("q_target", "q", ("post",))]),
    "td3": dict(entry="train_td3", rule="soft", unit="step",
                pairs=[("policy_target", "policy", ("post",)), ("q_target", "q", ("post",))]),
    "td3_lap": dict(entry="train_td3_lap", rule="soft", unit="step",
                    pairs=[("policy_target", "policy", ("post",)), ("q_target", "q", ("post",))]),
    "sac": dict(entry="train_sac", rule="soft", unit="step", pairs=[("q_target", "q", ("post",))]),
    "td7": dict(entry="train_td7", rule="hard", unit="iteration",
                pairs=[("actor_target", "actor", HARD_EITHER), ("critic_target", "critic", HARD_EITHER),
                       ("fixed_embedding_target", "fixed_embedding", ("pre",)),
                       ("fixed_embedding", "embedding", HARD_EITHER)]),
    "mrq": dict(entry="train_mrq", rule="hard", unit="iteration",
                pairs=[("policy_with_encoder_target", "policy_with_encoder", HARD_EITHER), ("q_target", "q", HARD_EITHER)]),
}
# first logger record of one gradient step (only used when several gradient steps share an env step)
GRAD_OPENER = {"ddpg": "q loss", "td3": "q loss", "td3_lap": "q loss", "td7": "embedding loss"}
# modules created inside train_td7: logger key -> (our name, the handed-in module they start as a copy of)
TD7_CAPTURE = {
    "fixed_embedding": ("fixed_embedding", "embedding"),
    "fixed_embedding_target": ("fixed_embedding_target", "embedding"),
    "actor_checkpoint": ("actor_checkpoint", "actor"),
    "fixed_embedding_checkpoint": ("fixed_embedding_checkpoint", "embedding"),
}
CKPT_MODS = ("actor_checkpoint", "fixed_embedding_checkpoint")
TRAIN_FN = {
    "nature_dqn": ("rl_blox.algorithm.nature_dqn", "train_nature_dqn", ["q_target_net"]),
    "ddqn": ("rl_blox.algorithm.ddqn", "train_ddqn", ["q_target_net"]),
    "ddqn_per": ("rl_blox.algorithm.per", "train_ddqn_per", ["q_target_net"]),
    "ddpg": ("rl_blox.algorithm.ddpg", "train_ddpg", ["policy_target", "q_target"]),
    "td3": ("rl_blox.algorithm.td3", "train_td3", ["policy_target", "q_target"]),
    "td3_lap": ("rl_blox.algorithm.td3_lap", "train_td3_lap", ["policy_target", "q_target"]),
    "sac": ("rl_blox.algorithm.sac", "train_sac", ["q_target"]),
    "td7": ("rl_blox.algorithm.td7", "train_td7", ["actor_target", "critic_target"]),
    "mrq": ("rl_blox.algorithm.mrq", "train_mrq", ["policy_with_encoder_target", "q_target"]),
}
# returned result: (created target attribute, online attribute it must be a copy of / must not share with)
RESULT_PAIRS = {
    "nature_dqn": [("q_target_net", "q_net")],
    "ddqn": [("q_target_net", "q_net")],
    "ddqn_per": [("q_target_net", "q_net")],
    "ddpg": [("policy_target", "policy"), ("q_target", "q")],
    "td3": [("policy_target", "policy"), ("q_target", "q")],
    "td3_lap": [("policy_target", "policy"), ("q_target", "q")],
    "sac": [("q_target", "q")],
    "td7": [("actor_target", "actor"), ("critic_target", "critic"), ("fixed_embedding", "embedding"),
            ("fixed_embedding_target", "embedding"), ("fixed_embedding_target", "fixed_embedding")],
    "mrq": [("policy_with_encoder_target", "policy_with_encoder"), ("q_target", "q")],
}
ROUTINES = list(UPDATE_POINTS)
SOFT = [n for n in ROUTINES if UPDATE_POINTS[n]["rule"] == "soft"]


def expectation(name, cfg, k, e):
    """What the documentation says about the interval that holds step k / training iteration e.

    k: 0-based global step index (None if the interval holds no environment-step processing);
    e: 1-based training-iteration number (TD7 / MR.Q; None if the interval holds no iteration)."""
    d = cfg["delay"]
    ls = cfg["learning_starts"]
    if name in ("nature_dqn", "ddqn", "ddqn_per"):
        if k is None or k % d != 0:
            return MUST_NOT
        return MUST if k >= ls else MAY
    if name == "ddpg":
        return MUST if (k is not None and k >= ls) else MUST_NOT
    if name in ("td3", "td3_lap", "sac"):
        return MUST if (k is not None and k >= ls and k % d == 0) else MUST_NOT
    if name in ("td7", "mrq"):
        return MUST if (e is not None and e % d == 0) else MUST_NOT
    raise KeyError(name)


# -- snapshots as arrays ---------------------------------------------------------------------------


def arrays(snapshot):
    return [np.frombuffer(b, dtype=np.dtype(dt)).reshape(shape) for (_, dt, shape, b) in snapshot]


def structure(snapshot):
    return tuple((p, dt, shape) for (p, dt, shape, _) in snapshot)


def soft_tol(tau, o64, t64):
    return 4.0 * EPS32 * (np.abs(tau * o64) + np.abs((1.0 - tau) * t64)) + 1e-45


def soft_law(new, old, online, tau):
    """(ok, worst error in units of the tolerance, index of the first failing leaf)."""
    if structure(new) != structure(old) or structure(new) != structure(online):
        return False, float("inf"), -1
    if tau == 1.0:
        return new == online, 0.0, _first_diff(new, online)
    if tau == 0.0:
        return new == old, 0.0, _first_diff(new, old)
    worst, bad = 0.0, -1
    for i, (n, t, o) in enumerate(zip(arrays(new), arrays(old), arrays(online))):
        o64, t64 = o.astype(np.float64), t.astype(np.float64)
        ref = tau * o64 + (1.0 - tau) * t64
        err = np.abs(n.astype(np.float64) - ref) / soft_tol(tau, o64, t64)
        if err.size:
            w = float(err.max())
            worst = max(worst, w)
            if w > 1.0 and bad < 0:
                bad = i
    return bad < 0, worst, bad


def _first_diff(a, b):
    for i, (x, y) in enumerate(zip(a, b)):
        if x != y:
            return i
    return -1


# =====================================================================================================
#  part 1: the law (E3)
# =====================================================================================================

LAW_KINDS = [
    "mlp", "layernorm_mlp", "gaussian_mlp", "tanh_policy", "gaussian_tanh_policy", "double_q_mlp",
    "sale", "actor_sale", "double_q_critic_sale", "sale_policy", "model_based_encoder",
    "policy_with_encoder", "double_q_layernorm",
]
LAW_TAUS = [0.0, 0.005, 0.25, 0.5, 1.0]
ONLINE_SETS = [("A", 1.0), ("A", 1e3), ("zero", 0.0)]
TARGET_SETS = [("B", 1.0), ("B", 1e3), ("zero", 0.0), ("A", 1.0)]  # the last one: equal to the first online set


def law_module(kind, seed):
    from rl_blox.blox.function_approximator.gaussian_mlp import GaussianMLP
    from rl_blox.blox.function_approximator.layer_norm_mlp import LayerNormMLP
    from rl_blox.blox.function_approximator.mlp import MLP

    H = [3]
    env = senv.ScriptEnv("")
    if kind == "mlp":
        return MLP(2, 2, H, "relu", nnx.Rngs(seed))
    if kind == "layernorm_mlp":
        return LayerNormMLP(2, 2, H, "elu", rngs=nnx.Rngs(seed))
    if kind == "gaussian_mlp":
        return GaussianMLP(False, 2, 2, H, "relu", nnx.Rngs(seed))
    if kind in ("tanh_policy", "double_q_mlp"):
        from rl_blox.algorithm.td3 import create_td3_state

        st = create_td3_state(env, policy_hidden_nodes=H, q_hidden_nodes=H, seed=seed)
        return st.policy if kind == "tanh_policy" else st.q
    if kind == "gaussian_tanh_policy":
        from rl_blox.algorithm.sac import create_sac_state

        return create_sac_state(env, policy_hidden_nodes=H, q_hidden_nodes=H, seed=seed).policy
    if kind in ("sale", "actor_sale", "double_q_critic_sale", "sale_policy"):
        from rl_blox.algorithm.td7 import create_td7_state
        from rl_blox.blox.embedding.sale import DeterministicSALEPolicy

        st = create_td7_state(
            env, n_embedding_dimensions=3, state_embedding_hidden_nodes=H, state_action_embedding_hidden_nodes=H,
            policy_sa_encoding_nodes=3, policy_hidden_nodes=H, q_sa_encoding_nodes=3, q_hidden_nodes=H, seed=seed,
        )
        return {"sale": st.embedding, "actor_sale": st.actor, "double_q_critic_sale": st.critic,
                "sale_policy": DeterministicSALEPolicy(st.embedding, st.actor)}[kind]
    if kind in ("model_based_encoder", "policy_with_encoder", "double_q_layernorm"):
        from rl_blox.algorithm.mrq import create_mrq_state

        st = create_mrq_state(
            env, policy_hidden_nodes=H, q_hidden_nodes=H, encoder_n_bins=5, encoder_zs_dim=3, encoder_za_dim=2,
            encoder_zsa_dim=3, encoder_hidden_nodes=H, seed=seed,
        )
        return {"model_based_encoder": st.policy_with_encoder.encoder, "policy_with_encoder": st.policy_with_encoder,
                "double_q_layernorm": st.q}[kind]
    raise KeyError(kind)


def set_leaves(module, tag, scale, seed):
    """Overwrite EVERY leaf (parameters and plain Variables) with values owned by the harness."""
    state = nnx.state(module)
    rng = np.random.default_rng([{"A": 11, "B": 23, "C": 37, "zero": 0}[tag], seed])

    def new(x):
        shape = np.shape(x)
        if scale == 0.0:
            return jnp.zeros(shape, dtype=jnp.float32)
        return jnp.asarray((rng.standard_normal(shape) * scale).astype(np.float32))

    nnx.update(module, jax.tree_util.tree_map(new, state))


def law_work(item, col):
    from rl_blox.blox.target_net import hard_target_net_update, soft_target_net_update

    kind, seed = item["kind"], int(item["seed"])
    net = law_module(kind, seed)
    tgt = law_module(kind, seed + 5)
    worst = 0.0
    rules = [("soft", tau) for tau in LAW_TAUS] + [("hard", None)]
    for (rule, tau), oset, tset in itertools.product(rules, ONLINE_SETS, TARGET_SETS):
        set_leaves(net, oset[0], oset[1], seed)
        set_leaves(tgt, tset[0], tset[1], seed)
        o0, t0 = S.snap(net), S.snap(tgt)
        entry = "soft_target_net_update" if rule == "soft" else "hard_target_net_update"
        case = dict(module=kind, rule=rule, tau=tau, online_set=list(oset), target_set=list(tset), seed=seed)
        if rule == "soft":
            soft_target_net_update(net, tgt, tau)
        else:
            hard_target_net_update(net, tgt)
        jax.effects_barrier()
        o1, t1 = S.snap(net), S.snap(tgt)
        ck = (kind, rule, tau, oset, tset)
        differs = o0 != t0
        # online untouched
        col.tick(1, ("online", ck) if differs else None)
        if o1 != o0:
            col.violation(SIG.format(entry, K_ONLINE), dict(case, leaf=o0[_first_diff(o0, o1)][0]))
        if structure(t1) != structure(t0):
            col.violation(SIG.format(entry, K_STRUCT), dict(case, before=structure(t0), after=structure(t1)))
            continue
        # the law, leaf by leaf
        eff_tau = 1.0 if rule == "hard" else tau
        for i, (n, t, o) in enumerate(zip(arrays(t1), arrays(t0), arrays(o0))):
            leaf_differs = not np.array_equal(t, o)
            col.tick(1, ("leaf", ck, i) if leaf_differs else None)
            if leaf_differs:
                col.outcome("law_leaves_where_online_differs_from_target")
                if eff_tau not in (0.5,):
                    col.outcome("law_leaves_where_swapping_tau_and_1-tau_changes_the_result")
            o64, t64 = o.astype(np.float64), t.astype(np.float64)
            if eff_tau == 1.0:
                ok = t1[i] == o0[i]
                k = K_HARD if rule == "hard" else K_TAU1
            elif eff_tau == 0.0:
                ok = t1[i] == t0[i]
                k = K_TAU0
            else:
                ref = eff_tau * o64 + (1.0 - eff_tau) * t64
                err = np.abs(n.astype(np.float64) - ref) / soft_tol(eff_tau, o64, t64)
                w = float(err.max()) if err.size else 0.0
                worst = max(worst, w)
                ok = w <= 1.0
                k = K_SOFT
            if not ok:
                col.violation(SIG.format(entry, k), dict(case, leaf=t0[i][0], online=o.ravel()[:4], target_before=t.ravel()[:4],
                                                         target_after=n.ravel()[:4]))
        # no storage shared afterwards: no common Variable, and rewriting the online net leaves the target alone
        col.tick(1, ("share", ck))
        shared = S.aliases(net, tgt)
        set_leaves(net, "C", 1.0, seed)
        jax.effects_barrier()
        if shared or S.snap(tgt) != t1:
            col.violation(SIG.format(entry, K_SHARE), dict(case, shared_variables=len(shared)))
            net = law_module(kind, seed)  # un-alias for the remaining cases
            tgt = law_module(kind, seed + 5)
        col.outcome("law_cases")
    col.append("law_worst_error_in_tolerance_units", dict(module=kind, worst=round(worst, 4), leaves=len(S.snap(net))))
    col.sample(dict(part="law", module=kind, leaves=[p for p, _, _, _ in S.snap(net)][:6], cases=len(rules) * len(ONLINE_SETS) * len(TARGET_SETS)))


# =====================================================================================================
#  part 2: cadence inside the real training loops (E2)
# =====================================================================================================


def predict_checkpoints(steps, ls, win, thr, weight):
    """Window machine restated from the assess_performance_and_checkpoint docstring (cf. C15).

    steps: [(reward, episode ended)] per environment step -> [checkpoint replaced at this step?]"""
    window, best, open_, switched, its = 1, None, [], False, 0
    length, ret, out = 0, 0.0, []
    for t, (r, ended) in enumerate(steps):
        length += 1
        ret += r
        flag = False
        if ended:
            if t >= ls:
                open_.append((length, ret))
                cut = best is not None and any(x < best for _, x in open_)
                complete = (not cut) and len(open_) >= window
                if cut or complete:
                    released = sum(n for n, _ in open_)
                    if complete:
                        best = min(x for _, x in open_)
                        flag = True
                    if not switched and its < thr <= its + released:
                        switched, window = True, win
                        if best is not None:
                            best = best * weight
                    its += released
                    open_ = []
            length, ret = 0, 0.0
        out.append(flag)
    return out


class Recorded:
    pass


def run_routine(name, script, cfg, strip_targets=False):
    """One real train_* run; boundaries = [(label, {module: snapshot})]."""
    drivers._register_logger()
    cfg = dict(cfg)  # drivers.build keeps private entries in the dict it is given
    env = drivers.make_env(name, script, cfg)
    patch = contextlib.nullcontext()
    if strip_targets:
        modname, fname, keys = TRAIN_FN[name]
        module = importlib.import_module(modname)
        orig = getattr(module, fname)

        def without_targets(*a, **k):
            for key in keys:
                k[key] = None
            return orig(*a, **k)

        patch = mock.patch.object(module, fname, without_targets)
    with patch:
        call, mods = drivers.build(name, env, cfg)
    rb = drivers.new_buffer(name, cfg)
    r = Recorded()
    r.env, r.mods, r.bounds, r.error, r.result, r.captured_at = env, mods, [], None, None, {}
    watch = sorted({m for t, o, _ in UPDATE_POINTS[name]["pairs"] for m in (t, o)} | (set(CKPT_MODS) if name == "td7" else set()))
    r.watch = watch
    init = {}
    if name == "td7":
        for _, (ours, src) in TD7_CAPTURE.items():
            init[ours] = S.snap(mods[src])
    if strip_targets:
        for k in [k for k in mods if k.endswith("_target")]:
            del mods[k]

    def boundary(label):
        jax.effects_barrier()
        sn = {}
        for m in watch:
            if m in mods:
                sn[m] = S.snap(mods[m])
            elif m in init:
                sn[m] = init[m]
        r.bounds.append((label, sn))

    env.on_step = lambda e: boundary(("step", e.t))
    logger = None
    if cfg.get("logger"):
        def on_record(kind, key, value, step):
            if name == "td7" and kind == "epoch" and key in TD7_CAPTURE and TD7_CAPTURE[key][0] not in mods:
                mods[TD7_CAPTURE[key][0]] = value
                r.captured_at[TD7_CAPTURE[key][0]] = len(r.bounds)
            boundary((kind, key, step))

        logger = drivers.RecLogger(on_record)
    kw = drivers.loop_kwargs(name, script, cfg)
    if logger is not None:
        kw["logger"] = logger
    r.kwargs = {k: v for k, v in kw.items() if k != "logger"}
    try:
        with contextlib.redirect_stdout(io.StringIO()):
            r.result = call(rb, kw)
    except Exception as e:  # noqa: BLE001 - reported by the caller as a violation, never swallowed
        r.error = f"{type(e).__name__}: {e}"[:300]
        return r
    if name == "td7" and not strip_targets:
        res = r.result
        late = {"fixed_embedding_target": res.fixed_embedding_target}
        if cfg.get("use_checkpoints"):
            late.update(actor_checkpoint=res.actor, fixed_embedding_checkpoint=res.fixed_embedding)
        else:
            late.update(fixed_embedding=res.fixed_embedding)
        for k, v in late.items():
            if k not in mods:
                mods[k] = v
                r.captured_at[k] = len(r.bounds)
    boundary(("end", env.t))
    return r


def segments(name, r, use_grad):
    """Groups of boundaries with no gradient step between them.

    -> [dict(label, first={module: snap}, last={module: snap}, lo, hi)]"""
    opener = GRAD_OPENER.get(name) if use_grad else None
    segs = []
    for i, (label, sn) in enumerate(r.bounds):
        opens = label[0] in ("step", "end") or (opener is not None and label[0] == "stat" and label[1] == opener)
        if opens or not segs:
            segs.append(dict(label=label, first=sn, last=sn, lo=i, hi=i))
        else:
            segs[-1]["last"] = sn
            segs[-1]["hi"] = i
    return segs


def cadence_work(item, col):
    name, script, cfg = item["routine"], item["script"], dict(item["cfg"])
    spec = UPDATE_POINTS[name]
    entry = spec["entry"]
    g = int(cfg.get("global_step") or 0)
    ls = cfg["learning_starts"]
    tau = cfg.get("tau")
    use_grad = bool(cfg.get("logger"))
    detail0 = dict(routine=entry, script=script, config={k: v for k, v in cfg.items() if k not in ("levels",)}, levels=cfg.get("levels", ""))
    r = run_routine(name, script, cfg)
    col.tick(1)
    if r.error is not None:
        col.violation(SIG.format(entry, K_RAISED), dict(detail0, error=r.error))
        return
    segs = segments(name, r, use_grad)
    runkey = item["name"]
    # -- nothing changes between two records of the same gradient step ------------------------------
    for s in segs:
        for i in range(s["lo"], s["hi"]):
            a, b = r.bounds[i][1], r.bounds[i + 1][1]
            for m in a:
                if m in CKPT_MODS or r.captured_at.get(m, -1) == i + 1:
                    continue
                if m in b and a[m] != b[m] and any(m == t for t, _, _ in spec["pairs"]):
                    col.violation(SIG.format(entry, K_OFF), dict(detail0, module=m, between=[r.bounds[i][0], r.bounds[i + 1][0]]))
    # -- interval by interval ---------------------------------------------------------------------------
    e0 = max(0, g - ls)
    iteration = e0  # training iterations completed so far (TD7 / MR.Q)
    step_of = None  # environment step being processed
    timeline = []
    n_must = n_visible = 0
    for j in range(len(segs) - 1):
        a, b = segs[j], segs[j + 1]
        if a["label"][0] == "step":
            step_of = g + a["label"][1]
        lab = b["label"]
        k = e = None
        if use_grad and name in GRAD_OPENER:
            if lab[0] == "stat":  # the interval holds exactly one gradient step of environment step `step_of`
                k = step_of
                if spec["unit"] == "iteration":
                    iteration += 1
                    e = iteration
        else:  # environment-step granularity: the interval is the whole processing of step `step_of`
            k = step_of
            if spec["unit"] == "iteration" and k is not None and k >= ls:
                iteration += 1
                e = iteration
        want = expectation(name, cfg, k, e)
        if want == MUST:
            n_must += 1
        timeline.append([list(lab[:2]) if lab[0] != "stat" else ["grad", lab[2]], k, e, want])
        for tname, oname, sources in spec["pairs"]:
            old_t, new_t = a["last"][tname], b["last"][tname]
            old_o, new_o = a["last"][oname], b["last"][oname]
            changed = new_t != old_t
            d = dict(detail0, target=tname, online=oname, interval=[list(a["label"]), list(lab)], step=k, iteration=e,
                     documented=want, target_changed=changed, timeline=timeline[-12:])

            def law(new):
                for src in sources:
                    o = new_o if src == "post" else old_o
                    if spec["rule"] == "hard":
                        if new == o:
                            return True
                    elif soft_law(new, old_t, o, tau)[0]:
                        return True
                return False

            if want == MUST_NOT:
                visible = new_o != old_t
                col.tick(1, ("off", runkey, j, tname) if visible else None)
                if visible:
                    col.outcome("cadence_non_update_intervals_where_an_update_would_be_visible")
                if changed:
                    col.violation(SIG.format(entry, K_OFF), d)
            else:
                ok = law(new_t)
                skip_visible = not law(old_t)  # leaving the target alone would break the rule
                col.tick(1, ("upd", runkey, j, tname) if skip_visible else None)
                if want == MUST and new_o != old_o:
                    col.outcome("cadence_update_points_where_the_online_network_moved_in_the_interval")
                if want == MUST and skip_visible:
                    n_visible += 1
                    col.outcome("cadence_update_points_where_skipping_the_update_is_visible")
                    if spec["rule"] == "soft" and tau not in (0.5,):
                        col.outcome("cadence_soft_updates_where_swapping_tau_is_visible")
                if want == MAY:
                    col.outcome("cadence_update_points_before_documented_learning_start")
                    ok = ok or not changed
                if not ok:
                    kind = K_RULE if changed else K_MISSED
                    if spec["rule"] == "soft":
                        d["law_error_in_tolerance_units"] = soft_law(new_t, old_t, new_o, tau)[1]
                    col.violation(SIG.format(entry, kind), d)
            # a copy in the wrong direction makes the online net equal to the old target
            if old_o != old_t and new_o == old_t and new_o != old_o:
                col.violation(SIG.format(entry, K_REVERSE), d)
    # -- TD7 checkpoint copies, at environment-step granularity --------------------------------------
    if name == "td7" and cfg.get("use_checkpoints"):
        tops = [s for s in segs if s["label"][0] in ("step", "end")]
        steps = [(e_[3], bool(e_[4] or e_[5])) for e_ in r.env.log if e_[0] == "step"]
        flags = predict_checkpoints(steps, ls, cfg.get("window", 2), cfg.get("threshold", 3), cfg.get("reset_weight", 0.9))
        for t in range(len(tops) - 1):
            a, b = tops[t], tops[t + 1]
            acting = dict(actor_checkpoint=a["first"]["actor"], fixed_embedding_checkpoint=a["first"]["fixed_embedding"])
            for m in CKPT_MODS:
                old_c, new_c = a["first"][m], b["first"][m]
                d = dict(detail0, module=m, env_step=g + t, predicted_checkpoint=flags[t], per_step_predicted=flags)
                visible = acting[m] != old_c
                if flags[t]:
                    col.tick(1, ("ckpt", runkey, t, m) if visible else None)
                    col.outcome("cadence_td7_checkpoint_events")
                    if visible:
                        col.outcome("cadence_td7_checkpoint_events_of_a_changed_policy")
                    if new_c != acting[m]:
                        col.violation(SIG.format(entry, K_CK_RULE), d)
                else:
                    col.tick(1, ("ckpt-off", runkey, t, m) if visible else None)
                    if new_c != old_c:
                        col.violation(SIG.format(entry, K_CK_OFF), d)
    # -- targets handed in never become aliases of the online networks ----------------------------------
    for tname, oname, _ in spec["pairs"]:
        if tname in r.mods and oname in r.mods:
            col.tick(1)
            if S.aliases(r.mods[oname], r.mods[tname]):
                col.violation(SIG.format(entry, K_SHARE), dict(detail0, target=tname, online=oname))
    col.outcome("cadence_runs")
    col.outcome(f"cadence_runs_{name}")
    col.outcome("cadence_documented_update_points", n_must)
    if n_must and not n_visible:
        col.outcome("cadence_runs_without_a_visible_update_point")
        col.append("runs_without_a_visible_update_point", runkey)
    if n_visible >= 2:
        col.outcome("cadence_runs_with_two_or_more_visible_update_points")
    if item.get("sample"):
        col.sample(dict(part="cadence", run=runkey, timeline=timeline[:16]))


# =====================================================================================================
#  part 3: targets created by the routines
# =====================================================================================================


def created_work(item, col):
    name, script, cfg = item["routine"], item["script"], dict(item["cfg"])
    entry = UPDATE_POINTS[name]["entry"]
    detail0 = dict(routine=entry, script=script, config=cfg, learning=item["learning"])
    r = run_routine(name, script, cfg, strip_targets=True)
    col.tick(1)
    if r.error is not None:
        col.violation(SIG.format(entry, K_RAISED), dict(detail0, error=r.error))
        return
    res = r.result
    jax.effects_barrier()
    pairs = list(RESULT_PAIRS[name])
    for tattr, oattr in pairs:
        tmod, omod = getattr(res, tattr), getattr(res, oattr)
        handed_in = {"q_net": "q", "policy": "policy", "q": "q", "actor": "actor", "critic": "critic", "embedding": "embedding",
                     "policy_with_encoder": "policy_with_encoder"}.get(oattr)
        col.tick(1, ("created-share", name, tattr, oattr, item["learning"]))
        shared = S.aliases(omod, tmod)
        if handed_in in r.mods:
            shared = shared or S.aliases(r.mods[handed_in], tmod)
        if shared or tmod is omod:
            col.violation(SIG.format(entry, K_CREATED_SHARE), dict(detail0, target=tattr, online=oattr, shared_variables=len(shared)))
        if not item["learning"]:
            # no update ever ran: the created target still is the copy it started as
            col.tick(1, ("created-copy", name, tattr, oattr))
            if S.snap(tmod) != S.snap(omod):
                col.violation(SIG.format(entry, K_CREATED_COPY), dict(detail0, target=tattr, online=oattr))
        elif S.snap(tmod) != S.snap(omod):
            col.outcome("created_targets_that_differ_from_online_after_learning")
    if name == "td7" and cfg.get("use_checkpoints"):
        # checkpoint copies are returned in place of the actor / fixed embedding
        for tattr, src in (("actor", "actor"), ("fixed_embedding", "embedding")):
            col.tick(1, ("created-share", name, "checkpoint", tattr))
            if S.aliases(r.mods[src], getattr(res, tattr)):
                col.violation(SIG.format(entry, K_CREATED_SHARE), dict(detail0, target=tattr + "(checkpoint)", online=src))
    col.outcome("created_target_runs")
    col.sample(dict(part="created", routine=entry, learning=item["learning"], pairs=[list(p) for p in pairs]))


# =====================================================================================================
#  enumeration
# =====================================================================================================

T_DEFAULT = 8


def _cfg(name, seed, delay, ls, tau=None, **extra):
    cfg = dict(delay=delay, learning_starts=ls, batch_size=2, buffer_size=16, net_seed=seed, seed=seed + 1, env_horizon=None)
    if tau is not None:
        cfg["tau"] = tau
    cfg.update(extra)
    return cfg


def _name(name, script, cfg):
    bits = [name, f"d{cfg['delay']}", f"ls{cfg['learning_starts']}"]
    if "tau" in cfg:
        bits.append(f"tau{cfg['tau']}")
    for k in ("global_step", "update_frequency", "gradient_steps", "policy_delay", "use_checkpoints", "window", "threshold", "total_episodes"):
        if cfg.get(k):
            bits.append(f"{k}{cfg[k]}")
    if cfg.get("levels"):
        bits.append("lv" + cfg["levels"])
    bits.append(script)
    return "cadence-" + "-".join(str(b) for b in bits)


def _item(name, script, cfg, sample=False):
    cfg = dict(cfg)
    g = int(cfg.get("global_step") or 0)
    cfg["total_timesteps"] = g + len(script)
    cfg["env_horizon"] = len(script) + 2
    # one or two plain configurations per routine are written into the evidence as samples
    plain = not any(cfg.get(k) for k in ("global_step", "gradient_steps")) and cfg.get("update_frequency", 1) == 1
    sample = sample or (plain and cfg["delay"] == (1 if name == "ddpg" else 2) and cfg["learning_starts"] in (2, 4) and "T" in script)
    return dict(name=_name(name, script, cfg), part="cadence", routine=name, script=script, cfg=cfg, sample=bool(sample))


def cadence_items(tier, seed):
    out = []
    T = T_DEFAULT
    delays = [1, 2, 3]
    if tier == "quick":
        scripts = ["c" * T, "cccTcccc", "ccUccccc"]
        soft_combos = [(0, 0.25, scripts[0]), (2, 1.0, scripts[1]), (2, 0.25, scripts[2]), (0, 1.0, "cTccccUc")]
        hard_combos = [(0, scripts[0]), (2, scripts[1]), (2, scripts[2])]
        for name in ("nature_dqn", "ddqn", "ddqn_per"):
            for d, (ls, s) in itertools.product(delays, hard_combos):
                out.append(_item(name, s + "cc", _cfg(name, seed, d, ls), sample=(d == 3 and ls == 0)))
        for ls, tau, s in soft_combos:
            out.append(_item("ddpg", s, _cfg("ddpg", seed, 1, ls, tau)))
        for name in ("td3", "td3_lap", "sac"):
            for d, (ls, tau, s) in itertools.product(delays, soft_combos):
                out.append(_item(name, s, _cfg(name, seed, d, ls, tau), sample=(name == "td3" and d == 2 and ls == 2 and tau == 0.25)))
        for d, (ls, s) in itertools.product(delays, hard_combos):
            out.append(_item("td7", s + "cc", _cfg("td7", seed, d, ls, logger=True, policy_delay=1 + (d + ls) % 2, use_checkpoints=False)))
        ck_scripts = [("cTcTcTcTcT", "9988776655"), ("ccTccUccTc", "0090009000"), ("TTTTTTTTTT", "0123454321")]
        for d, (s, lv) in itertools.product(delays, ck_scripts):
            out.append(_item("td7", s, _cfg("td7", seed, d, 2, logger=True, policy_delay=2, use_checkpoints=True, levels=lv,
                                            window=2, threshold=3, reset_weight=0.5), sample=(d == 2 and s[0] == "T")))
        for d, (ls, s) in itertools.product(delays, [(4, "c" * 10), (4, "cccTcccccc"), (5, "ccUccccccc")]):
            out.append(_item("mrq", s, _cfg("mrq", seed, d, ls)))
        # several gradient steps per environment step; a resumed run
        out.append(_item("td3", "cccTcccc", _cfg("td3", seed, 2, 2, 0.25, logger=True, gradient_steps=2)))
        out.append(_item("ddpg", "ccUccccc", _cfg("ddpg", seed, 1, 2, 0.25, logger=True, gradient_steps=2)))
        for name in ("nature_dqn", "ddqn", "ddqn_per"):
            out.append(_item(name, "cccTcccccc", _cfg(name, seed, 3, 0, update_frequency=2)))
        # the run ends through the episode limit on a step that is an update point: the copy due on that last step happens too
        for name in ("nature_dqn", "ddqn", "ddqn_per"):
            for d_, sc_, ne_ in ((1, "ccccTccc", 1), (2, "ccccTccc", 1), (3, "cccTccTc", 2)):
                out.append(_item(name, sc_, _cfg(name, seed, d_, 0, total_episodes=ne_, global_step=0)))
        # resumed with a handed-in target; the first update point of the call comes before its first gradient step
        for name in ("nature_dqn", "ddqn", "ddqn_per"):
            out.append(_item(name, "cccTcccc", _cfg(name, seed, 3, 0, global_step=3, update_frequency=2)))
        out.append(_item("td7", "cccTcccc", _cfg("td7", seed, 3, 2, logger=True, policy_delay=2, use_checkpoints=False, global_step=4)))
        out.append(_item("nature_dqn", "cccTcccc", _cfg("nature_dqn", seed, 3, 0, global_step=4)))
        out.append(_item("sac", "cccTcccc", _cfg("sac", seed, 3, 2, 0.25, global_step=4)))
        # resumed MR.Q: the training-iteration count that keys the hard copies continues from global_step - learning_starts
        out.append(_item("mrq", "cccTcccccc", _cfg("mrq", seed, 3, 4, global_step=6)))
        out.append(_item("mrq", "cccccccccc", _cfg("mrq", seed, 2, 4, global_step=7)))
        return out
    # thorough: full products (the two-valued tau / update-frequency axes in full, the edge values on a script subset)
    scripts = senv.scripts(T, "cTU", max_dev=1)
    few = ["c" * T, "cccTcccc", "ccUccccc", "cTccccUc", "TTUUTTUU"]
    for name in ("nature_dqn", "ddqn", "ddqn_per"):
        for d, ls, s in itertools.product(delays, [0, 2, 5], scripts):
            out.append(_item(name, s + "cc", _cfg(name, seed, d, ls)))
        for d, ls, s in itertools.product(delays, [0, 2, 5], few):
            out.append(_item(name, s + "cc", _cfg(name, seed, d, ls, update_frequency=2)))
        for d, gs, s in itertools.product(delays, [3, 4], few):
            out.append(_item(name, s, _cfg(name, seed, d, 0, global_step=gs)))
            out.append(_item(name, s, _cfg(name, seed, d, 0, global_step=gs, update_frequency=2)))
    for ls, tau, s in itertools.product([0, 2], [0.25, 1.0], scripts):
        out.append(_item("ddpg", s, _cfg("ddpg", seed, 1, ls, tau)))
    for ls, tau, s in itertools.product([0, 2], [0.0, 0.005], few):
        out.append(_item("ddpg", s, _cfg("ddpg", seed, 1, ls, tau)))
    for name in ("td3", "td3_lap", "sac"):
        for d, ls, tau, s in itertools.product(delays, [0, 2], [0.25, 1.0], scripts):
            out.append(_item(name, s, _cfg(name, seed, d, ls, tau)))
        for d, ls, tau, s in itertools.product(delays, [0, 2], [0.0, 0.005], few):
            out.append(_item(name, s, _cfg(name, seed, d, ls, tau)))
        for d, gs, s in itertools.product(delays, [3, 4], few):
            out.append(_item(name, s, _cfg(name, seed, d, 2, 0.25, global_step=gs)))
    for name in ("ddpg", "td3", "td3_lap"):
        for d, gsteps, s in itertools.product([1] if name == "ddpg" else delays, [2, 3], few):
            out.append(_item(name, s, _cfg(name, seed, d, 2, 0.25, logger=True, gradient_steps=gsteps)))
    for d, ls, pd, s in itertools.product(delays, [0, 2], [1, 2], few):
        out.append(_item("td7", s + "cc", _cfg("td7", seed, d, ls, logger=True, policy_delay=pd, use_checkpoints=False)))
    for d, gs in itertools.product(delays, [3, 5]):
        out.append(_item("td7", "cccTcccc", _cfg("td7", seed, d, 2, logger=True, policy_delay=2, use_checkpoints=False, global_step=gs)))
    ck = [("cTcTcTcTcTcT", "998877665544"), ("ccTccUccTccT", "009000900090"), ("TTTTTTTTTTTT", "012345432101"),
          ("cTcTcTcTcTcT", "000000000000"), ("cccTcUcTccTc", "998877665544"), ("TcTTcTTcTTcT", "012345432101")]
    for d, (s, lv), (win, thr, w) in itertools.product(delays, ck, [(2, 3, 0.5), (3, 1, 1.0)]):
        out.append(_item("td7", s, _cfg("td7", seed, d, 2, logger=True, policy_delay=2, use_checkpoints=True, levels=lv,
                                        window=win, threshold=thr, reset_weight=w)))
    for d, ls, s in itertools.product(delays, [4, 5], ["c" * 10, "cccTcccccc", "ccUccccccc", "cTccccUccc", "cccccTTUcc"]):
        out.append(_item("mrq", s, _cfg("mrq", seed, d, ls)))
    for d in delays:
        out.append(_item("mrq", "cccTcccccc", _cfg("mrq", seed, d, 4, global_step=6)))
    return out


def created_items(tier, seed):
    out = []
    for name in ROUTINES:
        T = 10 if name in ("mrq", "td7") else 8
        ls = 4 if name == "mrq" else 2
        s = ("cccTcccccc" if T == 10 else "cccTcccc")
        variants = [(False, dict()), (True, dict())]
        if name == "td7":
            variants = [(False, dict(use_checkpoints=False)), (True, dict(use_checkpoints=False)), (True, dict(use_checkpoints=True))]
        for learning, extra in variants:
            tau = 0.25 if name in SOFT else None
            if learning:
                cfg = _cfg(name, seed, 2, ls, tau, **extra)
            else:
                cfg = _cfg(name, seed, 2, 10**6, tau, **extra)
                if name in drivers.DISCRETE:
                    cfg.update(batch_size=100, learning_starts=0)
            cfg["total_timesteps"] = len(s)
            cfg["env_horizon"] = len(s) + 2
            nm = f"created-{name}-{'learning' if learning else 'warmup-only'}" + ("-ckpt" if extra.get("use_checkpoints") else "")
            out.append(dict(name=nm, part="created", routine=name, script=s, cfg=cfg, learning=learning))
    return out


def frozen_items(tier, seed):
    """Online networks frozen (learning rate 0), handed-in targets that differ from them, several gradient steps per
    environment step: after an environment step with g soft updates the distance target - online has shrunk by (1 - tau)^g."""
    out = []
    for name in ("ddpg", "td3", "td3_lap"):
        for g in ((1, 2, 3) if tier == "quick" else (1, 2, 3, 4)):
            out.append(dict(name=f"frozen-{name}-g{g}", part="frozen", routine=name, gradient_steps=g, seed=seed,
                            taus=[0.25] if tier == "quick" else [0.25, 0.5, 0.005]))
    return out


def frozen_work(item, col):
    name, g = item["routine"], item["gradient_steps"]
    entry = "train_" + name
    for tau, ls, strip in itertools.product(item["taus"], (0, 2), (None, "policy", "q")):
        script = "cccTcc"
        cfg = dict(buffer_size=16, env_horizon=len(script) + 3, learning_starts=ls, batch_size=2, seed=1 + item["seed"], net_seed=item["seed"], delay=1,
                   tau=tau, lr=0.0, target_scale=0.5, gradient_steps=g, snap=True)
        if strip:
            cfg["strip_target"] = strip  # only ONE target is handed in: it is still the one that is updated (and by the rule)
        r = drivers.run(name, script, **cfg)
        col.tick(1)
        det0 = dict(routine=entry, script=script, tau=tau, learning_starts=ls, gradient_steps=g, only_target_handed_in={None: "both", "policy": "q_target", "q": "policy_target"}[strip])
        if r.error is not None or r.result is None:
            col.violation(SIG.format(entry, K_RAISED), dict(det0, error=str(r.error)))
            continue
        snaps = [s for s in r.snaps]  # ("step", t, {module: snapshot}) taken at the top of env.step, plus ("end", ...)
        for (k0, t0, a), (k1, t1, b) in zip(snaps, snaps[1:]):
            step = t0  # the interval holds the processing of the environment step with 0-based index t0
            for tname, oname in (("q_target", "q"), ("policy_target", "policy")):
                if strip == oname:
                    continue  # the routine made this target itself; the harness' object is not in use
                o = np.concatenate([x.astype(np.float64).ravel() for x in arrays(a[oname])])
                o2 = np.concatenate([x.astype(np.float64).ravel() for x in arrays(b[oname])])
                t_old = np.concatenate([x.astype(np.float64).ravel() for x in arrays(a[tname])])
                t_new = np.concatenate([x.astype(np.float64).ravel() for x in arrays(b[tname])])
                if not np.array_equal(o, o2):
                    raise RuntimeError("frozen item: the online network moved although its learning rate is 0")
                n_upd = g if step >= ls else 0
                want = o + (1.0 - tau) ** n_upd * (t_old - o)
                col.tick(1, ("frozen", name, g, tau, ls, step, tname) if n_upd > 1 else None)
                col.outcome("frozen_intervals_compared")
                if n_upd > 1:
                    col.outcome("frozen_intervals_with_several_soft_updates")
                tol = 1e-5 * np.maximum(1.0, np.abs(want))
                if not np.all(np.abs(t_new - want) <= tol):
                    # how many updates would explain it?
                    num_, den_ = (t_new - o), (t_old - o)
                    m = np.abs(den_) > 1e-3
                    ratio = float(np.median(num_[m] / den_[m])) if m.any() else float("nan")
                    kind = K_MISSED if n_upd and abs(ratio - 1.0) < 1e-6 else (K_OFF if not n_upd else K_RULE)
                    col.violation(SIG.format(entry, kind), dict(det0, target=tname, env_step=step, soft_updates_expected=n_upd, expected_shrink=(1.0 - tau) ** n_upd, observed_shrink=ratio))
                    break
    col.sample(dict(kind="frozen online networks", routine=entry, gradient_steps=g, taus=item["taus"]))


def items(tier, seed):
    law = [dict(name=f"law-{k}", part="law", kind=k, seed=seed) for k in LAW_KINDS]
    cad = cadence_items(tier, seed)
    # expensive routines first so that the pool balances; the small complete parts (law, created targets) next
    slow = [i for i in cad if i["routine"] in ("mrq", "td7")]
    slow.sort(key=lambda i: i["routine"] != "mrq")
    rest = [i for i in cad if i["routine"] not in ("mrq", "td7")]
    return slow + law + created_items(tier, seed) + frozen_items(tier, seed) + rest


def work(item, col):
    if item["part"] == "law":
        law_work(item, col)
    elif item["part"] == "cadence":
        cadence_work(item, col)
    elif item["part"] == "frozen":
        frozen_work(item, col)
    else:
        created_work(item, col)
