"""C20 - loggers record faithfully; checkpoints exactly at interval crossings (E1 + complete enumerations).

Part A (records, engine E1): breadth-first search over start / stop / record_stat histories on real
MemoryLogger, StandardLogger (stand-alone) and a LoggerList([MemoryLogger, StandardLogger, spy,
OrbaxCheckpointer, StdoutLogger]), all stepped with the same op next to a list reference model.
Part B (cadence): complete enumeration of non-decreasing step sequences (explicit steps), of
stop_episode-driven implicit steps and of interleaved keys for OrbaxCheckpointer.record_epoch, and of
epoch counts for StandardLogger.record_epoch, with the Orbax save call replaced by a recorder; a smaller
complete sub-enumeration writes real checkpoints into a temporary directory and restores every listed path.
"""

import contextlib
import copy
import itertools
import os
import shutil
import sys
import tempfile

import jax
import jax.numpy as jnp
import numpy as np
import orbax.checkpoint as ocp
from flax import nnx

from rl_blox.logging.checkpointer import OrbaxCheckpointer
from rl_blox.logging.logger import LoggerBase, LoggerList, MemoryLogger, StandardLogger, StdoutLogger

from vlib import e1

PROPERTY = "C20"
LEVEL = "model_checking"
USES_JAX = True
RULE = (
    "records: BFS over op histories {start_new_episode, stop_episode(1|2), record_stat(key a|b, episode None|explicit, "
    "step None|explicit)} applied simultaneously to stand-alone MemoryLogger/StandardLogger and to a LoggerList of five "
    "members; canonical state = every logger's counters and (value, episode, step) lists (wall-clock dropped); one search "
    "in one process, so every state and transition is counted once. cadence: every non-decreasing step sequence / increment vector / key pattern / epoch count within "
    "the stated bounds, one evaluation = one oracle comparison (one logger after one op, one get_stat, one record_epoch "
    "decision, one restored path). non-trivial = a record transition taken when a counter is non-zero or the key already "
    "holds a record (defaults and order can show), or a record_epoch whose step advanced or sits on an exact multiple "
    "(StandardLogger: interval > 1); distinct = distinct (state after, op) resp. (mode, intervals, script prefix)"
)
ASSUMPTIONS = [
    "wall-clock fields (t, start_time) are exempt; they are dropped from canonical states and never compared",
    "record histories are bounded in depth (counters are unbounded, so the search cannot close); explicit locations come from a two-value alphabet per argument (None / one explicit value, 0 for key b)",
    "'episode_length' entries written by stop_episode are checked for order, value and episode; their step may be the counter before or after the increment (the property text does not say), and their absence is not a violation",
    "steps handed to record_epoch are non-decreasing per key (the property's quantifier); the first record is compared with step 0",
    "the exhaustive cadence sweeps replace the logger's orbax StandardCheckpointer instance by a recorder; real orbax writes happen in the smaller 'real-*' sub-enumeration, where orbax's own restore is trusted as the reader",
    "record_epoch keys without a configured interval must simply not checkpoint",
]
BUDGET_S = {"quick": 480, "thorough": 2400}
CLEAR_EVERY = 1000

SIG = "C20|{}|{}"
# failure kinds (fixed vocabulary)
K_COUNTER = "counter-mismatch"
K_LOC = "record-location-mismatch"
K_VAL = "record-value-or-order-mismatch"
K_NUM = "record-missing-or-extra"
K_CALLS = "member-not-called-exactly-once"
K_ARGS = "fanout-args-altered"
K_DIFF = "members-differ"
K_MISS = "checkpoint-missing"
K_UNEXP = "checkpoint-unexpected"
K_MULTI = "checkpoint-multiple"
K_DUP = "path-duplicate"
K_RESTORE = "path-not-restorable"
K_STATE = "restored-state-differs"
K_RAISED = "raised"

_TMP = {"dir": None, "n": 0}


class _Null:
    def write(self, s):
        return len(s)

    def flush(self):
        pass

    def isatty(self):
        return False


# =========================================================================================
# items
# =========================================================================================


def rec_ops(seed):
    ea, sa = 7 + seed % 3, 5 + seed % 3
    ops = [["start"], ["stop", 1], ["stop", 2]]
    for k, (e, s) in (("a", (ea, sa)), ("b", (0, 0))):
        for ee in (None, e):
            for ss in (None, s):
                ops.append(["rec", k, ee, ss])
    return ops


def items(tier, seed):
    quick = tier == "quick"
    out = []
    # -- A: record histories: ONE search, so that every state / transition is counted exactly once ---------
    out.append(dict(name="rec-bfs", part="rec", depth=5 if quick else 6, seed=seed))
    # -- B1: explicit non-decreasing step sequences ------------------------------------------
    L, S = (5, 12) if quick else (6, 15)
    ivs = [1, 2, 3, 5] if quick else [1, 2, 3, 4, 5, 7]
    for I in ivs:
        for mode in ("direct", "list"):
            for f in range(S + 1):
                out.append(dict(name=f"cadx-I{I}-{mode}-f{f}", part="cadx", I=I, mode=mode, L=L, S=S, first=f, seed=seed))
    # -- B2: implicit steps driven by stop_episode ------------------------------------------
    Li, K = (4, 3) if quick else (5, 4)
    for I in [1, 2, 3] if quick else [1, 2, 3, 5]:
        for mode in ("direct", "list"):
            out.append(dict(name=f"cadi-I{I}-{mode}", part="cadi", I=I, mode=mode, L=Li, K=K, seed=seed))
    # -- B3: interleaved keys with different intervals (+ a key without interval) ------------------
    L2, S2 = (4, 6) if quick else (5, 7)
    pairs = [[1, 2], [2, 3], [3, 2], [5, 2]] if quick else [[1, 2], [2, 1], [2, 3], [3, 2], [5, 2], [3, 4]]
    for p in pairs:
        for f in range(S2 + 1):
            for k0 in ("m", "n", "u"):
                out.append(dict(name=f"cad2-I{p[0]}x{p[1]}-f{f}-{k0}", part="cad2", Is=p, L=L2, S=S2, first=f, k0=k0, seed=seed))
    # -- B4: StandardLogger epoch-count cadence ------------------------------------------------
    N = 12 if quick else 24
    out.append(dict(name="stdc-single", part="stdc", ivs=ivs, N=N, seed=seed))
    for p in pairs:
        out.append(dict(name=f"stdc-two-I{p[0]}x{p[1]}", part="stdc2", Is=p, L=8 if quick else 10, seed=seed))
    # -- B5: real checkpoints, every listed path restored ------------------------------------------
    for I in [2] if quick else [1, 2, 3]:
        for f in range(7):
            out.append(dict(name=f"real-orbax-I{I}-f{f}", part="real", I=I, L=3, S=6, first=f, mode="direct", seed=seed))
    for I in [2] if quick else [2, 3]:
        for f in range(4 if quick else 7):
            out.append(dict(name=f"real-list-I{I}-f{f}", part="real", I=I, L=2 if quick else 3, S=6, first=f, mode="list", seed=seed))
    for I in [1, 2, 3]:
        out.append(dict(name=f"real-std-I{I}", part="realstd", I=I, N=6 if quick else 9, seed=seed))
    out.append(dict(name="real-same-directory", part="samedir", seed=seed))
    return out


# =========================================================================================
# Part A: record histories (E1)
# =========================================================================================


class Spy(LoggerBase):
    """LoggerList member that remembers the calls of the current op only."""

    def __init__(self):
        self.calls = []
        self._ne = 0

    @property
    def n_episodes(self):
        return self._ne

    def start_new_episode(self):
        self._ne += 1
        self.calls.append(("start_new_episode",))

    def stop_episode(self, total_steps):
        self.calls.append(("stop_episode", total_steps))

    def define_experiment(self, env_name=None, algorithm_name=None, hparams=None):
        self.calls.append(("define_experiment", env_name, algorithm_name))

    def record_stat(self, key, value, episode=None, step=None, t=None, verbose=None, format_str="{0:.3f}"):
        self.calls.append(("record_stat", key, value, episode, step))

    def define_checkpoint_frequency(self, key, checkpoint_interval):
        self.calls.append(("define_checkpoint_frequency", key, checkpoint_interval))

    def record_epoch(self, key, value, episode=None, step=None, t=None):
        self.calls.append(("record_epoch", key, id(value), episode, step))


class Ref:
    """List reference model: counters and, per key, (value, episode, allowed steps) in recording order."""

    def __init__(self):
        self.ne = 0
        self.ns = 0
        self.recs = {}
        self.stops = []  # (value, episode, (step_before, step_after))

    def start(self):
        self.ne += 1

    def stop(self, n):
        before = self.ns
        self.ns += n
        self.stops.append((n, self.ne, (before, self.ns)))

    def rec(self, key, value, episode, step):
        self.recs.setdefault(key, []).append(
            (value, self.ne if episode is None else episode, self.ns if step is None else step)
        )


class RB(e1.Bundle):
    pass


def _clone_logger(lg):
    new = copy.copy(lg)
    d = new.__dict__
    for k, v in list(d.items()):
        if type(v) is dict:
            d[k] = {a: (list(b) if type(b) is list else b) for a, b in v.items()}
        elif type(v) is list:
            d[k] = list(v)
    return new


def _clone_bundle(bd):
    new = RB()
    new.cfg, new.col = bd.cfg, bd.col
    new.mem = _clone_logger(bd.mem)
    new.std = _clone_logger(bd.std)
    new.members = [_clone_logger(m) for m in bd.members]
    new.ll = copy.copy(bd.ll)
    new.ll.loggers = list(new.members)
    r = Ref()
    r.ne, r.ns = bd.ref.ne, bd.ref.ns
    r.recs = {k: list(v) for k, v in bd.ref.recs.items()}
    r.stops = list(bd.ref.stops)
    new.ref = r
    new.hist = list(bd.hist)
    new.dead = bd.dead
    new.nrec = dict(bd.nrec)
    return new


def make_rec_bundle(cfg, col):
    bd = RB()
    bd.cfg, bd.col = cfg, col
    d = _TMP["dir"]
    bd.mem = MemoryLogger()
    bd.std = StandardLogger(checkpoint_dir=d)
    m2 = MemoryLogger()
    s2 = StandardLogger(checkpoint_dir=d, verbose=1)
    bd.members = [m2, s2, Spy(), OrbaxCheckpointer(checkpoint_dir=d, verbose=2), StdoutLogger()]
    bd.ll = LoggerList(list(bd.members))
    bd.ll.define_experiment("E", "A", {})
    bd.members[2].calls = []
    bd.ref = Ref()
    bd.hist = []
    bd.dead = False
    bd.nrec = {}
    return bd


def _stat_state(lg):
    """Public record state of a stats-holding logger, wall-clock dropped."""
    out = []
    for k in sorted(lg.stats):
        vals = lg.stats[k]
        locs = lg.stats_loc.get(k, ())
        out.append((k, tuple(vals), tuple((l[0], l[1]) for l in locs)))
    return (lg.n_episodes, lg.n_steps, tuple(out))


def _states(bd):
    c = bd.__dict__.get("_cache")
    if c is None:
        m = bd.members
        c = bd._cache = (
            _stat_state(bd.mem),
            _stat_state(bd.std),
            _stat_state(m[0]),
            _stat_state(m[1]),
            (m[2].n_episodes,),
            (m[3].n_episodes, m[3].n_steps),
            (m[4].n_episodes, m[4].n_steps),
        )
    return c


def rec_canon(bd):
    return _states(bd) + (bd.dead,)


def _vk(v):
    """Value as recorded: integral values stay integral and exact (an int turned into a float is another record)."""
    if isinstance(v, (bool, np.bool_)):
        return ("bool", bool(v))
    if isinstance(v, (int, np.integer)):
        return ("int", int(v))
    return ("real", float(v))


def _compare_records(lg, ref):
    """None or (kind, detail): the logger's stored records against the reference lists."""
    stats, locs = lg.stats, lg.stats_loc
    for k in stats:
        if k not in ref.recs and k != "episode_length":
            return K_NUM, dict(unexpected_key=k)
    for k, want in ref.recs.items():
        if k not in stats or k not in locs:
            return K_NUM, dict(missing_key=k)
        vals, ls = stats[k], locs[k]
        if len(vals) != len(want) or len(ls) != len(want):
            return K_NUM, dict(key=k, n_values=len(vals), n_locations=len(ls), expected=len(want))
        if [_vk(v) for v in vals] != [_vk(w[0]) for w in want]:
            return K_VAL, dict(key=k, values=[repr(v) for v in vals], expected=[repr(w[0]) for w in want])
        got = [(l[0], l[1]) for l in ls]
        if got != [(w[1], w[2]) for w in want]:
            return K_LOC, dict(key=k, locations=got, expected=[(w[1], w[2]) for w in want])
    if "episode_length" in stats:
        vals, ls = stats["episode_length"], locs.get("episode_length", [])
        want = ref.stops
        if len(vals) != len(want) or len(ls) != len(want):
            return K_NUM, dict(key="episode_length", n_values=len(vals), n_locations=len(ls), expected=len(want))
        if list(vals) != [w[0] for w in want]:
            return K_VAL, dict(key="episode_length", values=list(vals), expected=[w[0] for w in want])
        for l, w in zip(ls, want):
            if l[0] != w[1] or l[1] not in w[2]:
                return K_LOC, dict(key="episode_length", location=(l[0], l[1]), expected_episode=w[1], allowed_steps=w[2])
    return None


_METHOD = {"start": "start_new_episode", "stop": "stop_episode", "rec": "record_stat"}


def rec_ops_of(bd):
    return [] if bd.dead else [tuple(o) for o in rec_ops(bd.cfg["seed"])]


def rec_apply(bd, op):
    col, ref = bd.col, bd.ref
    seed = bd.cfg["seed"]
    bd.hist.append(list(op))
    hist = bd.hist
    method = _METHOD[op[0]]
    spy = bd.members[2]
    spy.calls = []
    bd._cache = None
    nontriv = False
    if op[0] == "start":
        args, kwargs = (), {}
        expect_spy = ("start_new_episode",)
    elif op[0] == "stop":
        args, kwargs = (op[1],), {}
        expect_spy = ("stop_episode", op[1])
        nontriv = True
    else:
        k, e, s = op[1], op[2], op[3]
        i = bd.nrec.get(k, 0)
        bd.nrec[k] = i + 1
        value = float((100 if k == "a" else 200) + 10 * (seed % 5) + i)
        # number type of the recorded value: key a records floats, key b Python ints that no float64 represents exactly
        if k == "b":
            value = 2**53 + 1 + 2 * int(value)
        args = (k, value)
        kwargs = {}
        if e is not None:
            kwargs["episode"] = e
        if s is not None:
            kwargs["step"] = s
        expect_spy = ("record_stat", k, value, e, s)
        nontriv = ref.ne > 0 or ref.ns > 0 or i > 0
    targets = [("MemoryLogger", bd.mem), ("StandardLogger", bd.std), ("LoggerList", bd.ll)]
    for cname, lg in targets:
        try:
            getattr(lg, method)(*args, **kwargs)
        except Exception as ex:  # the implementation raising on a legal call is the violation
            col.violation(SIG.format(f"{cname}.{method}", K_RAISED), dict(hist=hist, error=repr(ex)[:300]))
            bd.dead = True
    if op[0] == "start":
        ref.start()
    elif op[0] == "stop":
        ref.stop(op[1])
    else:
        ref.rec(op[1], args[1], op[2], op[3])
    if bd.dead:
        return ("dead",)

    def key_for(tag):
        # one keyed tick per transition: distinct (state after, op)
        return ("t", _states(bd)[0], tuple(op)) if nontriv and tag == "MemoryLogger" else None

    # stand-alone loggers
    alone_bad = {}
    for cname, lg in targets[:2]:
        col.tick(1, key_for(cname))
        bad = None
        if lg.n_episodes != ref.ne or lg.n_steps != ref.ns:
            bad = (K_COUNTER, dict(n_episodes=lg.n_episodes, n_steps=lg.n_steps, expected=(ref.ne, ref.ns)))
        else:
            bad = _compare_records(lg, ref)
        if bad:
            alone_bad[cname] = bad[0]
            col.violation(SIG.format(f"{cname}.{method}", bad[0]), dict(hist=hist, **bad[1]))
            bd.dead = True
    # fan-out: what did the list hand to its members?
    col.tick(1, key_for("fanout"))
    fan_ok = True
    if len(spy.calls) != 1:
        col.violation(SIG.format(f"LoggerList.{method}", K_CALLS), dict(hist=hist, calls=spy.calls))
        fan_ok = False
    elif spy.calls[0] != expect_spy:
        col.violation(SIG.format(f"LoggerList.{method}", K_ARGS), dict(hist=hist, got=spy.calls[0], expected=expect_spy))
        fan_ok = False
    col.tick(1)
    if bd.ll.n_episodes != ref.ne:
        col.violation(SIG.format("LoggerList.n_episodes", K_COUNTER), dict(hist=hist, got=bd.ll.n_episodes, expected=ref.ne))
    m = bd.members
    names = ["MemoryLogger", "StandardLogger", "Spy", "OrbaxCheckpointer", "StdoutLogger"]
    member_bad = False
    for idx in (0, 1, 3, 4):
        lg, cname = m[idx], names[idx]
        col.tick(1, key_for("member" + cname) if idx < 2 else None)
        bad = None
        if lg.n_episodes != ref.ne or lg.n_steps != ref.ns:
            bad = (K_COUNTER, dict(n_episodes=lg.n_episodes, n_steps=lg.n_steps, expected=(ref.ne, ref.ns)))
        elif idx < 2:
            bad = _compare_records(lg, ref)
        if bad:
            member_bad = True
            if not fan_ok:
                continue  # already attributed to the list
            if alone_bad.get(cname) == bad[0]:
                continue  # same defect as the stand-alone instance of the class
            # the list delivered the right call, the stand-alone instance is fine -> the member class itself
            # (only reachable for classes without a stand-alone twin, or when the list calls another method)
            who = cname if idx >= 2 else "LoggerList"
            col.violation(SIG.format(f"{who}.{method}", bad[0]), dict(hist=hist, member=cname, **bad[1]))
    col.tick(1, key_for("members-equal"))
    if _states(bd)[2] != _states(bd)[3]:
        member_bad = True
        if fan_ok and not alone_bad:
            col.violation(SIG.format(f"LoggerList.{method}", K_DIFF), dict(hist=hist, memory=_states(bd)[2], standard=_states(bd)[3]))
    if member_bad or not fan_ok:
        bd.dead = True
    if nontriv:
        col.outcome("record_transitions_where_defaults_or_order_show")
    if op[0] == "rec" and (op[2] is not None or op[3] is not None) and (ref.ne, ref.ns) != (op[2], op[3]):
        col.outcome("records_with_explicit_location_different_from_counters")
    return (tuple(op), ref.ne, ref.ns)


def rec_on_state(bd, hist):
    """get_stat (the public read path) of every stats-holding logger in a newly reached state."""
    if bd.dead:
        return
    col, ref = bd.col, bd.ref
    loggers = [("MemoryLogger", bd.mem), ("StandardLogger", bd.std), ("MemoryLogger", bd.members[0]), ("StandardLogger", bd.members[1])]
    multi = any(len(v) > 1 for v in ref.recs.values())
    for cname, lg in loggers:
        keys = list(ref.recs) + (["episode_length"] if "episode_length" in lg.stats and ref.stops else [])
        for k in keys:
            want = ref.recs[k] if k != "episode_length" else ref.stops
            for xi, xk in ((1, "episode"), (2, "step")):
                col.tick(1)
                try:
                    x, y = lg.get_stat(k, xk)
                    x, y = np.asarray(x).tolist(), np.asarray(y).tolist()
                except Exception as ex:
                    col.violation(SIG.format(f"{cname}.get_stat", K_RAISED), dict(hist=bd.hist, key=k, x_key=xk, error=repr(ex)[:300]))
                    continue
                if len(x) != len(want) or len(y) != len(want):
                    col.violation(SIG.format(f"{cname}.get_stat", K_NUM), dict(hist=bd.hist, key=k, x_key=xk, x=x, y=y, expected_len=len(want)))
                    continue
                if [_vk(v) for v in y] != [_vk(w[0]) for w in want]:
                    col.violation(SIG.format(f"{cname}.get_stat", K_VAL), dict(hist=bd.hist, key=k, x_key=xk, y=[repr(v) for v in y], expected=[repr(w[0]) for w in want]))
                    continue
                if k == "episode_length" and xi == 2:
                    okx = all(a in w[2] for a, w in zip(x, want))
                else:
                    okx = x == [w[xi] for w in want]
                if not okx:
                    col.violation(SIG.format(f"{cname}.get_stat", K_LOC), dict(hist=bd.hist, key=k, x_key=xk, x=x, expected=[w[xi] for w in want]))
    if multi:
        col.nontriv(("get_stat", _states(bd)[0]))
        col.outcome("states_with_a_key_holding_2+_records")


def work_rec(item, col):
    res = e1.bfs(
        make=lambda: make_rec_bundle(item, col),
        ops=rec_ops_of,
        apply=rec_apply,
        canon=rec_canon,
        on_state=rec_on_state,
        max_depth=item["depth"],
        copier=_clone_bundle,
        validate_make=lambda: make_rec_bundle(item, e1.NullCol()),
    )
    col.graph(res["states"], res["transitions"], res["validated"], res["max_depth"])
    by_depth = {}
    for h in res["paths"].values():
        by_depth[len(h)] = by_depth.get(len(h), 0) + 1
    col.set("record_states_by_depth", {str(k): v for k, v in sorted(by_depth.items())})
    col.set("record_search_closed", bool(res["fixpoint"]))
    deepest = max(res["paths"].values(), key=len)
    col.sample(dict(part="rec", history=[list(o) for o in deepest]))


# =========================================================================================
# Part B: checkpoint cadence
# =========================================================================================


class Recorder:
    """Stands in for the logger's ocp.StandardCheckpointer instance."""

    def __init__(self):
        self.saves = []
        self.waits = 0

    def save(self, path, state, *a, **k):
        self.saves.append(str(path))

    def wait_until_finished(self):
        self.waits += 1


_MODEL = {}


def tiny_model():
    if "m" not in _MODEL:
        import gymnasium as gym

        from rl_blox.blox.function_approximator.mlp import MLP
        from rl_blox.blox.function_approximator.policy_head import DeterministicTanhPolicy

        # a module with trainable parameters AND other state (the action scale / bias Variables of the tanh head):
        # a checkpoint must carry everything that is needed to restore the module
        box = gym.spaces.Box(np.array([-1.0], np.float32), np.array([2.0], np.float32))
        _MODEL["m"] = DeterministicTanhPolicy(MLP(2, 1, [3], "relu", nnx.Rngs(0)), box)
        _MODEL["abstract"] = jax.tree.map(ocp.utils.to_shape_dtype_struct, nnx.state(_MODEL["m"]))
        _MODEL["reader"] = ocp.StandardCheckpointer()
    return _MODEL["m"]


class Tiny(nnx.Module):
    """Smallest possible function approximator for the recorder sweeps (nnx.state/split stay real)."""

    def __init__(self):
        self.w = nnx.Param(jnp.zeros((1,)))


def sweep_model():
    if "tiny" not in _MODEL:
        _MODEL["tiny"] = Tiny()
    return _MODEL["tiny"]


def set_tag(model, tag):
    st = jax.tree.map(lambda x: jnp.full_like(x, tag), nnx.state(model))
    nnx.update(model, st)


def leaves_of(state):
    return [np.asarray(x) for x in jax.tree_util.tree_leaves(state)]


def fresh_dir():
    _TMP["n"] += 1
    return os.path.join(_TMP["dir"], f"r{_TMP['n']}")


def run_epochs(col, item, freqs, script, mode, real=False, with_std=None, tagbase=0.0):
    """One execution. script = [(key, explicit_step_or_None, increment)], increment > 0 means
    start_new_episode(); stop_episode(increment) before the record. freqs = {key: interval}.
    mode: 'direct' (OrbaxCheckpointer alone), 'list' (LoggerList([Memory, Orbax, Standard, Spy])),
    'std' (StandardLogger alone)."""
    model = tiny_model() if real else sweep_model()
    d = fresh_dir() if real else _TMP["dir"]
    ck = sl = spy = None
    if mode in ("direct", "list"):
        ck = OrbaxCheckpointer(checkpoint_dir=d, verbose=2 if mode == "list" else 0)
    if mode in ("std", "list"):
        sl = StandardLogger(checkpoint_dir=d, verbose=1 if mode == "list" else 0)
    if mode == "list":
        spy = Spy()
        target = LoggerList([MemoryLogger(), ck, sl, spy])
        tname = "LoggerList"
    else:
        target = ck or sl
        tname = type(target).__name__
    if (item.get("seed", 0) + len(script)) % 2 or real:
        target.define_experiment("E", "A")
    for k, I in freqs.items():
        target.define_checkpoint_frequency(k, I)
    recs = {}
    if not real:
        for name, lg in (("ck", ck), ("sl", sl)):
            if lg is not None:
                recs[name] = lg.checkpointer = Recorder()
    last = {k: 0 for k in freqs}
    count = {}
    ne = ns = 0
    snaps = {}
    ctx = dict(freqs=freqs, script=script, mode=mode)
    # every checkpointed key is also the name of a recorded statistic (e.g. "q": the loss statistic and the network): recording
    # a network must leave the statistics of that name alone
    if sl is not None and hasattr(sl, "stats"):
        try:
            for k in freqs:
                sl.record_stat(k, 0.5, episode=0, step=0, verbose=0)
        except Exception:  # noqa: BLE001 - the statistics half is judged by the record search
            pass
    ok = True
    for j, (key, step, inc) in enumerate(script):
        if inc:
            if spy is not None:
                spy.calls = []
            try:
                target.start_new_episode()
                target.stop_episode(inc)
            except Exception as ex:
                col.violation(SIG.format(f"{tname}.stop_episode", K_RAISED), dict(j=j, error=repr(ex)[:300], **ctx))
                return
            ne += 1
            ns += inc
            if spy is not None:
                col.tick(1)
                want = [("start_new_episode",), ("stop_episode", inc)]
                if spy.calls != want:
                    kind = K_CALLS if len(spy.calls) != 2 else K_ARGS
                    col.violation(SIG.format("LoggerList.stop_episode", kind), dict(j=j, calls=spy.calls, expected=want, **ctx))
                    return
            # counters of the checkpointing loggers (implicit steps are read from them)
            for lg in (ck, sl):
                if lg is None:
                    continue
                col.tick(1)
                if lg.n_steps != ns or lg.n_episodes != ne:
                    col.violation(
                        SIG.format(f"{type(lg).__name__}.stop_episode", K_COUNTER),
                        dict(j=j, n_steps=lg.n_steps, n_episodes=lg.n_episodes, expected=(ne, ns), **ctx),
                    )
                    return
        eff = ns if step is None else step
        assert eff >= last.get(key, 0), "harness: scripts must be non-decreasing per key"
        if real:
            set_tag(model, tagbase + j + 1)
            snap_now = leaves_of(nnx.state(model))
        before = {name: {k: len(lg.checkpoint_path[k]) for k in freqs} for name, lg in (("ck", ck), ("sl", sl)) if lg is not None}
        stat_sizes = {k: (len(sl.stats[k]), len(sl.stats_loc[k])) for k in sl.stats} if (sl is not None and hasattr(sl, "stats")) else None
        nsaves = {name: len(r.saves) for name, r in recs.items()}
        if spy is not None:
            spy.calls = []
        try:
            if step is None:
                target.record_epoch(key, model)
            else:
                target.record_epoch(key, model, step=step)
        except Exception as ex:
            col.violation(SIG.format(f"{tname}.record_epoch", K_RAISED), dict(j=j, error=repr(ex)[:300], **ctx))
            return
        count[key] = count.get(key, 0) + 1
        if spy is not None:
            col.tick(1)
            want = ("record_epoch", key, id(model), None, step)
            if len(spy.calls) != 1:
                col.violation(SIG.format("LoggerList.record_epoch", K_CALLS), dict(j=j, calls=spy.calls, **ctx))
                ok = False
            elif spy.calls[0] != want:
                col.violation(SIG.format("LoggerList.record_epoch", K_ARGS), dict(j=j, got=spy.calls[0], expected=want, **ctx))
                ok = False
            if not ok:
                return  # members legitimately diverge from the reference now
        for name, lg in (("ck", ck), ("sl", sl)):
            if lg is None:
                continue
            cname = type(lg).__name__
            entry = f"{cname}.record_epoch"
            for k, I in freqs.items():
                wrote = len(lg.checkpoint_path[k]) - before[name][k]
                if k != key:
                    expected = 0
                elif name == "ck":
                    expected = 1 if eff // I > last[k] // I else 0
                else:
                    expected = 1 if count[k] % I == 0 else 0
                nt = None
                if k == key:
                    if name == "ck" and (eff != last[k] or eff % I == 0):
                        nt = (mode, "ck", tuple(sorted(freqs.items())), tuple(script[: j + 1]))
                    if name == "sl" and I > 1:
                        nt = (mode, "sl", tuple(sorted(freqs.items())), tuple(s[0] for s in script[: j + 1]))
                col.tick(1, nt)
                if wrote != expected:
                    kind = K_MISS if wrote < expected else (K_UNEXP if expected == 0 else K_MULTI)
                    col.violation(
                        SIG.format(entry, kind),
                        dict(j=j, key=k, recorded_key=key, step=eff, previous_step=last.get(k), interval=I, epoch_count=count.get(k), wrote=wrote, expected=expected, **ctx),
                    )
                    ok = False
                if k == key and name == "ck":
                    _cadence_outcomes(col, eff, last[k], I, expected)
                if k == key and name == "sl":
                    col.outcome("std_records_checkpointing" if expected else "std_records_not_checkpointing")
            new_paths = [p for k in freqs for p in lg.checkpoint_path[k][before[name][k] :]]
            if name in recs:
                col.tick(1)
                newsaves = recs[name].saves[nsaves[name] :]
                if sorted(os.path.normpath(p) for p in newsaves) != sorted(os.path.normpath(p) for p in new_paths) and ok:
                    col.violation(SIG.format(entry, K_RESTORE), dict(j=j, why="listed path was not the path handed to the orbax save call", listed=new_paths, saved=newsaves, **ctx))
                    ok = False
            if real:
                for p in new_paths:
                    snaps[(name, p)] = snap_now
            if name == "sl" and stat_sizes is not None:
                col.tick(1)
                now = {k: (len(lg.stats[k]), len(lg.stats_loc[k])) for k in lg.stats}
                if now != stat_sizes:
                    col.violation(SIG.format(f"{cname}.record_epoch", "record_epoch-changed-recorded-statistics"), dict(j=j, key=key, before=stat_sizes, after=now, **ctx))
                    return
            # record_epoch must leave the counters alone
            col.tick(1)
            if lg.n_steps != ns or lg.n_episodes != ne:
                col.violation(SIG.format(f"{cname}.record_epoch", K_COUNTER), dict(j=j, n_steps=lg.n_steps, n_episodes=lg.n_episodes, expected=(ne, ns), **ctx))
                return
        if key in last:
            last[key] = eff
        if not ok:
            return
    # end of script: listed paths are distinct (and, for real runs, restorable to the recorded state)
    for name, lg in (("ck", ck), ("sl", sl)):
        if lg is None:
            continue
        entry = f"{type(lg).__name__}.record_epoch"
        allp = [os.path.normpath(p) for k in freqs for p in lg.checkpoint_path[k]]
        col.tick(1)
        if len(set(allp)) != len(allp):
            col.violation(SIG.format(entry, K_DUP), dict(paths=allp, **ctx))
            continue
        if real:
            for k in freqs:
                for p in lg.checkpoint_path[k]:
                    col.tick(1, ("restore", mode, name, tuple(sorted(freqs.items())), tuple(script), os.path.basename(os.path.normpath(p)).split("_", 3)[-1]))
                    col.outcome("paths_restored")
                    if not os.path.isdir(p):
                        col.violation(SIG.format(entry, K_RESTORE), dict(path=p, why="no such directory", **ctx))
                        continue
                    try:
                        got = leaves_of(_MODEL["reader"].restore(p, _MODEL["abstract"]))
                    except Exception as ex:
                        col.violation(SIG.format(entry, K_RESTORE), dict(path=p, why=repr(ex)[:300], **ctx))
                        continue
                    want = snaps.get((name, p))
                    if want is None or len(got) != len(want) or not all(np.array_equal(a, b) and a.dtype == b.dtype for a, b in zip(got, want)):
                        col.violation(
                            SIG.format(entry, K_STATE),
                            dict(path=p, restored_first_leaf=got[0].ravel()[:3] if got else None, recorded_first_leaf=None if want is None else want[0].ravel()[:3], **ctx),
                        )
    if real:
        shutil.rmtree(d, ignore_errors=True)


def _cadence_outcomes(col, eff, last, I, expected):
    if expected:
        col.outcome("orbax_records_crossing")
        if eff % I != 0:
            col.outcome("crossings_where_step%I!=0 (a modulo rule would miss)")
        if eff - last < I:
            col.outcome("crossings_by_wraparound_only (gap < I)")
        elif last % I <= eff % I:
            col.outcome("crossings_by_gap_only (no wrap-around)")
        if eff - last == I:
            col.outcome("crossings_with_gap == I exactly")
        if eff // I - last // I >= 2:
            col.outcome("crossings_over_2+_multiples (still one checkpoint)")
    else:
        col.outcome("orbax_records_not_crossing")
        if eff % I == 0:
            col.outcome("non_crossings_where_step%I==0 (a modulo rule would write)")


def nondecreasing(L, S, first=None):
    if first is None:
        yield from itertools.combinations_with_replacement(range(S + 1), L)
    else:
        for rest in itertools.combinations_with_replacement(range(first, S + 1), L - 1):
            yield (first,) + rest


def work_cadx(item, col):
    I, n = item["I"], 0
    for seq in nondecreasing(item["L"], item["S"], item["first"]):
        run_epochs(col, item, {"m": I}, [("m", s, 0) for s in seq], item["mode"])
        n += 1
    col.outcome("explicit_step_sequences", n)
    col.sample(dict(part="cadx", interval=I, mode=item["mode"], last_sequence=list(seq)))


def work_cadi(item, col):
    I, n = item["I"], 0
    for incs in itertools.product(range(item["K"] + 1), repeat=item["L"]):
        run_epochs(col, item, {"m": I}, [("m", None, k) for k in incs], item["mode"])
        n += 1
    col.outcome("implicit_step_runs", n)
    col.sample(dict(part="cadi", interval=I, mode=item["mode"], last_increments=list(incs)))


def work_cad2(item, col):
    I1, I2 = item["Is"]
    n = 0
    keys = ("m", "n", "u")  # u has no configured interval
    for seq in nondecreasing(item["L"], item["S"], item["first"]):
        for rest in itertools.product(keys, repeat=item["L"] - 1):
            pat = (item["k0"],) + rest
            # mixed explicit / implicit: key n is driven by stop_episode increments, m and u by explicit steps
            script = []
            ns = 0
            for s, k in zip(seq, pat):
                if k == "n":
                    script.append((k, None, s - ns))
                    ns = s
                else:
                    script.append((k, s, 0))
            run_epochs(col, item, {"m": I1, "n": I2}, script, "direct" if n % 2 else "list")
            n += 1
    col.outcome("interleaved_key_runs", n)
    col.sample(dict(part="cad2", intervals=item["Is"], last_script=[list(x) for x in script]))


def work_stdc(item, col):
    n = 0
    for I in item["ivs"]:
        for stepmode in ("implicit", "constant", "jumpy"):
            script = []
            for e in range(item["N"]):
                if stepmode == "implicit":
                    script.append(("m", None, e % 3))
                elif stepmode == "constant":
                    script.append(("m", 4, 0))
                else:
                    script.append(("m", e * e, 0))
            run_epochs(col, item, {"m": I}, script, "std")
            n += 1
    col.outcome("standard_logger_runs", n)
    col.sample(dict(part="stdc", intervals=item["ivs"], epochs=item["N"]))


def work_stdc2(item, col):
    I1, I2 = item["Is"]
    n = 0
    for pat in itertools.product(("m", "n", "u"), repeat=item["L"]):
        run_epochs(col, item, {"m": I1, "n": I2}, [(k, None, j % 2) for j, k in enumerate(pat)], "std")
        n += 1
    col.outcome("standard_logger_runs", n)
    col.sample(dict(part="stdc2", intervals=item["Is"], last_pattern=list(pat)))


def work_real(item, col):
    I, n = item["I"], 0
    for L in range(1, item["L"] + 1):
        for seq in nondecreasing(L, item["S"], item["first"]):
            run_epochs(col, item, {"m": I}, [("m", s, 0) for s in seq], item["mode"], real=True, tagbase=10.0 * (item["seed"] % 7) + L)
            n += 1
    col.outcome("real_checkpoint_runs", n)
    col.sample(dict(part="real", interval=I, mode=item["mode"], first=item["first"], last_sequence=list(seq)))


def work_realstd(item, col):
    I, N = item["I"], item["N"]
    # checks run at every record, so the longest run covers its prefixes; two key patterns
    for pi, pat in enumerate((["m"] * N, [("m", "m", "n")[j % 3] for j in range(N + N // 2)])):
        run_epochs(col, item, {"m": I, "n": 2}, [(k, None, j % 2) for j, k in enumerate(pat)], "std", real=True, tagbase=10.0 * (item["seed"] % 7) + 100 * pi)
        col.outcome("real_checkpoint_runs")
    col.sample(dict(part="realstd", interval=I, epochs=item["N"]))


def work_samedir(item, col):
    """Two checkpointer instances writing into the same directory (a script run twice, a resumed run), with and
    without define_experiment(): whatever the second instance lists must restore to the model IT recorded; refusing
    loudly (orbax: destination exists) is acceptable, listing a path that holds another model is not."""
    model = tiny_model()
    for define, steps, I in itertools.product((False, True), ([1], [2, 4], [3, 3, 6]), (1, 2)):
        d = fresh_dir()
        listed = []
        for run in (1, 2):
            ck = OrbaxCheckpointer(checkpoint_dir=d, verbose=0)
            if define:
                ck.define_experiment("E", "A")
            ck.define_checkpoint_frequency("m", I)
            tags = {}
            raised = None
            for j, st in enumerate(steps):
                tag = 100.0 * run + j + 0.5
                set_tag(model, tag)
                n0 = len(ck.checkpoint_path["m"])
                try:
                    ck.record_epoch("m", model, step=st)
                except Exception as ex:  # noqa: BLE001
                    raised = repr(ex)[:200]
                    break
                for pth in ck.checkpoint_path["m"][n0:]:
                    tags[pth] = tag
            col.tick(1, ("samedir", define, tuple(steps), I, run))
            if raised is not None:
                col.outcome("second_checkpointer_on_the_same_directory_refused_loudly" if run == 2 else "first_checkpointer_raised")
                continue
            for pth, tag in tags.items():
                ctx = dict(define_experiment=define, steps=steps, interval=I, instance=run, path=pth)
                col.tick(1)
                try:
                    got = leaves_of(_MODEL["reader"].restore(pth, _MODEL["abstract"]))
                except Exception as ex:  # noqa: BLE001
                    col.violation(SIG.format("OrbaxCheckpointer.record_epoch", K_RESTORE), dict(ctx, why=repr(ex)[:300]))
                    continue
                if not all(np.all(x == np.asarray(tag, dtype=x.dtype)) for x in got):
                    col.violation(SIG.format("OrbaxCheckpointer.record_epoch", K_STATE), dict(ctx, expected_tag=tag, got=[float(np.ravel(x)[0]) for x in got][:4]))
                else:
                    col.outcome("listed_paths_restored_to_the_recorded_model")
    col.sample(dict(part="samedir"))


_PARTS = {
    "samedir": work_samedir,
    "rec": work_rec,
    "cadx": work_cadx,
    "cadi": work_cadi,
    "cad2": work_cad2,
    "stdc": work_stdc,
    "stdc2": work_stdc2,
    "real": work_real,
    "realstd": work_realstd,
}


def work(item, col):
    _TMP["dir"] = tempfile.mkdtemp(prefix="verif-c20-")
    _TMP["n"] = 0
    try:
        with contextlib.redirect_stdout(_Null()), contextlib.redirect_stderr(_Null()):
            _PARTS[item["part"]](item, col)
    finally:
        shutil.rmtree(_TMP["dir"], ignore_errors=True)
        _TMP["dir"] = None
