"""C16 - black-box optimisers keep their distribution and bookkeeping invariants (E3 / E2).

CMA-ES (rl_blox/algorithm/cmaes.py): the fitness history is the explorer's choice - every weak order
(ranking with ties) of the population plus the non-finite placements, over 2 (3) generations, on the
real ask/tell functions and through the public `train_cmaes` with a scripted environment.
CEM (rl_blox/blox/cross_entropy_method.py): truncated-normal draws are stubbed with the extreme
variates, every weak order of the population is the fitness vector of `cem_update` / `optimize_cem`.
"""

import dataclasses
import functools
import itertools
import math
from unittest import mock

import gymnasium as gym
import jax
import jax.numpy as jnp
import numpy as np
from flax import nnx

from rl_blox.algorithm import cmaes as C
from rl_blox.blox import cross_entropy_method as X

from vlib import num
from vlib.senv import ScriptEnv

PROPERTY = "C16"
LEVEL = "exploration"
USES_JAX = True
CLEAR_EVERY = 12
RULE = (
    "full products of finite alphabets. (a) CMAESConfig.create: n_params x population x active. (b) CMA-ES ask/tell on the "
    "real functions: (dim 1-3, active, maximize, key) x every fitness pattern of generation 1 (all 75 weak orders of a "
    "population of 4 + non-finite placements: one inf / -inf / nan at every position of 1 (quick) or 3 (thorough) base "
    "rankings, all-inf [, all -inf, all-nan, two nans, mixed]) x every pattern of generation 2 (the same alphabet, each "
    "followed by an update, + rankings shifted strictly below / above generation 1, tells only: strict rankings in quick, "
    "all weak orders in thorough) [thorough: x all strict rankings of a 3rd generation; populations 5 (quick) and 6 "
    "(thorough) for one generation]. One evaluation = one oracle comparison (incumbent fitness / parameters after a "
    "tell; mean, step-size growth, covariance symmetry, positive variances after an update). (c) train_cmaes with a "
    "scripted environment whose episode returns are these patterns (1, 1.5 and 2 generations). (d) flat-parameter "
    "round trips per architecture x value vector. (e) cem_sample with stubbed extreme variates per (box, mean, "
    "variance, variate, dimension); cem_update per (box, mean, alpha, n_elite 1..population, weak order or +-inf "
    "placement of the population 4-6); optimize_cem per (box, n_elite, alpha, weak order of iteration 1, ranking of "
    "iteration 2). Non-trivial = the mechanism decides the outcome: a tell that meets an existing incumbent (better / "
    "tied / worse / nan), an update of a population with >= 2 distinct fitness levels, a weight vector with mu >= 2, a "
    "CEM draw whose unconstrained value would leave the box, a CEM update with alpha < 1, n_elite < population and >= 2 "
    "fitness levels, a network with >= 2 parameter leaves. Distinct = distinct (configuration, fitness history, index)."
)
ASSUMPTIONS = [
    "jax.random.truncated_normal(key, -2, 2) returns values in [-2, 2]; the CEM draw is monotone in the variate, so the stubbed variates {-2,-1,0,1,2} cover the extremes",
    "jax.random.multivariate_normal / split are deterministic functions of the key (finite key alphabet); populations are the real draws for those keys",
    "CMA-ES: populations of 4 (5, 6 for a single generation), dimensions 1-3, 2 (3) generations, initial variance 1 (plus 0.04 / 25 and narrow-box configurations), identity covariance; fitness values are small integers (+-0.5, +-0.25), inf, -inf, nan",
    "nan fitness is read as 'worse than every number' for the mu-best selection and is never a 'best candidate'; a history of only-nan candidates has no best candidate (no incumbent check)",
    "ties: any tie-consistent choice of the mu best / of the n_elite best / of the incumbent's parameters is accepted",
    "CEM with nan fitness is outside the property (observed and counted only)",
    "the recombination weights used in the mean reference are the configuration's own weights (their invariants are checked separately)",
    "bounds are honoured up to 2 ulp (float32) of max(|low|,|high|); float32 results vs float64 references: 1e-5*max(1,|ref|) (CEM variance 1e-4)",
    "step-size growth bound exp(0.6)*(1+1e-6); covariance symmetry to 1e-5*max(1,max|C|)",
    "optimiser states are branched by field-wise copies (jax arrays are immutable); a digest of every parent state is re-checked after its branches ran",
]
BUDGET_S = {"quick": 1500, "thorough": 4800}

SIG = "C16|{}|{}"
# failure-kind vocabulary
K_WPOS = "weights-not-positive"
K_WMONO = "weights-increasing"
K_WSUM = "weights-sum!=1"
K_INC_F = "incumbent-fitness-not-best-so-far"
K_INC_P = "incumbent-params-not-of-best-candidate"
K_MEAN = "mean-not-weighted-average-of-mu-best"
K_STEP = "step-size-growth>exp(0.6)"
K_SYM = "covariance-not-symmetric"
K_VAR = "variance-not-positive"
K_RAISE = "raised-on-valid-input"
K_REPORT = "reported-best-fitness-not-best-return"
K_ATTR = "fitness-attributed-to-wrong-candidate"
K_RT_SET = "set-then-read-not-identity"
K_RT_GET = "read-then-set-changed-network"
K_RT_WRITE = "set_params-did-not-write-the-vector"
K_OOB = "candidate-outside-bounds"
K_ELITE_M = "mean-not-from-n_elite-best"
K_ELITE_V = "variance-not-from-n_elite-best"
K_MEAN_OOB = "mean-outside-bounds"
K_RET = "returned-solution-not-final-mean"

GROW = math.exp(0.6) * (1 + 1e-6)
INF = float("inf")


# ------------------------------------------------------------------------------------------------
# alphabets
# ------------------------------------------------------------------------------------------------


@functools.lru_cache(None)
def weak_orders(k):
    """All rankings of k items with ties: rank vectors whose used ranks are 0..m contiguous."""
    out = set()
    for r in itertools.product(range(k), repeat=k):
        if set(r) == set(range(max(r) + 1)):
            out.add(r)
    return sorted(out)


@functools.lru_cache(None)
def strict_orders(k):
    return sorted(itertools.permutations(range(k)))


@functools.lru_cache(None)
def nonfinite(k, lite=False):
    """Non-finite placements: one inf / -inf / nan at every position of three base rankings, plus
    all-inf, all -inf, all-nan, two nans and a mixed vector."""
    bases = [tuple(range(k))] if lite else [tuple(range(k)), tuple(range(k - 1, -1, -1)), (0,) * k]
    vals = ["inf", "-inf", "nan"]
    out = []
    for b in bases:
        for pos in range(k):
            for v in vals:
                p = list(b)
                p[pos] = v
                out.append(tuple(p))
    out.append(("inf",) * k)
    if not lite:
        out.append(("-inf",) * k)
        out.append(("nan",) * k)
        out.append(("nan", "nan") + tuple(range(k - 2)))
        out.append(tuple((["nan", "inf", "-inf"] + list(range(k)))[:k]))
        out.append(tuple((list(range(k - 2)) + ["inf", "inf"])))
    return out


def costs(pattern, offset=0.0):
    """Internal cost vector (lower is better) of a pattern."""
    return [float(v) if isinstance(v, str) else float(v) + offset for v in pattern]


def chunks(n, size):
    return [[i, min(n, i + size)] for i in range(0, n, size)]


# ------------------------------------------------------------------------------------------------
# items
# ------------------------------------------------------------------------------------------------


def items(tier, seed):
    quick = tier == "quick"
    out = []
    # (a) weights
    out.append(dict(name="weights", part="weights", n_params=list(range(1, 7 if quick else 13)),
                    pops=[None] + list(range(2, 10 if quick else 17))))
    # (b) CMA-ES ask/tell
    pop = 4
    n1 = len(weak_orders(pop)) + len(nonfinite(pop, quick))
    if quick:
        # 6 configurations: every (dim, active) pair once; key / maximize alternate with them
        cfgs = [(dim, active, ((0, False), (1, True))[(dim + int(active)) % 2]) for dim in [1, 2, 3] for active in [False, True]]
    else:
        cfgs = list(itertools.product([1, 2, 3], [False, True], [(0, False), (0, True), (1, False), (1, True)]))
    for dim, active, (ks, mx) in cfgs:
        for lo, hi in chunks(n1, 6):
            out.append(dict(name=f"cma-d{dim}-a{int(active)}-k{ks}-m{int(mx)}-g1[{lo}:{hi}]", part="cma", dim=dim,
                            active=active, maximize=mx, kseed=ks + 2 * seed, pop=pop, block=[lo, hi],
                            gens=2, lite1=quick, lite2=quick, gen3=False))
    # configurations beyond "variance 1, no bounds": a small / large initial step size (the active update
    # divides by the step size) and a box so narrow that most samples are clipped (the evaluated candidate is
    # the clipped one)
    extra = [(2, True, 0.04, None), (2, False, 1.0, [[0.4, 0.8], [0.4, 0.8]]), (3, True, 25.0, None)]
    if not quick:
        extra += [(1, True, 0.04, None), (3, True, 0.04, [[0.0, 1.0]] * 3), (2, True, 1.0, [[0.4, 0.8], [-5.0, 5.0]]), (1, False, 0.04, [[0.4, 0.8]])]
    for dim, active, var, bnds in extra:
        for lo, hi in chunks(n1, 6):
            out.append(dict(name=f"cmaX-d{dim}-a{int(active)}-v{var}-b{int(bnds is not None)}-g1[{lo}:{hi}]", part="cma", dim=dim,
                            active=active, maximize=False, kseed=1 + 2 * seed, pop=pop, block=[lo, hi],
                            gens=2, lite1=True, lite2=True, gen3=False, variance=var, bounds=bnds))
    if not quick:
        # 3 generations of strict rankings
        n1s = len(strict_orders(pop))
        for dim, active, (ks, mx) in itertools.product([1, 2, 3], [False, True], [(0, False), (1, True)]):
            for lo, hi in chunks(n1s, 1):
                out.append(dict(name=f"cma3-d{dim}-a{int(active)}-k{ks}-m{int(mx)}-g1[{lo}:{hi}]", part="cma", dim=dim,
                                active=active, maximize=mx, kseed=ks + 2 * seed, pop=pop, block=[lo, hi],
                                gens=3, lite1=True, lite2=True, gen3=True))
    # single generation with larger populations (mu = 2 and 3)
    for pop1 in ([5] if quick else [5, 6]):
        n1 = len(weak_orders(pop1)) + len(nonfinite(pop1))
        for dim, active in itertools.product([1, 2, 3] if pop1 == 5 else [2, 3], [False, True]):
            for lo, hi in chunks(n1, 300):
                out.append(dict(name=f"cma1-p{pop1}-d{dim}-a{int(active)}-g1[{lo}:{hi}]", part="cma", dim=dim,
                                active=active, maximize=bool(dim % 2), kseed=seed, pop=pop1, block=[lo, hi],
                                gens=1, lite1=False, lite2=True, gen3=False))
    # (c) train_cmaes
    n1 = len(weak_orders(4)) + len(nonfinite(4))
    for dim, active in itertools.product([1, 2, 3], [False, True]):
        for lo, hi in chunks(n1, 20):
            out.append(dict(name=f"train1-d{dim}-a{int(active)}-[{lo}:{hi}]", part="train", dim=dim, active=active,
                            seed=seed, block=[lo, hi], episodes=4))
    for dim, active in ([(2, False)] if quick else [(1, True), (2, False), (3, True)]):
        for lo, hi in chunks(len(weak_orders(4)), 3):
            out.append(dict(name=f"train2-d{dim}-a{int(active)}-[{lo}:{hi}]", part="train", dim=dim, active=active,
                            seed=seed + 1, block=[lo, hi], episodes=8))
        for lo, hi in chunks(len(weak_orders(4)), 12):
            out.append(dict(name=f"train1.5-d{dim}-a{int(active)}-[{lo}:{hi}]", part="train", dim=dim, active=active,
                            seed=seed + 2, block=[lo, hi], episodes=6))
    # (d) round trips
    specs = arch_specs(tier)
    for lo, hi in chunks(len(specs), 4):
        out.append(dict(name=f"roundtrip[{lo}:{hi}]", part="roundtrip", block=[lo, hi], tier=tier, seed=seed))
    # (e) CEM
    for bi in range(len(BOXES)):
        out.append(dict(name=f"cem-sample-box{bi}", part="cem_sample", box=bi, seed=seed))
    for bi, al in itertools.product(range(len(BOXES2)), [0.0, 0.1, 0.25, 1.0]):
        out.append(dict(name=f"cem-update-p4-box{bi}-alpha{al}", part="cem_update", box=bi, pop=4, alphas=[al],
                        mean_fracs="all", block=None))
    for lo, hi in chunks(len(weak_orders(5)) + len(cem_nonfinite(5)), 150):
        out.append(dict(name=f"cem-update-p5-[{lo}:{hi}]", part="cem_update", box=1, pop=5,
                        alphas=[0.1] if quick else [0.0, 0.1, 1.0], mean_fracs="few", block=[lo, hi]))
    if not quick:
        for lo, hi in chunks(len(weak_orders(6)) + len(cem_nonfinite(6)), 400):
            out.append(dict(name=f"cem-update-p6-[{lo}:{hi}]", part="cem_update", box=0, pop=6, alphas=[0.25],
                            mean_fracs="one", block=[lo, hi]))
    for bi, ne in itertools.product([0, 1], [1, 2, 3, 4]):
        for lo, hi in chunks(len(weak_orders(4)), 15):
            out.append(dict(name=f"cem-opt-box{bi}-e{ne}-[{lo}:{hi}]", part="cem_opt", box=bi, n_elite=ne, block=[lo, hi],
                            second="strict" if quick else "weak", alphas=[0.25] if quick else [0.0, 0.25], seed=seed))
    return out


def work(item, col):
    {"weights": work_weights, "cma": work_cma, "train": work_train, "roundtrip": work_roundtrip,
     "cem_sample": work_cem_sample, "cem_update": work_cem_update, "cem_opt": work_cem_opt}[item["part"]](item, col)


# ------------------------------------------------------------------------------------------------
# (a) recombination weights
# ------------------------------------------------------------------------------------------------


def check_weights(col, entry, cfg, ctx):
    w = np.asarray(cfg.weights, dtype=np.float64)
    key = ("w",) + tuple(ctx.values()) if len(w) >= 2 else None
    col.tick(3, key)
    if len(w) >= 2:
        col.outcome("weight_vectors_with_mu>=2")
    if not (len(w) > 0 and np.all(w > 0)):
        col.violation(SIG.format(entry, K_WPOS), dict(ctx, weights=w))
    if not np.all(np.diff(w) <= 0):
        col.violation(SIG.format(entry, K_WMONO), dict(ctx, weights=w))
    if not abs(float(w.sum()) - 1.0) <= 1e-6:
        col.violation(SIG.format(entry, K_WSUM), dict(ctx, weights=w, sum=float(w.sum())))


def work_weights(item, col):
    for n, pop, active in itertools.product(item["n_params"], item["pops"], [False, True]):
        ctx = dict(n_params=n, population=pop, active=active)
        try:
            cfg = C.CMAESConfig.create(active, None, False, None, 0.0, None, n, pop)
        except Exception as e:  # every (n_params >= 1, population >= 2) is a valid configuration
            col.tick(1)
            col.violation(SIG.format("CMAESConfig.create", K_RAISE), dict(ctx, error=repr(e)))
            continue
        check_weights(col, "CMAESConfig.create", cfg, ctx)
        if len(cfg.weights) >= 3 and not col.samples:
            col.sample(dict(part="weights", n_params=n, population=pop, weights=np.asarray(cfg.weights)))
    if not col.samples:
        col.sample(dict(part="weights", note="no configuration with mu >= 3 could be created"))


# ------------------------------------------------------------------------------------------------
# (b) CMA-ES ask / tell
# ------------------------------------------------------------------------------------------------


def sort_key(c):
    return (1, 0.0) if c != c else (0, c)


@functools.lru_cache(200000)
def top_tuples(cs, mu):
    """All ordered mu-tuples of indices that some tie-consistent ascending sort of cs starts with."""
    n = len(cs)
    keys = [sort_key(c) for c in cs]
    out = set()
    for perm in itertools.permutations(range(n)):
        if all(keys[perm[i]] <= keys[perm[i + 1]] for i in range(n - 1)):
            out.add(perm[:mu])
    return sorted(out)


class ImplRaised(Exception):
    """The implementation raised on a valid input (already reported as a violation); abandon the branch."""


def call(col, entry, ctx, f, *args):
    try:
        return f(*args)
    except Exception as e:
        col.tick(1)
        col.violation(SIG.format(entry, K_RAISE), dict(ctx, error=repr(e)[:400]))
        raise ImplRaised() from e


class Incumbent:
    """Reference: every candidate evaluated so far with its internal cost."""

    def __init__(self):
        self.hist = []  # (cost, params bytes)

    def tell(self, cost, params):
        self.hist.append((cost, np.asarray(params).tobytes()))

    def best(self):
        real = [(c, p) for c, p in self.hist if c == c]
        if not real:
            return None, set()
        b = min(c for c, _ in real)
        return b, {p for c, p in real if c == b}

    def copy(self):
        o = Incumbent()
        o.hist = list(self.hist)
        return o


def tell_generation(col, cfg, st, popn, cvec, inc, ctx, entry="set_evaluation_feedback"):
    """Evaluate the whole population with the explorer's costs; incumbent oracle after every tell."""
    for k, c in enumerate(cvec):
        x = call(col, "get_next_parameters", ctx, C.get_next_parameters, cfg, st, popn)
        prev, _ = inc.best()
        inc.tell(c, x)
        fb = -c if cfg.maximize else c
        if c != c:
            # a nan return has no meaningful sign: both bit patterns are fed (positive at even, negative at odd positions)
            fb = float(np.copysign(np.nan, 1.0 if k % 2 == 0 else -1.0))
        call(col, entry, dict(ctx, costs=cvec, k=k), C.set_evaluation_feedback, cfg, st, popn, fb)
        best, who = inc.best()
        if best is None:
            col.tick(1)
            col.outcome("tells_with_only_nan_history")
            continue
        if prev is None:
            kind = "first"
        elif c != c:
            kind = "nan-after-incumbent"
        elif c < prev:
            kind = "improves"
        elif c == prev:
            kind = "ties"
        else:
            kind = "worse"
        col.outcome("tell_" + kind)
        col.tick(2, ("tell", ctx["cfg"], tuple(ctx["hist"]), tuple(map(sort_key, cvec[: k + 1]))) if kind != "first" else None)
        got = float(st.best_fitness)
        if not (got == best):
            col.violation(SIG.format(entry, K_INC_F), dict(ctx, costs=cvec, k=k, tell_kind=kind, best_fitness=got, expected=best))
        elif np.asarray(st.best_params).tobytes() not in who:
            col.violation(SIG.format(entry, K_INC_P), dict(ctx, costs=cvec, k=k, tell_kind=kind, best_params=np.asarray(st.best_params)))


def check_distribution(col, entry, weights, samples, cvec, var0, mean, var, cov, ps, cs, damps, ctx):
    """Oracles after one update of the search distribution."""
    samples = np.asarray(samples, dtype=np.float64)
    w = np.asarray(weights, dtype=np.float64)
    mu = len(w)
    levels = len({sort_key(c) for c in cvec})
    key = ("upd", ctx["cfg"], tuple(ctx["hist"]), tuple(map(sort_key, cvec))) if levels >= 2 else None
    col.tick(4, key)
    col.outcome("updates")
    tt = top_tuples(tuple(cvec), mu)
    if len(tt) > 1:
        col.outcome("updates_with_tie_in_the_mu_best_selection")
    mean = np.asarray(mean, dtype=np.float64)
    ok = False
    for t in tt:
        ref = (w[:, None] * samples[list(t)]).sum(0)
        if num.close(mean, ref):
            ok = True
            break
    if not ok:
        ref = (w[:, None] * samples[list(tt[0])]).sum(0)
        col.violation(SIG.format(entry, K_MEAN), dict(ctx, costs=cvec, mean=mean, expected_one_of=len(tt), expected_first=ref, samples=samples))
    # step size
    var0, var = float(var0), float(var)
    cov = np.asarray(cov, dtype=np.float64)
    if not (var0 > 0 and var > 0 and np.isfinite(var)):
        col.violation(SIG.format(entry, K_VAR), dict(ctx, costs=cvec, var_before=var0, var_after=var))
    else:
        grow = math.sqrt(var / var0)
        if ps is not None:
            lsu = cs / damps * (float(np.sum(np.asarray(ps, dtype=np.float64) ** 2)) / len(mean) - 1)
            if lsu > 0.6:
                col.outcome("updates_where_the_step_size_cap_is_active")
        if grow >= math.exp(0.6) * (1 - 1e-5):
            col.outcome("updates_with_step_growth_at_the_cap")
        if not grow <= GROW:
            col.violation(SIG.format(entry, K_STEP), dict(ctx, costs=cvec, growth=grow, bound=math.exp(0.6)))
    # covariance
    if not np.all(np.isfinite(cov)):
        col.violation(SIG.format(entry, K_VAR), dict(ctx, costs=cvec, cov=cov))
        return
    if not np.all(np.abs(cov - cov.T) <= 1e-5 * max(1.0, float(np.abs(cov).max()))):
        col.violation(SIG.format(entry, K_SYM), dict(ctx, costs=cvec, cov=cov))
    if not np.all(np.diag(cov) > 0):
        col.violation(SIG.format(entry, K_VAR), dict(ctx, costs=cvec, cov_diag=np.diag(cov)))
    d = float(np.diag(cov).min())
    for b in (0.5, 0.25, 0.1):
        if d < b:
            col.outcome(f"updates_with_a_cov_diagonal_below_{b}")
    if cov.shape[0] > 1 and float(np.abs(cov - np.diag(np.diag(cov))).max()) > 1e-3:
        col.outcome("updates_with_nonzero_off_diagonal_covariance")


def do_update(col, cfg, st, popn, cvec, ctx):
    var0 = st.var
    samples = np.asarray(popn.samples)
    call(col, "update_search_distribution", dict(ctx, costs=cvec), C.update_search_distribution, cfg, st, popn)
    check_distribution(col, "update_search_distribution", cfg.weights, samples, cvec, var0, st.mean, st.var, st.cov,
                       st.ps, cfg.cs, cfg.damps, ctx)


def gen2_alphabet(pop, lite):
    """(pattern, offset, do_update): every weak order level with generation 1 and every non-finite placement
    (followed by an update); rankings shifted strictly below / above generation 1 (tells only - the update
    depends on the ranks alone): strict rankings in the quick tier, all weak orders in the thorough tier."""
    out = [(p, 0.0, True) for p in weak_orders(pop)]
    for p in (strict_orders(pop) if lite else weak_orders(pop)):
        for off in (-0.5, 0.5):
            out.append((p, off, False))
    for p in nonfinite(pop, lite):
        out.append((p, 0.0, True))
    return out


def fork(st, popn):
    """Branch the optimiser state: all array fields are immutable jax arrays that the implementation rebinds,
    so a field-wise copy is a faithful copy (guarded by `state_digest` of the parent after the branch ran)."""
    return dataclasses.replace(st), C.Population(samples=popn.samples, fitness=list(popn.fitness))


def state_digest(st, popn):
    parts = []
    for f in dataclasses.fields(st):
        v = getattr(st, f.name)
        if f.name == "key":
            v = jax.random.key_data(v)
        parts.append((f.name, np.asarray(v).tobytes()))
    return (tuple(parts), np.asarray(popn.samples).tobytes(), tuple(map(sort_key, popn.fitness)))


class ParentMutated(RuntimeError):
    """Harness error: a branch changed its parent's state (the field-wise copy was not faithful)."""


def explore_from_generation1(item, col, cfg, cfgname, st0, p0, a):
    pop = item["pop"]
    (st, pp), inc = fork(st0, p0), Incumbent()
    ca = costs(a)
    ctx = dict(cfg=cfgname, hist=[])
    tell_generation(col, cfg, st, pp, ca, inc, ctx)
    do_update(col, cfg, st, pp, ca, ctx)
    if item["gens"] < 2:
        return
    p1 = C.Population.create(call(col, "sample_population", ctx, C.sample_population, cfg, st))
    if item["gen3"]:
        alpha2 = [(p, 0.0, True) for p in strict_orders(pop)]
    else:
        alpha2 = gen2_alphabet(pop, item["lite2"])
    d1 = state_digest(st, p1)
    for b, off, upd in alpha2:
        (st2, pp2), inc2 = fork(st, p1), inc.copy()
        cb = costs(b, off)
        ctx2 = dict(cfg=cfgname, hist=[tuple(map(sort_key, ca))])
        try:
            tell_generation(col, cfg, st2, pp2, cb, inc2, ctx2)
            if not upd:
                continue
            do_update(col, cfg, st2, pp2, cb, ctx2)
            if item["gens"] < 3:
                continue
            p2 = C.Population.create(call(col, "sample_population", ctx2, C.sample_population, cfg, st2))
        except ImplRaised:
            col.outcome("branches_abandoned_because_the_implementation_raised")
            continue
        d2 = state_digest(st2, p2)
        for c3 in strict_orders(pop):
            (st3, pp3), inc3 = fork(st2, p2), inc2.copy()
            cc = costs(c3, -0.25 if (c3[0] % 2) else 0.25)
            ctx3 = dict(cfg=cfgname, hist=[tuple(map(sort_key, ca)), tuple(map(sort_key, cb))])
            try:
                tell_generation(col, cfg, st3, pp3, cc, inc3, ctx3)
                do_update(col, cfg, st3, pp3, cc, ctx3)
            except ImplRaised:
                col.outcome("branches_abandoned_because_the_implementation_raised")
        if state_digest(st2, p2) != d2:
            raise ParentMutated("generation-2 state changed by a generation-3 branch")
    if state_digest(st, p1) != d1:
        raise ParentMutated("generation-1 state changed by a generation-2 branch")


def work_cma(item, col):
    dim, pop = item["dim"], item["pop"]
    bnds = item.get("bounds")
    cfg = C.CMAESConfig.create(item["active"], None if bnds is None else jnp.asarray(bnds), item["maximize"], None, 0.0, None, dim, pop)
    cfgname = (dim, pop, item["active"], item["maximize"], item["kseed"], item.get("variance", 1.0), bnds is not None)
    check_weights(col, "CMAESConfig.create", cfg, dict(n_params=dim, population=pop, active=item["active"]))
    init = jnp.zeros(dim) + 0.5 + 0.125 * (item["kseed"] % 3)
    st0 = C.CMAESState.create(jax.random.key(item["kseed"]), init, item.get("variance", 1.0), None)
    p0 = C.Population.create(C.sample_population(cfg, st0))
    alpha1 = (list(strict_orders(pop)) if item["gen3"] else list(weak_orders(pop)) + list(nonfinite(pop, item["lite1"])))
    lo, hi = item["block"]
    d0 = state_digest(st0, p0)
    for a in alpha1[lo:hi]:
        try:
            explore_from_generation1(item, col, cfg, cfgname, st0, p0, a)
        except ImplRaised:
            col.outcome("branches_abandoned_because_the_implementation_raised")
    if state_digest(st0, p0) != d0:
        raise ParentMutated("initial state changed by a branch")
    col.sample(dict(part="cma", cfg=cfgname, block=item["block"], generation1_alphabet=len(alpha1), first_pattern=costs(alpha1[0]),
                    initial_mean=np.asarray(st0.mean), population=np.asarray(p0.samples)))


# ------------------------------------------------------------------------------------------------
# (c) train_cmaes with scripted episode returns
# ------------------------------------------------------------------------------------------------


class TinyPolicy(nnx.Module):
    """d parameters; the action does not matter to the scripted environment."""

    def __init__(self, d):
        self.w = nnx.Param(jnp.arange(d, dtype=jnp.float32) * 0.25 + 0.5)

    def __call__(self, obs):
        return jnp.zeros(2) + 0.0 * jnp.sum(self.w.value)


def run_train(dim, active, seed, returns, total):
    """Episode e (0-based) has 1 + e % 2 steps; its return is returns[e] (split over the steps)."""
    pol = TinyPolicy(dim)
    script, rew = "", []
    for e, r in enumerate(returns):
        n = 1 + e % 2
        script += "c" * (n - 1) + "T"
        rew += [r / 2.0, r / 2.0] if n == 2 else [r]
    seen = []
    env = ScriptEnv(script=script, horizon=len(script) + 1, reward_fn=lambda e, lvl: rew[e.t - 1])
    env.on_step = lambda e: seen.append((e.ep, np.asarray(C.flat_params(pol))))
    caps = []
    orig = C.update_search_distribution

    def recording_update(config, state, population):
        rec = dict(var0=float(state.var), samples=np.asarray(population.samples), fitness=list(population.fitness),
                   weights=np.asarray(config.weights), cs=config.cs, damps=config.damps, it=state.it)
        orig(config, state, population)
        rec.update(mean=np.asarray(state.mean), var=float(state.var), cov=np.asarray(state.cov), ps=np.asarray(state.ps))
        caps.append(rec)

    with mock.patch.object(C, "update_search_distribution", recording_update):
        res = C.train_cmaes(env, pol, total, seed=seed, n_samples_per_update=4, active=active, progress_bar=False)
    return res, seen, env, caps


def work_train(item, col):
    dim, active, total = item["dim"], item["active"], item["episodes"]
    lam = 4
    lo, hi = item["block"]
    if total == 4:
        alpha = [(p, None) for p in list(weak_orders(lam)) + list(nonfinite(lam))][lo:hi]
    elif total == 6:
        alpha = [(p, q) for p in weak_orders(lam)[lo:hi] for q in [(-0.5, 0.5), (0.5, -0.5), (0.0, 0.5), (0.5, 0.0), ("nan", -0.5), (0.5, "inf")]]
    else:
        second = [((0, 1, 2, 3), -0.5), ((3, 2, 1, 0), -0.5), ((1, 0, 0, 1), 0.0), ((0, 1, 2, 3), 0.5), ((2, 0, 1, "nan"), 0.0), ((3, 2, 1, 0), 0.5)]
        alpha = [(p, q) for p in weak_orders(lam)[lo:hi] for q in second]
    for p, q in alpha:
        c1 = costs(p)
        if q is None:
            c2 = []
        elif total == 6:
            c2 = costs(q)
        else:
            c2 = costs(q[0], q[1])
        cvec = c1 + c2
        returns = [-c for c in cvec]  # train_cmaes maximises the return
        ctx = dict(dim=dim, active=active, seed=item["seed"], total_episodes=total, returns=returns)
        try:
            res, seen, env, caps = run_train(dim, active, item["seed"], returns, total)
        except Exception as e:
            col.tick(1)
            col.violation(SIG.format("train_cmaes", K_RAISE), dict(ctx, error=repr(e)))
            continue
        # ground truth from the environment log: candidate of episode e, its return
        cand = {}
        for ep, x in seen:
            cand.setdefault(ep - 1, x)
        ep_ret, cur = [], 0.0
        for e in env.log:
            if e[0] == "step":
                cur += e[3]
                if e[4] or e[5]:
                    ep_ret.append(cur)
                    cur = 0.0
        n_run = len(ep_ret)
        real = [r for r in ep_ret if r == r]
        levels = len({sort_key(-r) for r in ep_ret})
        col.tick(1, ("train-best", dim, active, tuple(map(sort_key, cvec))) if levels >= 2 else None)
        col.outcome("train_cmaes_runs")
        if res.stopped:
            col.outcome("train_cmaes_runs_stopped_early")
        if real:
            want = max(real)
            if not float(res.best_fitness) == want:
                col.violation(SIG.format("train_cmaes", K_REPORT), dict(ctx, reported=float(res.best_fitness), best_return=want, episodes_run=n_run))
            else:
                first_gen = [r for r in ep_ret[:lam] if r == r]
                if n_run > lam and (not first_gen or want > max(first_gen)):
                    col.outcome("train_cmaes_best_return_from_a_later_generation")
        # every captured update: population == the candidates the environment saw, mean etc.
        for g, rec in enumerate(caps):
            col.outcome("train_cmaes_updates_observed")
            idx = list(range(g * lam, (g + 1) * lam))
            col.tick(1)
            attributed = all(i in cand and cand[i].tobytes() == np.asarray(rec["samples"][i - g * lam]).tobytes() for i in idx) and all(
                (rec["fitness"][i - g * lam] == -ep_ret[i]) or (rec["fitness"][i - g * lam] != rec["fitness"][i - g * lam] and ep_ret[i] != ep_ret[i]) for i in idx)
            if not attributed:
                col.violation(SIG.format("train_cmaes", K_ATTR), dict(ctx, generation=g, population_fitness=rec["fitness"], episode_returns=[ep_ret[i] for i in idx]))
                continue
            obs_samples = np.stack([cand[i] for i in idx])
            gc = [-ep_ret[i] for i in idx]
            check_distribution(col, "train_cmaes", rec["weights"], obs_samples, gc, rec["var0"], rec["mean"], rec["var"], rec["cov"],
                               rec["ps"], rec["cs"], rec["damps"], dict(ctx, cfg=("train", dim, active, item["seed"]), hist=[tuple(map(sort_key, cvec[: g * lam]))]))
        col.sample(dict(part="train_cmaes", dim=dim, active=active, episode_returns=ep_ret, reported_best=float(res.best_fitness),
                        updates_observed=len(caps), stopped=bool(res.stopped)))
    if not col.samples:
        col.sample(dict(part="train_cmaes", note="every run of this block raised", block=item["block"]))


# ------------------------------------------------------------------------------------------------
# (d) flat parameter round trip
# ------------------------------------------------------------------------------------------------


def arch_specs(tier):
    quick = tier == "quick"
    s = []
    for nf, no, hid in itertools.product([1, 2] if quick else [1, 2, 3], [1, 2], [[], [3], [3, 2]]):
        s.append(["MLP", nf, no, hid, "tanh"])
    for shared, no, hid in itertools.product([True, False], [1, 2], [[3]] if quick else [[3], [2, 3]]):
        s.append(["GaussianMLP", shared, 2, no, hid])
    for no, hid in itertools.product([1, 2], [[3]] if quick else [[3], [3, 2]]):
        s.append(["LayerNormMLP", 2, no, hid])
    s += [["DeterministicTanhPolicy"], ["GaussianTanhPolicy"], ["GaussianPolicy"], ["SoftmaxPolicy"], ["DoubleQ"], ["ActorSALE"],
          ["CriticSALE"], ["SALE"], ["DeterministicSALEPolicy"], ["ModelBasedEncoderPolicy"], ["MTMLPQNetwork"], ["TinyPolicy", 1], ["TinyPolicy", 3]]
    for ne, shared in itertools.product([1, 2] if quick else [1, 2, 3], [True, False]):
        s.append(["GaussianMLPEnsemble", ne, shared])
    # more than ten layers: the integer-indexed containers get two-digit indices (hidden_layers[10] sorts before [2] as text)
    s += [["MLP", 2, 1, [2] * 11, "tanh"], ["MLP", 1, 2, [1, 2] * 6, "tanh"], ["LayerNormMLP", 2, 1, [2] * 11]]
    return s


def build_arch(spec, seed):
    from rl_blox.blox.double_qnet import ContinuousClippedDoubleQNet
    from rl_blox.blox.embedding import model_based_encoder as mbe
    from rl_blox.blox.embedding import sale
    from rl_blox.blox.embedding.task_embedding import MTMLPQNetwork
    from rl_blox.blox.function_approximator import policy_head as ph
    from rl_blox.blox.function_approximator.gaussian_mlp import GaussianMLP
    from rl_blox.blox.function_approximator.layer_norm_mlp import LayerNormMLP
    from rl_blox.blox.function_approximator.mlp import MLP
    from rl_blox.blox.probabilistic_ensemble import GaussianMLPEnsemble

    r = nnx.Rngs(seed)
    box = gym.spaces.Box(np.array([-1.0, 0.0], np.float32), np.array([2.0, 3.0], np.float32))
    k = spec[0]
    if k == "MLP":
        return MLP(spec[1], spec[2], spec[3], spec[4], r)
    if k == "GaussianMLP":
        return GaussianMLP(spec[1], spec[2], spec[3], spec[4], "tanh", r)
    if k == "LayerNormMLP":
        return LayerNormMLP(spec[1], spec[2], spec[3], "elu", rngs=r)
    if k == "DeterministicTanhPolicy":
        return ph.DeterministicTanhPolicy(MLP(2, 2, [3], "tanh", r), box)
    if k == "GaussianTanhPolicy":
        return ph.GaussianTanhPolicy(GaussianMLP(False, 2, 2, [3], "tanh", r), box)
    if k == "GaussianPolicy":
        return ph.GaussianPolicy(GaussianMLP(True, 2, 2, [3], "tanh", r))
    if k == "SoftmaxPolicy":
        return ph.SoftmaxPolicy(MLP(2, 3, [3], "tanh", r))
    if k == "DoubleQ":
        return ContinuousClippedDoubleQNet(MLP(3, 1, [3], "tanh", r), MLP(3, 1, [2], "tanh", r))
    if k == "ActorSALE":
        return sale.ActorSALE(ph.DeterministicTanhPolicy(MLP(3 + 2, 2, [3], "relu", r), box), 2, 3, r)
    if k == "CriticSALE":
        return sale.CriticSALE(MLP(3 + 4, 1, [3], "elu", r), 2, 2, 3, r)
    if k == "SALE":
        return sale.SALE(MLP(2, 2, [3], "elu", r), MLP(4, 2, [3], "elu", r))
    if k == "DeterministicSALEPolicy":
        emb = sale.SALE(MLP(2, 2, [3], "elu", r), MLP(4, 2, [3], "elu", r))
        act = sale.ActorSALE(ph.DeterministicTanhPolicy(MLP(3 + 2, 2, [3], "relu", r), box), 2, 3, r)
        return sale.DeterministicSALEPolicy(emb, act)
    if k == "ModelBasedEncoderPolicy":
        return mbe.create_model_based_encoder_and_policy(2, 2, box, policy_hidden_nodes=[3], encoder_n_bins=5, encoder_zs_dim=3,
                                                         encoder_za_dim=2, encoder_zsa_dim=3, encoder_hidden_nodes=[3], rngs=r)
    if k == "MTMLPQNetwork":
        return MTMLPQNetwork(2, 2, 2, 1, [3], "relu", r)
    if k == "TinyPolicy":
        return TinyPolicy(spec[1])
    if k == "GaussianMLPEnsemble":
        return GaussianMLPEnsemble(spec[1], spec[2], 2, 2, [3], "tanh", r)
    raise ValueError(spec)


def full_snap(net):
    out = []
    for path, leaf in jax.tree_util.tree_leaves_with_path(nnx.state(net)):
        a = np.asarray(leaf)
        out.append((jax.tree_util.keystr(path), str(a.dtype), a.shape, a.tobytes()))
    return out


def param_values(net):
    vals = []
    for leaf in jax.tree_util.tree_leaves(nnx.state(net, nnx.Param)):
        vals.append(np.asarray(leaf).ravel())
    return np.concatenate(vals) if vals else np.zeros(0, np.float32), len(vals)


def value_vectors(n, seed):
    base = (np.arange(n, dtype=np.float32) * 0.5 - 3.0 + np.float32(seed % 5) * 0.125).astype(np.float32)
    special = np.array([0.0, -0.0, 1e-40, 3e38, -1e30, 1.5, np.inf, np.nan, -np.inf, 2.0 ** -126], dtype=np.float32)
    sp = np.resize(special, n).astype(np.float32)
    rev = base[::-1].copy()
    return {"ramp": base, "special": sp, "reversed-ramp": rev}


def work_roundtrip(item, col):
    specs = arch_specs(item["tier"])
    lo, hi = item["block"]
    entry = "set_params"
    for spec in specs[lo:hi]:
        net = build_arch(spec, item["seed"])
        ctx = dict(architecture=spec)
        before = full_snap(net)
        pv, nleaves = param_values(net)
        key = ("rt", tuple(map(str, spec))) if nleaves >= 2 else None
        try:
            v = np.asarray(C.flat_params(net))
            col.tick(1, key)
            if v.dtype != pv.dtype or v.shape != pv.shape or sorted(v.tobytes()[i:i + 4] for i in range(0, 4 * len(v), 4)) != sorted(
                    pv.tobytes()[i:i + 4] for i in range(0, 4 * len(pv), 4)):
                col.violation(SIG.format("flat_params", K_RT_GET), dict(ctx, what="flat_params is not a permutation of the Param values", n=len(v), n_params=len(pv)))
            C.set_params(net, jnp.asarray(v))
            col.tick(1, key)
            if full_snap(net) != before:
                col.violation(SIG.format(entry, K_RT_GET), dict(ctx, n=len(v)))
            for vname, x in value_vectors(len(v), item["seed"]).items():
                C.set_params(net, jnp.asarray(x))
                back = np.asarray(C.flat_params(net))
                col.tick(3, key + (vname,) if key else None)
                col.outcome("roundtrips")
                if nleaves >= 2:
                    col.outcome("roundtrips_with_several_parameter_leaves")
                if back.dtype != x.dtype or back.tobytes() != x.tobytes():
                    col.violation(SIG.format(entry, K_RT_SET), dict(ctx, vector=vname, wrote=x, read=back))
                now, _ = param_values(net)
                if sorted(now.tobytes()[i:i + 4] for i in range(0, 4 * len(now), 4)) != sorted(x.tobytes()[i:i + 4] for i in range(0, 4 * len(x), 4)):
                    col.violation(SIG.format(entry, K_RT_WRITE), dict(ctx, vector=vname))
                after = full_snap(net)
                shapes_ok = [(a[0], a[1], a[2]) for a in after] == [(b[0], b[1], b[2]) for b in before]
                if not shapes_ok:
                    col.violation(SIG.format(entry, K_RT_WRITE), dict(ctx, vector=vname, what="variable paths / shapes / dtypes changed"))
            # restore and compare everything (non-Param variables must never have been touched)
            C.set_params(net, jnp.asarray(v))
            col.tick(1, key)
            if full_snap(net) != before:
                col.violation(SIG.format(entry, K_RT_GET), dict(ctx, what="restoring the original vector did not restore the network", n=len(v)))
        except Exception as e:
            col.tick(1)
            col.violation(SIG.format(entry, K_RAISE), dict(ctx, error=repr(e)[:500]))
            continue
        col.sample(dict(part="roundtrip", architecture=spec, n_params=len(v), leaves=nleaves))
    if not col.samples:
        col.sample(dict(part="roundtrip", note="every architecture of this block raised", block=item["block"]))


# ------------------------------------------------------------------------------------------------
# (e) cross-entropy method
# ------------------------------------------------------------------------------------------------

BOXES = [
    ([-1.0, 0.0], [2.0, 3.0]),
    ([0.1, -0.3], [0.7, 0.9]),
    ([-1e4, -3e3], [1e4, 7e3]),
    ([0.5, 0.5], [0.501, 0.5005]),
    ([0.5, -1.0], [0.5, 1.0]),
    ([-2.0], [2.0]),
    ([0.1, -1.0, 3.0], [0.3, -0.9, 1e3]),
    ([100.0, -2001.0], [101.0, -2000.0]),  # far from the origin: spread much smaller than magnitude
]
BOXES2 = BOXES[:3] + [BOXES[7]]
FR = [0.0, 0.25, 0.5, 1.0]
ZROWS = [-2.0, -1.0, 0.0, 1.0, 2.0]
# fractions with pairwise distinct subset sums (so different elite sets have different means)
SFR = [0.0, 1 / 16, 1 / 8, 1 / 4, 1 / 2, 1.0]


def box32(bi, table=BOXES):
    lo, hi = table[bi]
    return np.asarray(lo, np.float32), np.asarray(hi, np.float32)


def ulp_tol(lo, hi):
    return 2.0 * np.spacing(np.maximum(np.abs(lo), np.abs(hi)).astype(np.float32)).astype(np.float64)


def inside(x, lo, hi):
    """Elementwise: within the box up to 2 ulp of the bound magnitude."""
    x = np.asarray(x, np.float64)
    tol = ulp_tol(lo, hi)
    return (x >= lo.astype(np.float64) - tol) & (x <= hi.astype(np.float64) + tol)


def box_means(lo, hi, fracs):
    out = []
    for fm in itertools.product(fracs, repeat=len(lo)):
        m = np.clip(lo + (hi - lo) * np.asarray(fm, np.float32), lo, hi).astype(np.float32)
        out.append((fm, m))
    return out


def work_cem_sample(item, col):
    lo, hi = box32(item["box"])
    d = len(lo)
    zpat = np.stack([np.full(d, z, np.float32) for z in ZROWS] + [np.asarray([2.0 if (i % 2) else -2.0 for i in range(d)], np.float32),
                                                                   np.asarray([-2.0 if (i % 2) else 2.0 for i in range(d)], np.float32)])
    npop = len(zpat)

    def stub(key, a, b, shape=None, **kw):
        assert tuple(shape) == (npop, d), shape
        assert float(a) == -2.0 and float(b) == 2.0
        return jnp.asarray(zpat)

    for fm, mean in box_means(lo, hi, FR):
        for var in [0.0, 1e-6, 1.0, 1e12]:
            ctx = dict(low=lo, high=hi, mean=mean, var=var)
            v = np.full(d, var, np.float32)
            try:
                with mock.patch("jax.random.truncated_normal", stub):
                    s = np.asarray(X.cem_sample(jnp.asarray(mean), jnp.asarray(v), jax.random.key(0), npop, jnp.asarray(lo), jnp.asarray(hi)))
            except Exception as e:
                col.tick(1)
                col.violation(SIG.format("cem_sample", K_RAISE), dict(ctx, error=repr(e)[:400]))
                continue
            free = mean.astype(np.float64)[None] + zpat.astype(np.float64) * math.sqrt(var)
            decisive = ~inside(free, lo, hi)
            ok = inside(s, lo, hi)
            for i, j in itertools.product(range(npop), range(d)):
                col.tick(1, ("cs", item["box"], fm, var, i, j) if decisive[i, j] else None)
            col.outcome("cem_draws_where_the_bound_constraint_is_decisive", int(decisive.sum()))
            col.outcome("cem_draws", int(decisive.size))
            if not ok.all():
                i, j = map(int, np.argwhere(~ok)[0])
                col.violation(SIG.format("cem_sample", K_OOB), dict(ctx, variate=float(zpat[i, j]), dim=j, candidate=float(s[i, j]),
                                                                    excess_ulps=float(max(lo[j] - s[i, j], s[i, j] - hi[j]) / np.spacing(max(abs(lo[j]), abs(hi[j]))))))
            # real draws for a few keys
            for ks in range(3):
                s = np.asarray(X.cem_sample(jnp.asarray(mean), jnp.asarray(v), jax.random.key(ks + 3 * item["seed"]), 6, jnp.asarray(lo), jnp.asarray(hi)))
                col.tick(s.size)
                col.outcome("cem_real_draws", s.size)
                if not inside(s, lo, hi).all():
                    col.violation(SIG.format("cem_sample", K_OOB), dict(ctx, key=ks, candidates=s, real_draw=True))
    col.sample(dict(part="cem_sample", low=lo, high=hi, variates=ZROWS))


def cem_nonfinite(k):
    out = []
    for b in (tuple(range(k)), tuple(range(k - 1, -1, -1))):
        for pos in range(k):
            for v in ("inf", "-inf"):
                p = list(b)
                p[pos] = v
                out.append(tuple(p))
    out += [("inf",) * k, ("-inf",) * k, ("inf", "inf") + tuple(range(k - 2)), ("-inf", "-inf") + tuple(range(k - 2))]
    return out


@functools.lru_cache(200000)
def elite_sets(fit, ne):
    """All tie-consistent choices of the ne best (larger is better) as sorted index tuples."""
    n = len(fit)
    srt = sorted(fit, reverse=True)
    thr = srt[ne - 1]
    must = [i for i in range(n) if fit[i] > thr]
    may = [i for i in range(n) if fit[i] == thr]
    return [tuple(sorted(must + list(extra))) for extra in itertools.combinations(may, ne - len(must))]


def cem_samples(lo, hi, pop):
    """pop candidates inside the box; per dimension the fractions are a rotation of SFR."""
    d = len(lo)
    rows = []
    for i in range(pop):
        fr = np.asarray([SFR[(i + 2 * j) % len(SFR)] if pop >= 5 else ([1.0, 0.0, 0.25, 0.125][(i + j) % 4]) for j in range(d)], np.float32)
        rows.append(np.clip(lo + (hi - lo) * fr, lo, hi))
    return np.stack(rows).astype(np.float32)


def check_cem_update(col, entry, samples, fit, mean, var, ne, alpha, new_mean, new_var, lo, hi, ctx, key):
    pop = len(fit)
    nontrivial = alpha < 1.0 and ne < pop and len(set(fit)) > 1
    col.tick(3, key if nontrivial else None)
    col.outcome("cem_updates")
    if nontrivial:
        col.outcome("cem_updates_where_the_elite_choice_matters")
    es = elite_sets(tuple(fit), ne)
    if len(es) > 1:
        col.outcome("cem_updates_with_tie_at_the_elite_boundary")
    s64 = samples.astype(np.float64)
    m_ok = v_ok = False
    for el in es:
        e = s64[list(el)]
        rm = alpha * mean.astype(np.float64) + (1 - alpha) * e.mean(0)
        rv = alpha * var.astype(np.float64) + (1 - alpha) * e.var(0)
        if num.close(new_mean, rm):
            m_ok = True
            if num.close(new_var, rv, rtol=1e-4):
                v_ok = True
                break
    if not m_ok:
        col.violation(SIG.format(entry, K_ELITE_M), dict(ctx, new_mean=new_mean, elite_sets_accepted=es[:4]))
    elif not v_ok:
        col.violation(SIG.format(entry, K_ELITE_V), dict(ctx, new_var=new_var, elite_sets_accepted=es[:4]))
    if not inside(new_mean, lo, hi).all():
        col.violation(SIG.format(entry, K_MEAN_OOB), dict(ctx, new_mean=new_mean))


def work_cem_update(item, col):
    lo, hi = box32(item["box"], BOXES2)
    pop = item["pop"]
    fits = [tuple(float(v) for v in p) for p in list(weak_orders(pop)) + cem_nonfinite(pop)]
    if item["block"]:
        fits = fits[item["block"][0]:item["block"][1]]
    samples = cem_samples(lo, hi, pop)
    fr = {"all": [0.0, 0.5, 1.0], "few": [0.0, 1.0], "one": [0.5]}[item["mean_fracs"]]
    means = box_means(lo, hi, fr)
    if item["mean_fracs"] == "few":
        means = means[:3]
    var = np.asarray([1.0, 0.25][: len(lo)] + [2.0] * max(0, len(lo) - 2), np.float32)
    js = jnp.asarray(samples)
    nan_seen = False
    for (fm, mean), alpha, ne, fit in itertools.product(means, item["alphas"], range(1, pop + 1), fits):
        ctx = dict(low=lo, high=hi, mean=mean, var=var, alpha=alpha, n_elite=ne, fitness=fit, samples=samples)
        try:
            nm, nv = X.cem_update(js, jnp.asarray(fit, dtype=jnp.float32), jnp.asarray(mean), jnp.asarray(var), ne, alpha)
        except Exception as e:
            col.tick(1)
            col.violation(SIG.format("cem_update", K_RAISE), dict(ctx, error=repr(e)[:400]))
            continue
        check_cem_update(col, "cem_update", samples, fit, mean, var, ne, alpha, np.asarray(nm), np.asarray(nv), lo, hi, ctx,
                         ("cu", item["box"], pop, fm, alpha, ne, fit))
    # observation only (outside the property): what a nan fitness does
    if not item["block"] or item["block"][0] == 0:
        fit = [float(i) for i in range(pop)]
        fit[1] = float("nan")
        nm, _ = X.cem_update(js, jnp.asarray(fit, dtype=jnp.float32), jnp.asarray(means[0][1]), jnp.asarray(var), 1, 0.0)
        if np.allclose(np.asarray(nm), samples[1]):
            col.outcome("observed_outside_property:cem_update_ranks_a_nan_fitness_candidate_as_best")
    col.sample(dict(part="cem_update", low=lo, high=hi, population=pop, samples=samples))


def work_cem_opt(item, col):
    lo, hi = box32(item["box"], BOXES2)
    pop, ne = 4, item["n_elite"]
    w = weak_orders(pop)
    first = w[item["block"][0]:item["block"][1]]
    second = strict_orders(pop) if item["second"] == "strict" else w
    means = box_means(lo, hi, [0.0, 0.5, 1.0])
    mean0 = means[(item["block"][0] // 15 + ne) % len(means)][1]
    var0 = np.asarray([1.0, 0.25], np.float32)
    for alpha, f1, f2 in itertools.product(item["alphas"], first, second):
        script = [jnp.asarray(f1, dtype=jnp.float32), jnp.asarray(f2, dtype=jnp.float32)]
        seen = []

        def fitness(samples):
            seen.append(np.asarray(samples))
            return script[len(seen) - 1]

        ctx = dict(low=lo, high=hi, init_mean=mean0, init_var=var0, alpha=alpha, n_elite=ne, fitness=[f1, f2])
        try:
            sol, path, hist = X.optimize_cem(fitness, jnp.asarray(mean0), jnp.asarray(var0), jax.random.key(item["seed"]), 2, pop, ne,
                                             jnp.asarray(lo), jnp.asarray(hi), epsilon=0.0, alpha=alpha, return_history=True)
        except Exception as e:
            col.tick(1)
            col.violation(SIG.format("optimize_cem", K_RAISE), dict(ctx, error=repr(e)[:400]))
            continue
        path = np.asarray(path)
        hist = np.asarray(hist).reshape(len(seen), pop, len(lo))
        col.outcome("optimize_cem_runs")
        col.outcome(f"optimize_cem_runs_with_{len(seen)}_iterations")
        mean, var = mean0, var0
        for t in range(len(seen)):
            s = hist[t]
            col.tick(s.size)
            if not inside(s, lo, hi).all():
                col.violation(SIG.format("optimize_cem", K_OOB), dict(ctx, iteration=t, candidates=s))
            if s.tobytes() != seen[t].tobytes():
                col.violation(SIG.format("optimize_cem", K_ATTR), dict(ctx, iteration=t))
            fit = tuple(float(v) for v in (f1, f2)[t])
            # the variance is not observable through the history: take the tie-consistent elite set that explains the mean
            check_opt_step(col, s, fit, mean, ne, alpha, path[t], lo, hi, dict(ctx, iteration=t),
                           ("co", item["box"], ne, alpha, f1, f2 if t else None, t))
            mean = path[t]
        col.tick(1)
        if np.asarray(sol).tobytes() != path[-1].tobytes():
            col.violation(SIG.format("optimize_cem", K_RET), dict(ctx, solution=np.asarray(sol), last_mean=path[-1]))
    col.sample(dict(part="optimize_cem", low=lo, high=hi, n_elite=ne, init_mean=mean0))


def check_opt_step(col, s, fit, mean, ne, alpha, new_mean, lo, hi, ctx, key):
    nontrivial = alpha < 1.0 and ne < len(fit) and len(set(fit)) > 1
    col.tick(2, key if nontrivial else None)
    if nontrivial:
        col.outcome("optimize_cem_steps_where_the_elite_choice_matters")
    s64 = s.astype(np.float64)
    ok = False
    for el in elite_sets(fit, ne):
        rm = alpha * np.asarray(mean, np.float64) + (1 - alpha) * s64[list(el)].mean(0)
        if num.close(new_mean, rm):
            ok = True
            break
    if not ok:
        col.violation(SIG.format("optimize_cem", K_ELITE_M), dict(ctx, candidates=s, prev_mean=mean, new_mean=new_mean))
    if not inside(new_mean, lo, hi).all():
        col.violation(SIG.format("optimize_cem", K_MEAN_OOB), dict(ctx, new_mean=new_mean))
