"""C10 - actions sent to the environment respect the action-space bounds (E3 + E2).

E3 (complete products over finite alphabets, against float64 numpy references):
  * DeterministicTanhPolicy.scale_output / __call__: boxes x pre-activation vectors (every combination of
    {0, +-1, +-9, +-20, +-1e4, +-1e30, +-3.4e38, +-inf} per component) x {eager, jitted, through __call__} x
    {rank-1, batch};
  * ddpg.make_sample_actions / td3.make_sample_target_actions (the jitted factories the training loops use):
    boxes x the same pre-activation vectors (an identity "network": the observation is the pre-activation) x
    noise level x noise_clip x {8 real keys (canonical standard-normal draw), the normal draw replaced by every
    vector over {0, +-1, +-6, +-1e6}} x {rank-1 call as in the loops, batch call as in the updates};
  * cross_entropy_method.cem_sample: boxes (flat and plan-shaped (H, A) as PETS stacks them) x means on every
    corner / edge / interior grid point x variance vectors x {truncated-normal draw replaced by the requested
    truncation limits and their halves and 0, 8 real keys}.
E2: the real train_ddpg / train_td3 / train_td3_lap / train_td7 / train_mrq / train_pets (tiny networks,
    scripted recording environment, learning enabled): every action in the environment log; for PETS also
    mpc_action called on the returned planner state over an observation alphabet.
"""

import contextlib
import io
import itertools
from unittest import mock

import gymnasium as gym
import jax
import jax.numpy as jnp
import numpy as np
from flax import nnx

from vlib import drivers
from vlib.core import skey

PROPERTY = "C10"
LEVEL = "exploration"
USES_JAX = True
CLEAR_EVERY = 12
BUDGET_S = {"quick": 600, "thorough": 2400}
RULE = (
    "samplers: full product box x noise level [x noise_clip] x pre-activation vector x (key | replaced normal-draw "
    "vector) x call rank; tanh map: box x pre-activation vector x route (eager / jit / __call__) x rank; CEM: box x "
    "mean grid point x variance vector x (replaced draw row | key); loops: (routine, box, noise/scale config, script, "
    "step). one evaluation = one action vector (or CEM candidate / planner action) compared with the bounds, plus one "
    "per noise-bound comparison and one per unclipped-law comparison; non-trivial = the mechanism under test is "
    "active for that vector: the float64 reference of the pre-clip value lies outside the box (final clip active), the "
    "reference noise exceeds noise_clip*half-range (noise clip active), the tanh output is within 2 ulp of a bound, "
    "the CEM variance limit binds (requested variance > (distance to nearest bound / 2)^2), or - in the loops - the "
    "action was produced by the policy / planner (not the warm-up sampler); distinct = distinct (entry point, box, "
    "configuration, route, input vector, draw)"
)
ASSUMPTIONS = [
    "gymnasium.spaces.Box.sample() (warm-up actions) and jnp.clip / jnp.tanh semantics are trusted",
    "the 'network' of the E3 samplers is the identity (observation = pre-activation), so every pre-activation of the alphabet is reached exactly; real networks appear only in the E2 loops",
    "real-key mode: the key-determined standard Gaussian is jax.random.normal(key, action.shape) for the key handed to the sampler; replaced-draw mode makes no such assumption (the draw is whatever the patched jax.random.normal returns)",
    "rounding allowance (DESIGN 3 C10): exact containment for the clipped samplers and the loop actions of DDPG/TD3/TD3+LAP/TD7/MR.Q; <= 2 float32 ulp of max(|low|,|high|) per component for the tanh map, CEM candidates and PETS planner actions; unclipped-law and noise-bound comparisons allow 4 float32 ulp of the largest operand",
    "value alphabets are the finite lists in this module; real-valued inputs outside them are not covered; NaN pre-activations are outside the property ('however large')",
    "smoothed target actions inside the training loops are not observable from outside; they are covered through the factory (the same jitted function object type the loops build)",
]
SIG = "C10|{}|{}"

# failure kinds (fixed vocabulary)
K_OOB = "out-of-bounds"  # beyond the box (by more than the rounding allowance where one applies)
K_NAN = "not-a-number"
K_NOISE = "noise-exceeds-noise_clip*half-range"
K_LAW = "unclipped-value!=policy-action+level*half-range*normal"
K_SHAPE = "wrong-shape"
K_RAISED = "raised"

E_TANH = "DeterministicTanhPolicy.scale_output"
E_SA = "ddpg.make_sample_actions"
E_STA = "td3.make_sample_target_actions"
E_CEM = "cross_entropy_method.cem_sample"
E_MPC = "pets.mpc_action"

KTOL = 4.0  # float32 ulps of the largest operand for law / noise-bound comparisons
ULP_ALLOW = 2.0  # rounding allowance of the bound (tanh map, CEM, PETS)
MASK = (1 << 64) - 1

BOXES = {
    "sym": ([-1.0, -1.0], [1.0, 1.0]),
    "asym": ([-1.0, 0.0], [2.0, 3.0]),
    "tiny": ([0.5, 0.5], [0.501, 0.5005]),
    "large": ([-1e4, -3e3], [1e4, 7e3]),
    "perdim": ([-1.0, -100.0], [0.01, 300.0]),
    "nondyadic": ([0.1, -0.3], [0.7, 0.9]),
    "micro": ([-2e-7, 3e-8], [2e-7, 9e-8]),  # dimensions narrower than 1e-6
    "flat": ([0.5, -1.0], [0.5, 1.0]),  # one dimension with low == high (half range 0)
    "one": ([-2.0], [2.0]),
    "three": ([-1.0, 0.1, -1e4], [2.0, 0.7, 1e4]),
}
BOXES_1D = {
    "asym1": ([-1.0], [2.0]),
    "nondyadic1": ([0.1], [0.7]),
    "tiny1": ([0.5], [0.501]),
    "large1": ([-1e4], [7e3]),
    "perdim2": ([-1.0, 1.0], [1.0, 3.0]),  # two action dimensions with different bounds (plan rows must keep them apart)
}
INF = float("inf")
Y_FULL = [0.0, 1.0, -1.0, 20.0, -20.0, 1e4, -1e4, 1e30, -1e30, INF, -INF]
Y_RED = [0.0, 1.0, -20.0, 1e30, -INF]  # 3-dimensional boxes
Y_TANH_EXTRA = [9.0, -9.0, 0.5, -0.5, 3.4e38, -3.4e38, 1e-30]
Z_FULL = [0.0, 1.0, -1.0, 6.0, -6.0, 1e6, -1e6]
Z_RED = [0.0, -1.0, 6.0, -1e6, 1e6]
NOISE = [0.0, 0.1, 10.0]
CLIPS = [0.0, 0.3, 0.5]
N_KEYS = 8


def space_of(box):
    lo, hi = box
    return gym.spaces.Box(np.array(lo, np.float32), np.array(hi, np.float32))


def ulp_of_bounds(lo32, hi32):
    return np.spacing(np.maximum(np.abs(lo32), np.abs(hi32)).astype(np.float32)).astype(np.float64)


def sp32(x):
    """float32 spacing of |x| (x float64 array), floored at the smallest normal spacing."""
    with np.errstate(over="ignore", invalid="ignore"):
        a = np.minimum(np.abs(x), 3.0e38).astype(np.float32)
    return np.maximum(np.spacing(a).astype(np.float64), 1e-45)


class Ident(nnx.Module):
    """The one-layer 'network' that returns the chosen pre-activation: y = observation."""

    def __call__(self, x):
        return x


# =========================================================================================
# enumeration


def items(tier, seed):
    out = []
    thorough = tier != "quick"
    # E2 loops first (the longest items), most expensive routine first
    loop_boxes = ["asym", "nondyadic"] + (["tiny", "large"] if thorough else [])
    scripts = ["ccTccUcc"] + (["cccccccc", "cBcccccT"] if thorough else [])
    variants = [dict(exploration_noise=10.0, policy_scale=1e3), dict(exploration_noise=0.1, policy_scale=1e3)]
    if thorough:
        variants += [dict(exploration_noise=10.0, policy_scale=None), dict(exploration_noise=0.1, policy_scale=None)]
    for algo in ["mrq", "td7", "ddpg", "td3", "td3_lap"]:
        for b, s, (vi, v) in itertools.product(loop_boxes, scripts, enumerate(variants)):
            out.append(dict(name=f"loop-{algo}-{b}-{s}-v{vi}", kind="loop", algo=algo, box=b, script=s, seed=seed, **v))
    # exploration noise 0: the action sent to the environment must be the policy's action (noise level x half range x normal == 0)
    for algo in ["mrq", "td7", "ddpg", "td3", "td3_lap"]:
        out.append(dict(name=f"loop-{algo}-asym-noise0", kind="loop", algo=algo, box="asym", script="ccTccUcc", seed=seed, exploration_noise=0.0,
                        policy_scale=None, zero_noise=True))
    # target smoothing as the routine wires it: noise_clip below the routine's target-noise level, smoothed batches observed inside the run
    for algo in ["td3", "td3_lap"]:
        out.append(dict(name=f"loop-{algo}-asym-clip", kind="loop", algo=algo, box="asym", script="ccTccUcc", seed=seed, exploration_noise=0.1,
                        policy_scale=None, target_clip=0.05))
    pets_boxes = ["asym1", "nondyadic1", "tiny1", "perdim2"] + (["large1"] if thorough else [])
    pets_scripts = ["cccccTcc"] + (["cccccccc"] if thorough else [])
    for b, s, rd in itertools.product(pets_boxes, pets_scripts, [1, -1, 0]):
        if not thorough and (b, rd) in (("nondyadic1", 0), ("tiny1", 1)):
            continue
        out.append(dict(name=f"loop-pets-{b}-{s}-r{rd}", kind="loop", algo="pets", box=b, script=s, seed=seed, reward_dir=rd))
    # E3
    for b in BOXES:
        for ni, _ in enumerate(NOISE):
            out.append(dict(name=f"sta-{b}-n{ni}", kind="sta", box=b, noise=ni, seed=seed, full_rank1=thorough))
    for b in BOXES:
        out.append(dict(name=f"sa-{b}", kind="sa", box=b, seed=seed, full_rank1=thorough))
    for b in BOXES:
        out.append(dict(name=f"cem-{b}", kind="cem", box=b, plan=0, seed=seed, fine=thorough))
    for b in ["asym", "nondyadic", "tiny"] + (["large", "one"] if thorough else []):
        out.append(dict(name=f"cem-plan-{b}", kind="cem", box=b, plan=2, seed=seed, fine=False))
    for b in BOXES:
        out.append(dict(name=f"tanh-{b}", kind="tanh", box=b, seed=seed))
    # optimize_cem over several iterations with objectives that pull the mean towards, onto and beyond a bound
    for b in ["asym", "nondyadic", "perdim"] + (["tiny", "large", "three"] if thorough else []):
        out.append(dict(name=f"cemopt-{b}", kind="cemopt", box=b, seed=seed, iters=5 if not thorough else 8))
    return out


def work_cemopt(item, col):
    """optimize_cem, several iterations: every candidate handed to the fitness function and the returned solution lie in the
    box, whatever the objective does to the mean (targets at the centre, near / on a bound, far outside the box)."""
    import jax
    import jax.numpy as jnp

    from rl_blox.blox.cross_entropy_method import optimize_cem

    lo_l, hi_l = BOXES[item["box"]]
    lo, hi = np.asarray(lo_l, np.float32), np.asarray(hi_l, np.float32)
    E = "cross_entropy_method.optimize_cem"
    w = hi.astype(np.float64) - lo.astype(np.float64)
    targets = {"centre": (lo + hi) / 2, "near-upper": hi - 0.01 * w, "on-lower": lo.astype(np.float64), "beyond-upper": hi + 10 * w, "beyond-lower": lo - 10 * w,
               "mixed": np.where(np.arange(len(lo)) % 2 == 0, hi + w, lo - w)}
    for (tname, tgt), k, alpha in itertools.product(targets.items(), range(3), (0.0, 0.25)):
        seen = []

        def fitness(samples, tgt=tgt):
            seen.append(np.asarray(samples))
            return -jnp.sum(((samples - jnp.asarray(tgt, dtype=jnp.float32)) / jnp.asarray(w, dtype=jnp.float32)) ** 2, axis=-1)

        mean0 = ((lo + hi) / 2).astype(np.float32)
        var0 = ((w / 4) ** 2).astype(np.float32)
        det = dict(box=item["box"], low=lo, high=hi, target=tname, key=k + item["seed"], alpha=alpha, iterations=item["iters"])
        try:
            sol = optimize_cem(fitness, jnp.asarray(mean0), jnp.asarray(var0), jax.random.key(k + item["seed"]), item["iters"], 8, 2, jnp.asarray(lo), jnp.asarray(hi),
                               epsilon=0.0, alpha=alpha)
        except Exception as e:  # noqa: BLE001
            col.tick(1)
            col.violation(SIG.format(E, K_RAISED), dict(det, error=repr(e)[:300]))
            continue
        col.tick(len(seen) * 8, ("cemopt", item["box"], tname, k, alpha))
        col.outcome("optimize_cem_runs")
        col.outcome("optimize_cem_iterations_observed", len(seen))
        bad = None
        for it, smp in enumerate(seen):
            if not (np.all(np.isfinite(smp)) and np.all(smp >= lo) and np.all(smp <= hi)):
                bad = (it, smp)
                break
        if bad is not None:
            col.violation(SIG.format(E, K_OOB), dict(det, iteration=bad[0], candidates=bad[1]))
            continue
        sol = np.asarray(sol)
        if not (np.all(np.isfinite(sol)) and np.all(sol >= lo) and np.all(sol <= hi)):
            col.violation(SIG.format(E, K_OOB), dict(det, what="returned solution", solution=sol))
        if len(seen) >= 3 and tname != "centre":
            col.outcome("optimize_cem_runs_of_three_or_more_iterations_with_the_mean_pulled_to_a_bound")
    col.sample(dict(kind="cemopt", box=item["box"], targets=sorted(targets), iterations=item["iters"]))


def work(item, col):
    {"tanh": work_tanh, "sa": work_sampler, "sta": work_sampler, "cem": work_cem, "loop": work_loop, "cemopt": work_cemopt}[item["kind"]](item, col)


# =========================================================================================
# helpers


def alphabets(A, tanh=False):
    if A >= 3:
        ys = list(Y_RED) + ([9.0, 3.4e38] if tanh else [])
        zs = Z_RED
    else:
        ys = list(Y_FULL) + (Y_TANH_EXTRA if tanh else [])
        zs = Z_FULL
    Y = np.array(list(itertools.product(ys, repeat=A)), dtype=np.float32)
    Z = np.array(list(itertools.product(zs, repeat=A)), dtype=np.float32)
    return Y, Z


def mark(col, base, rows):
    for r in rows:
        col.nontriv((base + int(r)) & MASK)


def first_bad(mask):
    idx = np.argwhere(mask)
    return tuple(int(i) for i in idx[0])


def containment(col, entry, a32, lo32, hi32, allow_ulps, ctx, rows_of=None):
    """a32: (..., A) float32 result. Returns per-row boolean 'inside'. Reports NaN and out-of-bounds."""
    a = np.asarray(a32)
    a64 = a.astype(np.float64)
    lo, hi = lo32.astype(np.float64), hi32.astype(np.float64)
    nan = np.isnan(a64)
    if allow_ulps:
        u = ulp_of_bounds(lo32, hi32)
        exc = np.maximum(lo - a64, a64 - hi) / u
        bad = ~(exc <= allow_ulps)
    else:
        exc = np.maximum(lo - a64, a64 - hi)
        bad = ~((a >= lo32) & (a <= hi32))
    if nan.any():
        i = first_bad(nan)
        col.violation(SIG.format(entry, K_NAN), dict(ctx, index=list(i), value=a64[i[:-1]].tolist() if a.ndim > 1 else a64.tolist(),
                                                       input=rows_of(i) if rows_of else None))
    oob = bad & ~nan
    if oob.any():
        i = first_bad(oob)
        col.violation(SIG.format(entry, K_OOB), dict(ctx, index=list(i), value=(a64[i[:-1]] if a.ndim > 1 else a64).tolist(),
                                                       low=lo.tolist(), high=hi.tolist(), excess=float(exc[i]),
                                                       excess_unit="float32 ulp of the bound" if allow_ulps else "absolute",
                                                       n_bad=int(oob.sum()), input=rows_of(i) if rows_of else None))
    return exc


# =========================================================================================
# tanh map


def work_tanh(item, col):
    box = BOXES[item["box"]]
    sp = space_of(box)
    lo32, hi32 = sp.low, sp.high
    A = lo32.shape[0]
    from rl_blox.blox.function_approximator.policy_head import DeterministicTanhPolicy

    pol = DeterministicTanhPolicy(Ident(), sp)
    Y, _ = alphabets(A, tanh=True)
    jitted = nnx.jit(lambda p, y: p.scale_output(y))
    jcall = nnx.jit(lambda p, y: p(y))
    u = ulp_of_bounds(lo32, hi32)
    lo, hi = lo32.astype(np.float64), hi32.astype(np.float64)
    worst = -np.inf
    routes = {
        "eager": lambda y: pol.scale_output(y),
        "jit": lambda y: jitted(pol, y),
        "call": lambda y: pol(y),
        "jit-call": lambda y: jcall(pol, y),
    }
    # would the doubled-scale map (high-low instead of (high-low)/2) leave the box? (vacuity counter)
    with np.errstate(over="ignore", invalid="ignore"):
        t = np.tanh(Y.astype(np.float64))
    dbl = t * (hi - lo) + (hi + lo) / 2
    dbl_out = ((dbl > hi + 2 * u) | (dbl < lo - 2 * u)).any(axis=-1)
    for rname, f in routes.items():
        base = skey((E_TANH, item["box"], rname))
        # batch
        try:
            out = np.asarray(f(jnp.asarray(Y)))
        except Exception as e:  # noqa: BLE001
            col.violation(SIG.format(E_TANH, K_RAISED), dict(box=item["box"], route=rname, error=repr(e)[:300]))
            continue
        if out.shape != Y.shape:
            col.violation(SIG.format(E_TANH, K_SHAPE), dict(box=item["box"], route=rname, got=list(out.shape), want=list(Y.shape)))
            continue
        ctx = dict(box=item["box"], route=rname, rank="batch")
        exc = containment(col, E_TANH, out, lo32, hi32, ULP_ALLOW, ctx, rows_of=lambda i: dict(pre_activation=Y[i[0]].tolist()))
        col.tick(len(Y))
        with np.errstate(invalid="ignore"):
            sat = (exc >= -ULP_ALLOW).any(axis=-1)  # some component within 2 ulp of (or beyond) a bound
        mark(col, base, np.nonzero(sat)[0])
        col.outcome("tanh_vectors_saturating_to_a_bound", int(sat.sum()))
        col.outcome("tanh_vectors_out_of_bounds_if_scale_were_high-low", int(dbl_out.sum()))
        col.outcome("tanh_components_overshooting_the_bound_by_rounding", int((exc > 0).sum()))
        worst = max(worst, float(np.nanmax(exc)))
        # rank-1: every vector singly
        rows = range(len(Y))
        for r in rows:
            o1 = np.asarray(f(jnp.asarray(Y[r])))
            if o1.shape != (A,):
                col.violation(SIG.format(E_TANH, K_SHAPE), dict(box=item["box"], route=rname, got=list(o1.shape), want=[A]))
                break
            e1 = containment(col, E_TANH, o1, lo32, hi32, ULP_ALLOW, dict(box=item["box"], route=rname, rank="vector", pre_activation=Y[r].tolist()))
            col.tick(1)
            if (e1 >= -ULP_ALLOW).any():
                col.nontriv((base + (1 << 40) + r) & MASK)
    col.append("tanh_worst_excess_ulps", dict(box=item["box"], worst_excess_in_ulps_of_bound=worst))
    col.sample(dict(kind="tanh", box=item["box"], pre_activation=Y[len(Y) // 3].tolist(), action=np.asarray(pol.scale_output(jnp.asarray(Y[len(Y) // 3]))).tolist()))


# =========================================================================================
# clipped samplers


def make_stub(table):
    """Replacement for jax.random.normal: rank-1 requests are answered from `table` indexed by the key's low word
    (so one compiled function serves every draw vector), batch requests by the prepared batch."""
    state = dict(batch=None, calls=0)

    def stub(key, shape=(), dtype=float, **kw):
        state["calls"] += 1
        shape = tuple(shape)
        if len(shape) == 1:
            idx = jax.random.key_data(key)[..., -1] % table.shape[0]
            return jnp.asarray(table)[idx]
        b = state["batch"]
        assert b is not None and tuple(b.shape) == shape, (shape, None if b is None else b.shape)
        return jnp.asarray(b)

    return stub, state


def work_sampler(item, col):
    from rl_blox.algorithm import ddpg, td3
    from rl_blox.blox.function_approximator.policy_head import DeterministicTanhPolicy

    target = item["kind"] == "sta"
    entry = E_STA if target else E_SA
    box = BOXES[item["box"]]
    sp = space_of(box)
    lo32, hi32 = sp.low, sp.high
    A = lo32.shape[0]
    pol = DeterministicTanhPolicy(Ident(), sp)
    Y, Z = alphabets(A)
    pi_all = np.asarray(pol(jnp.asarray(Y)))  # float32 policy actions for every pre-activation vector
    # product batch for the replaced-draw mode: every (pre-activation vector, draw vector)
    yi, zi = np.meshgrid(np.arange(len(Y)), np.arange(len(Z)), indexing="ij")
    yi, zi = yi.ravel(), zi.ravel()
    YB, ZB, PB = Y[yi], Z[zi], pi_all[yi]
    diag = [r for r in range(len(Y)) if A == 1 or all(abs(Y[r][0]) == abs(v) for v in Y[r])]
    zdiag = [r for r in range(len(Z)) if A == 1 or all(abs(Z[r][0]) == abs(v) for v in Z[r])]
    rank1_rows = list(range(len(Y))) if item.get("full_rank1") else diag
    rank1_z = list(range(len(Z))) if item.get("full_rank1") else zdiag
    seed = item["seed"]
    keys = [seed * 1000 + k for k in range(N_KEYS)]
    noises = NOISE if not target else [NOISE[item["noise"]]]
    clips = CLIPS if target else [None]
    stub, sstate = make_stub(Z)
    for noise, clipv in itertools.product(noises, clips):
        cfgname = (item["box"], noise, clipv)

        def factory():
            # process history is part of the item: a sampler for a DIFFERENT box of the same shape, dtype and noise
            # settings is built (and called once) first, so anything the factories keep across calls - e.g. a cache
            # keyed without the bounds - is filled by the decoy and shows on the box under test in every process
            decoy = gym.spaces.Box(lo32 - 3.0 - 2.0 * np.abs(lo32), hi32 + 5.0 + 3.0 * np.abs(hi32), dtype=np.float32)
            _ = td3.make_sample_target_actions(decoy, noise, clipv) if target else ddpg.make_sample_actions(decoy, noise)
            if target:
                return td3.make_sample_target_actions(sp, noise, clipv)
            return ddpg.make_sample_actions(sp, noise)

        judge = Judge(col, entry, lo32, hi32, noise, clipv, dict(box=item["box"], noise_level=noise, noise_clip=clipv))
        # ---- real keys -------------------------------------------------------------------
        f = factory()
        for k in keys:
            key = jax.random.key(k)
            try:
                out = np.asarray(f(pol, jnp.asarray(Y), key))
            except Exception as e:  # noqa: BLE001
                col.violation(SIG.format(entry, K_RAISED), dict(judge.ctx, error=repr(e)[:300]))
                break
            zz = np.asarray(jax.random.normal(key, Y.shape))
            judge(out, pi_all, zz, Y, skey((entry, cfgname, "key-batch", k)), dict(mode="key", rank="batch", key=k))
            z1 = np.asarray(jax.random.normal(key, (A,)))
            o1 = [np.asarray(f(pol, jnp.asarray(Y[r]), key)) for r in rank1_rows]
            if any(o.shape != (A,) for o in o1):
                col.violation(SIG.format(entry, K_SHAPE), dict(judge.ctx, got=[list(o.shape) for o in o1][:3], want=[A]))
                continue
            judge(np.stack(o1), pi_all[rank1_rows], np.broadcast_to(z1, (len(o1), A)), Y[rank1_rows],
                  skey((entry, cfgname, "key-vector", k)), dict(mode="key", rank="vector", key=k))
        # ---- replaced draws --------------------------------------------------------------
        with mock.patch.object(jax.random, "normal", stub):
            f = factory()
            sstate["batch"] = ZB
            n0 = sstate["calls"]
            out = np.asarray(f(pol, jnp.asarray(YB), jax.random.key(0)))
            judge(out, PB, ZB, YB, skey((entry, cfgname, "stub-batch")), dict(mode="replaced-draw", rank="batch"))
            o1, rr, zz = [], [], []
            for zrow in rank1_z:
                key = jax.random.key(zrow)
                for r in rank1_rows:
                    o1.append(np.asarray(f(pol, jnp.asarray(Y[r]), key)))
                    rr.append(r)
                    zz.append(zrow)
            if any(o.shape != (A,) for o in o1):
                col.violation(SIG.format(entry, K_SHAPE), dict(judge.ctx, got=[list(o.shape) for o in o1][:3], want=[A]))
            else:
                judge(np.stack(o1), pi_all[rr], Z[zz], Y[rr], skey((entry, cfgname, "stub-vector")), dict(mode="replaced-draw", rank="vector"))
            if sstate["calls"] == n0:
                # the sampler did not look up jax.random.normal: the replaced-draw cases were not what they claim
                col.cap(f"{entry}: jax.random.normal is not the name the sampler looks up; replaced-draw mode ineffective")
        judge.flush()
    col.sample(dict(kind=item["kind"], box=item["box"], note="see outcomes; one unclipped example", example=judge.example))


class Judge:
    """Oracle for one (sampler, box, noise level, noise_clip) configuration; rows are action vectors."""

    def __init__(self, col, entry, lo32, hi32, noise, clipv, ctx):
        self.col, self.entry, self.lo32, self.hi32, self.noise, self.clipv, self.ctx = col, entry, lo32, hi32, noise, clipv, ctx
        self.lo, self.hi = lo32.astype(np.float64), hi32.astype(np.float64)
        self.half = (self.hi - self.lo) / 2.0
        self.worst_law = 0.0
        self.worst_noise = -np.inf
        self.example = None

    def __call__(self, out, pi32, z32, y, base, how):
        col, entry = self.col, self.entry
        ctx = dict(self.ctx, **how)
        out = np.asarray(out)
        if out.shape != pi32.shape:
            col.violation(SIG.format(entry, K_SHAPE), dict(ctx, got=list(out.shape), want=list(pi32.shape)))
            return
        n = out.shape[0]
        rows_of = lambda i: dict(pre_activation=y[i[0]].tolist(), policy_action=pi32[i[0]].tolist(), normal_draw=z32[i[0]].tolist())  # noqa: E731
        containment(col, entry, out, self.lo32, self.hi32, 0, ctx, rows_of=rows_of)
        col.tick(n)
        a = out.astype(np.float64)
        pi = pi32.astype(np.float64)
        z = z32.astype(np.float64)
        eps = self.noise * self.half * z
        lo, hi = self.lo, self.hi
        nontriv = np.zeros(n, dtype=bool)
        if self.clipv is None:
            pre = pi + eps
            noise_ok = np.ones_like(pre, dtype=bool)
        else:
            c = self.clipv * self.half
            uc = sp32(np.maximum(np.abs(eps), c))
            noise_active = np.abs(eps) > c
            noise_ok = np.abs(eps) <= c - KTOL * uc  # the reference says the noise clip is not active (by a margin)
            pre = pi + np.clip(eps, -c, c)
            # noise bound: |result - policy action| <= noise_clip * half range (always, because the policy action is in the box)
            un = sp32(np.maximum(np.maximum(np.abs(a), np.abs(pi)), c)) + sp32(np.maximum(np.abs(lo), np.abs(hi)))
            dev = np.abs(a - pi) - c
            badn = ~(dev <= KTOL * un)
            col.tick(n)
            with np.errstate(invalid="ignore"):
                self.worst_noise = max(self.worst_noise, float(np.nanmax(dev / un)))
            if badn.any():
                i = first_bad(badn)
                col.violation(SIG.format(entry, K_NOISE), dict(ctx, input=rows_of(i), result=a[i[0]].tolist(), component=i[1],
                                                               deviation_from_policy_action=float(abs(a[i] - pi[i])),
                                                               allowed=float(c[i[1]]), n_bad=int(badn.sum())))
            nontriv |= noise_active.any(axis=-1)
            col.outcome(f"{short(entry)}_vectors_noise_clip_active", int(noise_active.any(axis=-1).sum()))
            # how many would exceed the noise bound if the noise were not clipped at all (vacuity)
            raw = np.clip(pi + eps, lo, hi)
            col.outcome(f"{short(entry)}_vectors_exceeding_noise_bound_if_noise_unclipped",
                        int((np.abs(raw - pi) - c > KTOL * un).any(axis=-1).sum()))
        u = sp32(np.maximum(np.maximum(np.maximum(np.abs(pi), np.abs(eps)), np.abs(pre)), np.maximum(np.abs(lo), np.abs(hi))))
        m = KTOL * u
        with np.errstate(invalid="ignore"):
            over = (pre > hi) | (pre < lo)
            free = noise_ok & (pre >= lo + m) & (pre <= hi - m) & np.isfinite(pre)
        # the law is a statement about whole action vectors, but components are independent: compare per component
        err = np.where(free, np.abs(a - pre) / u, 0.0)
        badl = free & ~(err <= KTOL)
        col.tick(int(free.any(axis=-1).sum()))
        self.worst_law = max(self.worst_law, float(err.max()) if err.size else 0.0)
        if badl.any():
            i = first_bad(badl)
            col.violation(SIG.format(entry, K_LAW), dict(ctx, input=rows_of(i), component=i[1], result=float(a[i]), expected=float(pre[i]),
                                                         error_ulps=float(err[i]), n_bad=int(badl.sum())))
        nontriv |= over.any(axis=-1)
        s = short(entry)
        col.outcome(f"{s}_vectors_final_clip_active", int(over.any(axis=-1).sum()))
        col.outcome(f"{s}_vectors_final_clip_active_low_side", int((pre < lo).any(axis=-1).sum()))
        col.outcome(f"{s}_vectors_final_clip_active_high_side", int((pre > hi).any(axis=-1).sum()))
        col.outcome(f"{s}_components_unclipped_law_checked", int(free.sum()))
        col.outcome(f"{s}_components_unclipped_law_checked_with_nonzero_noise", int((free & (eps != 0)).sum()))
        mark(col, base, np.nonzero(nontriv)[0])
        if self.example is None and (free & (eps != 0)).any():
            i = first_bad(free & (eps != 0))
            self.example = dict(ctx, **rows_of(i), result=a[i[0]].tolist())

    def flush(self):
        self.col.append("sampler_worst_errors", dict(self.ctx, entry=self.entry, worst_law_error_ulps=round(self.worst_law, 3),
                                                      worst_noise_bound_excess_ulps=None if self.clipv is None else round(self.worst_noise, 3)))


def short(entry):
    return {E_SA: "sample_actions", E_STA: "sample_target_actions"}[entry]


# =========================================================================================
# CEM


def work_cem(item, col):
    from rl_blox.blox.cross_entropy_method import cem_sample

    lo_l, hi_l = BOXES[item["box"]]
    lo32, hi32 = np.array(lo_l, np.float32), np.array(hi_l, np.float32)
    H = item["plan"]
    A = lo32.shape[0]
    if H:
        lo32, hi32 = np.vstack([lo32] * H), np.vstack([hi32] * H)
    shape = lo32.shape
    D = int(np.prod(shape))
    lo, hi = lo32.astype(np.float64), hi32.astype(np.float64)
    rng32 = hi32 - lo32
    fr = [0.0, 0.25, 0.5, 1.0] + ([0.75, 0.999, 1e-3] if item.get("fine") and D <= 2 else [])
    if D > 3:
        fr = [0.0, 0.5, 1.0]
    u = ulp_of_bounds(lo32, hi32)
    var_fracs = [("zero", 0.0), ("small", 1e-6), ("init", 1.0 / 16.0), ("huge", None)]
    var_vecs = [(n, [v] * D) for n, v in var_fracs] + ([("mixed", [0.0 if d % 2 == 0 else None for d in range(D)])] if D > 1 else [])
    seed = item["seed"]
    keys = [seed * 1000 + k for k in range(N_KEYS)]
    asked = []

    def stub(key, lower, upper, shape=None, dtype=float, **kw):
        lower, upper = float(lower), float(upper)
        asked.append((lower, upper))
        rows = jnp.asarray([lower, lower / 2, 0.0, upper / 2, upper], dtype=jnp.float32)
        return jnp.broadcast_to(rows.reshape((5,) + (1,) * (len(shape) - 1)), shape)

    worst = -np.inf
    n_means = 0
    for fm in itertools.product(fr, repeat=D):
        f32 = np.array(fm, np.float32).reshape(shape)
        mean32 = np.clip(lo32 + rng32 * f32, lo32, hi32)  # clipped into the box: low + (high-low)*1.0 is 1 ulp outside
        # add the exact neighbours of the bounds for the 'fine' grid
        n_means += 1
        mean = mean32.astype(np.float64)
        dist2 = (0.5 * np.minimum(mean - lo, hi - mean)) ** 2
        for vname, vv in var_vecs:
            huge = np.array([v is None for v in vv]).reshape(shape)
            frac = np.array([0.0 if v is None else v for v in vv], np.float32).reshape(shape)
            var32 = np.where(huge, np.float32(1e12), frac * rng32 * rng32).astype(np.float32)
            var = var32.astype(np.float64)
            binds = var > dist2
            ctx = dict(box=item["box"], plan_horizon=H, mean=mean32.tolist(), var=var32.tolist())
            base = skey((E_CEM, item["box"], H, fm, vname))
            # replaced draws: the truncation limits the code asks for, their halves, and 0
            with mock.patch.object(jax.random, "truncated_normal", stub):
                try:
                    s = np.asarray(cem_sample(jnp.asarray(mean32), jnp.asarray(var32), jax.random.key(0), 5, jnp.asarray(lo32), jnp.asarray(hi32)))
                except Exception as e:  # noqa: BLE001
                    col.violation(SIG.format(E_CEM, K_RAISED), dict(ctx, error=repr(e)[:300]))
                    continue
            if s.shape != (5,) + shape:
                col.violation(SIG.format(E_CEM, K_SHAPE), dict(ctx, got=list(s.shape), want=[5] + list(shape)))
                continue
            zrow = None
            if asked:
                l_, u_ = asked[-1]
                zrow = np.array([l_, l_ / 2, 0.0, u_ / 2, u_])
            exc = containment(col, E_CEM, s.reshape(5, -1), lo32.ravel(), hi32.ravel(), ULP_ALLOW, dict(ctx, mode="replaced-draw"),
                              rows_of=lambda i: dict(draw=None if zrow is None else float(zrow[i[0]])))
            col.tick(5)
            worst = max(worst, float(np.nanmax(exc)))
            col.outcome("cem_candidates_beyond_the_bound_by_rounding", int((exc > 0).any(axis=-1).sum()))
            if binds.any():
                mark(col, base, range(5))
                col.outcome("cem_cases_variance_limit_binds", 5)
                if zrow is not None:
                    free = mean[None] + zrow.reshape((5,) + (1,) * len(shape)) * np.sqrt(var)[None]
                    out = ((free > hi + ULP_ALLOW * u) | (free < lo - ULP_ALLOW * u)).reshape(5, -1).any(axis=-1)
                    col.outcome("cem_candidates_out_of_bounds_without_variance_limit", int(out.sum()))
            # real keys (population 4..6)
            for k in keys:
                npop = 4 + k % 3
                s = np.asarray(cem_sample(jnp.asarray(mean32), jnp.asarray(var32), jax.random.key(k), npop, jnp.asarray(lo32), jnp.asarray(hi32)))
                if s.shape != (npop,) + shape:
                    col.violation(SIG.format(E_CEM, K_SHAPE), dict(ctx, got=list(s.shape), want=[npop] + list(shape)))
                    break
                exc = containment(col, E_CEM, s.reshape(npop, -1), lo32.ravel(), hi32.ravel(), ULP_ALLOW, dict(ctx, mode="key", key=k))
                col.tick(npop)
                worst = max(worst, float(np.nanmax(exc)))
                if binds.any():
                    mark(col, base + 100 * (k % 1000 + 1), range(npop))
    if not asked:
        col.cap(f"{E_CEM}: jax.random.truncated_normal is not the name cem_sample looks up; replaced-draw mode ineffective")
    else:
        col.append("cem_truncation_limits_requested", dict(box=item["box"], plan_horizon=H, limits=sorted(set(asked))))
    col.append("cem_worst_excess_ulps", dict(box=item["box"], plan_horizon=H, means=n_means, worst_excess_in_ulps_of_bound=worst))
    col.sample(dict(kind="cem", box=item["box"], plan_horizon=H, last_mean=mean32.tolist(), last_var=var32.tolist(), candidates=s.tolist()[:2]))


# =========================================================================================
# E2: the real training loops


def run_loop(name, script, cfg):
    """drivers.run with one addition: policy_scale for TD7 (the driver table supports it for ddpg/td3/td3_lap/mrq)."""
    drivers._register_logger()
    env = drivers.make_env(name, script, cfg)
    call, mods = drivers.build(name, env, cfg)
    if name == "td7" and cfg.get("policy_scale") is not None:
        drivers._scale_params(mods["actor"].policy_net, cfg["policy_scale"])
        drivers._scale_params(mods["actor_target"].policy_net, cfg["policy_scale"])
    rb = drivers.new_buffer(name, cfg)
    kw = drivers.loop_kwargs(name, script, cfg)
    with contextlib.redirect_stdout(io.StringIO()):
        result = call(rb, kw)
    jax.effects_barrier()
    return env, result, kw


def acting_policy(algo, result):
    """The policy the routine acts with, rebuilt from what it returned (learning rate 0: parameters unchanged)."""
    if algo in ("ddpg", "td3", "td3_lap"):
        return result.policy
    if algo == "td7":
        from rl_blox.blox.embedding.sale import DeterministicSALEPolicy

        return DeterministicSALEPolicy(result.fixed_embedding, result.actor)
    if algo == "mrq":
        return result.policy_with_encoder
    raise KeyError(algo)


def work_loop(item, col):
    algo = item["algo"]
    pets = algo == "pets"
    lo_l, hi_l = (BOXES_1D if pets else BOXES)[item["box"]]
    ls = 2
    cfg = dict(low=tuple(lo_l), high=tuple(hi_l), learning_starts=ls, buffer_size=64, batch_size=2, seed=1 + item["seed"], net_seed=item["seed"])
    if pets:
        rd = item["reward_dir"]
        if rd:
            cfg["reward_model"] = lambda act, obs, rd=rd: rd * jnp.sum(act, axis=-1) + 0.0 * jnp.sum(obs, axis=-1)
        cfg["extra"] = dict(n_opt_iter=3)
    else:
        cfg.update(exploration_noise=item["exploration_noise"])
        if item.get("policy_scale") is not None:
            cfg["policy_scale"] = item["policy_scale"]
        if item.get("zero_noise"):
            cfg["lr"] = 0.0  # parameters stay at their initial values, so the harness can evaluate the acting policy itself
    entry = f"train_{algo}"
    if not pets:
        from rl_blox.algorithm import ddpg, td3

        # decoy: the exploration / target samplers are first built for another box with the same noise settings
        decoy = gym.spaces.Box(np.asarray(lo_l, dtype=np.float32) - 9.0, np.asarray(hi_l, dtype=np.float32) + 11.0, dtype=np.float32)
        ddpg.make_sample_actions(decoy, cfg["exploration_noise"])
        td3.make_sample_target_actions(decoy, cfg["exploration_noise"], 0.5)
    smoothed = []
    spied = None
    if item.get("target_clip") is not None:
        import importlib

        cfg["noise_clip"] = item["target_clip"]
        spied = importlib.import_module(f"rl_blox.algorithm.{algo}")
        real_factory = spied.make_sample_target_actions

        def spy_factory(*a, **k):
            real = real_factory(*a, **k)

            def sampler(policy, obs, key):
                res = real(policy, obs, key)
                jax.debug.callback(lambda b_, r_: smoothed.append((np.asarray(b_), np.asarray(r_))), policy(obs), res)
                return res

            return sampler

        spied.make_sample_target_actions = spy_factory
    try:
        env, result, kw = run_loop(algo, item["script"], cfg)
    finally:
        if spied is not None:
            spied.make_sample_target_actions = real_factory
    lo32, hi32 = env.action_space.low, env.action_space.high
    if spied is not None:
        half = 0.5 * (hi32.astype(np.float64) - lo32.astype(np.float64))
        lim = kw["noise_clip"] * half
        if not smoothed:
            col.cap(f"{item['name']}: no smoothed target batch observed")
        for base_a, sm in smoothed:
            col.tick(1)
            col.outcome(f"loop_{algo}_smoothed_target_batches")
            d = np.abs(sm.astype(np.float64) - base_a.astype(np.float64))
            if (d > lim * (1 + 1e-5) + 1e-6 * half).any():
                col.violation(SIG.format(entry, K_NOISE), dict(routine=entry, box=item["box"], noise_clip=kw["noise_clip"], max_over_half_range=float((d / half).max()),
                                                               where="smoothed target actions computed inside the training loop"))
            if (d > 0.5 * lim).any():
                col.outcome(f"loop_{algo}_smoothed_batches_with_noise_above_half_the_clip")
    allow = ULP_ALLOW if pets else 0
    steps = [e for e in env.log if e[0] == "step"]
    if len(steps) != len(item["script"]):
        col.cap(f"{item['name']}: {len(steps)} steps executed, expected {len(item['script'])}")
    base = skey(("loop", item["name"]))
    rng = (hi32 - lo32).astype(np.float64)
    n_pol = 0
    for t, e in enumerate(steps):
        a = np.asarray(e[1])
        by_policy = t >= ls
        ctx = dict(routine=entry, box=item["box"], script=item["script"], step=t, produced_by="policy/planner" if by_policy else "warm-up sampler",
                   config={k: v for k, v in item.items() if k in ("exploration_noise", "policy_scale", "reward_dir")})
        if a.shape != lo32.shape:
            col.violation(SIG.format(entry, K_SHAPE), dict(ctx, got=list(a.shape), want=list(lo32.shape)))
            continue
        exc = containment(col, entry, a.astype(np.float32) if a.dtype != np.float32 else a, lo32, hi32, allow, ctx)
        if a.dtype != np.float32:
            # a wider dtype could hide an overshoot that float32 rounding removes: compare the raw value too
            a64 = a.astype(np.float64)
            if ((a64 < lo32.astype(np.float64)) | (a64 > hi32.astype(np.float64))).any() and not allow:
                col.violation(SIG.format(entry, K_OOB), dict(ctx, value=a64.tolist(), low=lo32.tolist(), high=hi32.tolist(), dtype=str(a.dtype)))
        col.tick(1)
        if by_policy:
            n_pol += 1
            col.nontriv((base + t) & MASK)
            col.outcome(f"loop_{algo}_policy_actions")
            a64 = a.astype(np.float64)
            if ((a64 == lo32) | (a64 == hi32)).any():
                col.outcome(f"loop_{algo}_policy_actions_with_a_component_exactly_on_a_bound")
            if pets:
                near = np.minimum(a64 - lo32, hi32 - a64) < 0.1 * rng
                if near.any():
                    col.outcome("loop_pets_planner_actions_within_10%_of_a_bound")
                if (exc > 0).any():
                    col.outcome("loop_pets_planner_actions_beyond_the_bound_by_rounding")
        else:
            col.outcome(f"loop_{algo}_warmup_actions")
    if not pets and result is not None:
        # the TRAINED policy (and target policy) still maps into the box: evaluate the returned modules on the
        # observations of the run (with policy_scale the tanh is saturated, so the output sits on scale/bias)
        probes = {"policy": acting_policy(algo, result)}
        for f in ("policy_target", "policy_with_encoder_target"):
            if hasattr(result, f):
                probes[f] = getattr(result, f)
        obs_list = [np.asarray(t[0], dtype=np.float32) for t in env.transitions()][:6]
        for pname, pol in probes.items():
            for o in obs_list:
                try:
                    out = np.asarray(pol(jnp.asarray(o)))
                except Exception:  # noqa: BLE001 - composite targets with another call signature are skipped
                    break
                col.tick(1)
                col.outcome("trained_policy_outputs_probed")
                containment(col, entry + "[returned " + pname + "]", out.astype(np.float32), lo32, hi32, ULP_ALLOW,
                            dict(routine=entry, module=pname, observation=o.tolist(), box=item["box"]))
    if item.get("zero_noise") and len(steps) > ls:
        acting = acting_policy(algo, result)
        for t, e in enumerate(steps):
            if t < ls:
                continue
            o = np.asarray(env.transitions()[t][0], dtype=np.float32)
            want = np.asarray(acting(jnp.asarray(o)), dtype=np.float64)
            got = np.asarray(e[1], dtype=np.float64)
            col.tick(1, ("noise0", algo, t))
            col.outcome("zero_noise_policy_actions_compared")
            tol = 4 * np.spacing(np.maximum(np.abs(lo32), np.abs(hi32)).astype(np.float32)).astype(np.float64)
            if got.shape != want.shape or not np.all(np.abs(got - want) <= tol):
                col.violation(SIG.format(entry, "exploration-perturbation!=configured-noise-level*half-range*normal"),
                              dict(routine=entry, step=t, exploration_noise=0.0, sent=got.tolist(), policy_action=want.tolist()))
                break
    if pets:
        from rl_blox.algorithm import pets as P

        obs_alpha = [[0.0, 0.0], [1.0, -1.0], [1e3, 1e3], [-1e30, 1e30], [3.0, 0.5]]
        worst = -np.inf
        for oi, o in enumerate(obs_alpha):
            for rep in range(3):
                try:
                    act = np.asarray(P.mpc_action(result.mpc_config, result.mpc_state, result.mpc_optimize_fn, np.array(o, np.float32)))
                except Exception as ex:  # noqa: BLE001
                    col.violation(SIG.format(E_MPC, K_RAISED), dict(box=item["box"], obs=o, error=repr(ex)[:300]))
                    break
                ctx = dict(box=item["box"], reward_dir=item["reward_dir"], observation=o, call=rep, after_script=item["script"])
                if act.shape != lo32.shape:
                    col.violation(SIG.format(E_MPC, K_SHAPE), dict(ctx, got=list(act.shape), want=list(lo32.shape)))
                    break
                exc = containment(col, E_MPC, act, lo32, hi32, ULP_ALLOW, ctx)
                worst = max(worst, float(np.nanmax(exc)))
                col.tick(1)
                col.nontriv((base + 1000 + 10 * oi + rep) & MASK)
                col.outcome("mpc_action_calls")
                a64 = act.astype(np.float64)
                if (np.minimum(a64 - lo32, hi32 - a64) < 0.1 * rng).any():
                    col.outcome("mpc_action_results_within_10%_of_a_bound")
                if (exc > 0).any():
                    col.outcome("mpc_action_results_beyond_the_bound_by_rounding")
        col.append("mpc_worst_excess_ulps", dict(item=item["name"], worst_excess_in_ulps_of_bound=worst))
    col.sample(dict(kind="loop", item=item["name"], actions=[np.asarray(e[1]).tolist() for e in steps]))
