"""C02 - replay buffer is a faithful fixed-capacity FIFO of whole transitions (E1, fixpoint)."""

import itertools

import numpy as np

from vlib import e1

PROPERTY = "C02"
LEVEL = "model_checking"
USES_JAX = True  # sample_batch returns jnp arrays
RULE = (
    "BFS over op histories (add / sample with a stub generator that returns every index block / len / "
    "select-task / task-choice answers) on the real buffer classes, canonical state = (insert_idx, "
    "current_len, ages of stored tags[, per task, selected task, active set]); one evaluation = one "
    "oracle comparison (slot-by-slot content after an add, one sampled row, one len); non-trivial = "
    "the state is wrapped (full with insert_idx != 0 or overwritten at least once) or the sampled "
    "row lies next to the write position; distinct = distinct (config, canonical state, op, row index)"
)
ASSUMPTIONS = [
    "stored content never influences control flow of the buffers, so states with equal control state and equal relative ages have equal futures (canonicalisation argument, DESIGN 3 C02)",
    "numpy / jax array semantics as documented",
    "capacities <= 3 (quick) / <= 4 (thorough); tasks <= 2 / <= 3",
]

SIG = "C02|{}|{}"
KNOWN_BUF = {"buffer", "Batch", "buffer_size", "current_len", "insert_idx", "priority"}
KNOWN_PRI = {"priority", "max_priority", "sampled_indices"}


def items(tier, seed):
    caps = [1, 2, 3] if tier == "quick" else [1, 2, 3, 4]
    shapes = [(), (2,), (2, 2)]
    modes = ["default", "discrete", "custom"]
    out = []
    for cls in ["ReplayBuffer", "LAP", "PrioritizedReplayBuffer"]:
        for cap, shape, mode in itertools.product(caps, shapes, modes):
            if tier == "quick" and shape == (2, 2) and mode != "default":
                continue
            out.append(dict(name=f"{cls}-{cap}-{shape}-{mode}", cls=cls, cap=cap, shape=list(shape), mode=mode, tasks=0, seed=seed))
    for cls in ["ReplayBuffer", "LAP", "PrioritizedReplayBuffer"]:
        for cap, mode in itertools.product([2, 3] if tier == "quick" else caps, ["default", "custom"]):
            out.append(dict(name=f"{cls}-{cap}-kwreversed-{mode}", cls=cls, cap=cap, shape=[2], mode=mode, tasks=0, seed=seed, kw="reversed"))
    # later additions whose fields have another, broadcast-compatible shape than the first one ((1,) reward then float, (1, 2) then (2,))
    for cls in ["ReplayBuffer", "LAP", "PrioritizedReplayBuffer", "MT-ReplayBuffer"]:
        out.append(dict(name=f"{cls}-mixed-shapes", kind="mixshape", cls=cls, seed=seed, caps=[2, 3] if tier == "quick" else [1, 2, 3, 4]))
    tasks = [1, 2] if tier == "quick" else [1, 2, 3]
    for inner in ["ReplayBuffer", "LAP"]:
        for cap, nt in itertools.product(caps if tier == "quick" else [1, 2, 3], tasks):
            out.append(dict(name=f"MT-{inner}-{cap}-{nt}", cls=inner, cap=cap, shape=[2], mode="default", tasks=nt, seed=seed))
    return out


# -- tagged transitions -------------------------------------------------------------------


def make_sample(cfg, n, task=0):
    """Transition number n (of task `task`): every field value is unique to (task, n, field)."""
    base = 1000 * task + 10 * n + cfg["seed"] % 7
    shape = tuple(cfg["shape"])
    if cfg["mode"] == "custom":
        return {"a": np.full(shape, base + 0.1), "b": np.full(shape, base + 2, dtype=np.int64)}
    act = (base + 2) if cfg["mode"] == "discrete" else np.full(shape, base + 2.5)
    return {
        "observation": np.full(shape, base + 1.0),
        "action": act,
        "reward": base + 3.25,
        "next_observation": np.full(shape, base + 4.0),
        "termination": bool(n % 2),
    }


def storage_dtypes(cfg):
    if cfg["mode"] == "custom":
        return {"a": np.float32, "b": np.int16}
    return {
        "observation": np.float64,
        "action": np.int64 if cfg["mode"] == "discrete" else np.float64,
        "reward": np.float64,
        "next_observation": np.float64,
        "termination": np.int64,
    }


def new_buffer(cfg):
    from rl_blox.blox import replay_buffer as rb

    cls = getattr(rb, cfg["cls"])
    if cfg["mode"] == "custom":
        b = cls(cfg["cap"], keys=["a", "b"], dtypes=[np.float32, np.int16])
    elif cfg["mode"] == "discrete":
        b = cls(cfg["cap"], discrete_actions=True)
    else:
        b = cls(cfg["cap"])
    if cfg["tasks"]:
        b = rb.MultiTaskReplayBuffer(b, cfg["tasks"])
    return b


# -- stub generator ------------------------------------------------------------------------


class StubRng:
    """Owns every random answer of sample_batch; records what was asked."""

    def __init__(self):
        self.want = None  # indices the explorer wants returned (uniform buffer / LAP)
        self.frac = 0.5  # position inside each stratum (PER)
        self.choice_answer = 0
        self.asked = []

    def integers(self, low, high=None, size=None):
        self.asked.append(("integers", int(low), None if high is None else int(high), size))
        return np.asarray(self.want, dtype=np.int64)

    def uniform(self, low=0.0, high=1.0, size=None):
        self.asked.append(("uniform", size))
        low = np.asarray(low, dtype=float)
        high = np.asarray(high, dtype=float)
        if low.ndim == 0 and self.want is not None:
            # plain prioritized sampling: all priorities are equal in this check (no updates other than the
            # all-zero state), so u = (i + 1/2)/len lands strictly inside entry i's interval
            n = self.n_valid
            return (np.asarray(self.want, dtype=float) + 0.5) / n
        return low + self.frac * (high - low)

    def choice(self, a, size=None):
        a = list(range(int(a))) if isinstance(a, (int, np.integer)) else list(a)  # numpy semantics: an int means arange
        self.asked.append(("choice", tuple(a), size))
        return np.asarray([a[self.choice_answer % len(a)]])


class B(e1.Bundle):
    pass


class _NotThere:
    """Stand-in for a per-task buffer the wrapper has not created (yet): an empty buffer as far as the observations go."""

    current_len = 0
    insert_idx = 0
    buffer = {}
    buffer_size = 0

    def __len__(self):
        return 0


def buffers_of(b):
    return [x if x is not None else _NotThere() for x in b.buffers] if hasattr(b, "buffers") else [b]


def canon(bd):
    out = []
    for t, buf in enumerate(buffers_of(bd.buf)):
        n = bd.n_added[t]
        ages = ()
        if buf.current_len > 0:
            key = next(iter(buf.buffer))
            col0 = np.asarray(buf.buffer[key]).reshape(buf.buffer_size, -1)[:, 0]
            # age of the transition whose tag sits in each written slot (slots < current_len)
            ages = tuple(int(round(n - (float(v) - bd.off[t]) / 10.0)) for v in col0[: buf.current_len])
        hid = e1.hidden_state(buf, KNOWN_BUF) + (e1.hidden_state(buf.priority, KNOWN_PRI) if hasattr(buf, "priority") else ())
        if hasattr(buf, "priority"):
            hid += (tuple(float(x) for x in buf.priority.priority[: buf.current_len]),)
        out.append((buf.insert_idx, buf.current_len, ages, hid))
    if hasattr(bd.buf, "buffers"):
        return (tuple(out), bd.buf.selected_task, tuple(sorted(bd.buf.active_buffers)), e1.hidden_state(bd.buf, {"buffers", "selected_task", "active_buffers", "sampled_task_idx"}))
    return tuple(out)


def cast(cfg, k, v):
    return np.asarray(v).astype(storage_dtypes(cfg)[k])


def check_content(bd, t, entry, hist):
    """Slot-by-slot: written slots hold exactly the last min(n, N) transitions, fields aligned."""
    cfg, col = bd.cfg, bd.col
    buf = buffers_of(bd.buf)[t]
    ref = bd.ref[t]
    cap = cfg["cap"]
    wrapped = bd.n_added[t] > cap
    ok = True
    if len(buf) != len(ref):
        col.violation(SIG.format(entry, "len!=min(n,N)"), dict(hist=hist, len=len(buf), expected=len(ref)))
        ok = False
    stored = []
    for slot in range(min(buf.current_len, cap)):
        stored.append({k: np.array(buf.buffer[k][slot]) for k in buf.buffer})
    # multiset equality with the reference, each slot matching ONE reference item on all fields
    ref_left = list(ref)
    for slot, row in enumerate(stored):
        hit = None
        for j, r in enumerate(ref_left):
            if all(np.array_equal(row[k], cast(cfg, k, r[k])) and row[k].dtype == storage_dtypes(cfg)[k] for k in row):
                hit = j
                break
        col.tick(1, ("content", cfg["name"], canon(bd), slot) if wrapped else None)
        if hit is None:
            col.violation(SIG.format(entry, "slot-content-not-a-recent-transition"), dict(hist=hist, slot=slot, row=row, n_added=bd.n_added[t]))
            ok = False
        else:
            ref_left.pop(hit)
    if ok and ref_left:
        col.violation(SIG.format(entry, "recent-transition-missing"), dict(hist=hist, missing=len(ref_left)))
    if wrapped:
        col.outcome("wrapped_checks")


def check_batch(bd, t, batch, want_len, entry, hist, near_write=False):
    cfg, col = bd.cfg, bd.col
    ref = bd.ref[t]
    keys = list(storage_dtypes(cfg))
    if list(batch._fields) != keys:
        col.violation(SIG.format(entry, "batch-field-order"), dict(hist=hist, fields=list(batch._fields)))
        return
    arrs = {k: np.asarray(getattr(batch, k)) for k in keys}
    nrows = arrs[keys[0]].shape[0]
    if nrows != want_len:
        col.violation(SIG.format(entry, "batch-size"), dict(hist=hist, got=nrows, want=want_len))
    for i in range(nrows):
        row = {k: arrs[k][i] for k in keys}
        hit = False
        for r in ref:
            if all(np.array_equal(row[k], cast(cfg, k, r[k]).astype(row[k].dtype)) for k in keys):
                hit = True
                break
        wrapped = bd.n_added[t] > cfg["cap"]
        col.tick(1, ("row", cfg["name"], canon(bd), entry, i, want_len) if wrapped or near_write else None)
        if not hit:
            col.violation(SIG.format(entry, "sampled-row-not-a-stored-transition"), dict(hist=hist, row=row, i=i))


def ops(bd):
    cfg = bd.cfg
    out = [("add",), ("len",)]
    mt = cfg["tasks"] > 0
    bufs = buffers_of(bd.buf)
    if not mt:
        if bufs[0].current_len > 0:
            for b in sorted({1, 2, cfg["cap"] + 1}):
                out.append(("sample", b))
            if hasattr(bufs[0], "priority") and cfg["cls"] == "LAP" and any(float(x) != 0.0 for x in bufs[0].priority.priority[: bufs[0].current_len]):
                out.append(("zero",))  # degenerate priorities: content guarantees must still hold
    else:
        for i in range(-1, cfg["tasks"] + 1):
            out.append(("select", i))
        act = sorted(bd.buf.active_buffers)
        for j in range(len(act)):
            for b in (1, 2):
                out.append(("sample", b, j, "pos" if (b + j) % 2 else "kw"))
        if 0 <= bd.sel < len(bufs) and bufs[bd.sel].current_len == 0:
            out.append(("badadd",))  # an addition the (still empty) task buffer rejects: the task must not become eligible for sampling
    return out


def do_sample(bd, buf, t, b, entry, hist, via=None, how="pos"):
    cfg, col = bd.cfg, bd.col
    n = buf.current_len
    is_per = cfg["cls"] == "PrioritizedReplayBuffer"
    blocks = [[(s + j) % n for j in range(b)] for s in range(0, n, b)] if not is_per else [None, None, None]
    for bi, want in enumerate(blocks):
        rng = StubRng()
        rng.want = want
        rng.n_valid = n
        rng.frac = (0.25, 0.5, 1 - 2.0**-10)[bi % 3]
        before = canon(bd)
        try:
            if via is not None:
                rng.choice_answer = via[1]
                if how == "kw":
                    out = via[0].sample_batch(b, rng=rng)
                else:
                    out = via[0].sample_batch(b, rng)
            else:
                out = buf.sample_batch(b, rng)
        except Exception as e:  # noqa: BLE001 - sampling from a buffer that holds data is defined for every generator answer
            col.tick(1)
            col.violation(SIG.format(entry, "sampling-raised"), dict(hist=hist, error=f"{type(e).__name__}: {str(e)[:200]}", asked=[list(map(str, a)) for a in rng.asked][:4]))
            continue
        batch = out[0] if is_per else out
        for a in rng.asked:
            if a[0] == "integers" and (a[1] != 0 or a[2] != len(bd.ref[t])):
                col.violation(SIG.format(entry, "sample-range!=[0,len)"), dict(hist=hist, asked=a, len=len(bd.ref[t])))
            if a[0] == "choice":
                have = tuple(sorted(i for i, r in enumerate(bd.ref) if r))
                if tuple(sorted(a[1])) != have:
                    col.violation(SIG.format(entry, "task-choice-not-the-tasks-with-data"), dict(hist=hist, offered=a[1], have=have))
        near = want is not None and any(((w - buf.insert_idx) % cfg["cap"]) in (0, cfg["cap"] - 1) for w in want)
        check_batch(bd, t, batch, b, entry, hist, near)
        if canon(bd) != before:
            col.violation(SIG.format(entry, "sample-changed-buffer-state"), dict(hist=hist))
        if want is not None:
            col.outcome("sampled_index_sets")


def apply(bd, op):
    cfg, col = bd.cfg, bd.col
    bd.hist = bd.hist + [list(op)]
    hist = bd.hist
    mt = cfg["tasks"] > 0
    entry = ("MultiTaskReplayBuffer(" + cfg["cls"] + ")") if mt else cfg["cls"]
    if op[0] == "add":
        t = bd.sel if mt else 0
        s = make_sample(cfg, bd.n_added[t], t)
        before = [canon_one(bd, u) for u in range(len(bd.ref))]
        if cfg.get("kw") == "reversed":
            bd.buf.add_sample(**dict(reversed(list(s.items()))))  # same keyword arguments, another order
        else:
            bd.buf.add_sample(**s)
        bd.n_added[t] += 1
        bd.ref[t].append(s)
        if len(bd.ref[t]) > cfg["cap"]:
            bd.ref[t].pop(0)
            col.outcome("overwrites")
        for u in range(len(bd.ref)):
            if u != t and canon_one(bd, u) != before[u]:
                col.violation(SIG.format(entry, "add-changed-unselected-task"), dict(hist=hist, task=u))
        check_content(bd, t, entry + ".add_sample", hist)
        return ("add", t)
    if op[0] == "badadd":
        col.tick(1)
        try:
            bd.buf.add_sample(**{"no_such_field_of_this_buffer": np.float32(1.0)})
            col.outcome("additions_with_an_unknown_field_accepted")
        except Exception:  # noqa: BLE001 - the rejection itself is not judged; what the buffer offers for sampling afterwards is
            col.outcome("rejected_additions_to_an_empty_task")
        return ("badadd",)
    if op[0] == "len":
        want = sum(len(r) for r in bd.ref)
        col.tick(1)
        if len(bd.buf) != want:
            col.violation(SIG.format(entry + ".__len__", "len!=min(n,N)"), dict(hist=hist, len=len(bd.buf), expected=want))
        return ("len", len(bd.buf))
    if op[0] == "select":
        i = op[1]
        before = canon(bd)
        try:
            bd.buf.select_task(i)
            raised = False
        except ValueError:
            raised = True
        col.tick(1)
        if 0 <= i < cfg["tasks"]:
            if raised:
                col.violation(SIG.format(entry + ".select_task", "valid-task-id-rejected"), dict(hist=hist, task=i))
            else:
                bd.sel = i
        else:
            if not raised:
                # undefined by the property; reported, and the branch is not continued with a made-up reference
                col.outcome("invalid_task_id_accepted")
                bd.buf.selected_task = bd.sel
            elif canon(bd) != before:
                col.violation(SIG.format(entry + ".select_task", "rejected-select-changed-state"), dict(hist=hist, task=i))
        return ("select", i, raised)
    if op[0] == "zero":
        n = bd.buf.current_len
        rng = StubRng()
        rng.want, rng.n_valid = list(range(n)), n
        try:
            bd.buf.sample_batch(n, rng)
            bd.buf.update_priority(0.0)
        except Exception as e:  # noqa: BLE001
            col.violation(SIG.format(entry + ".update_priority", "raised"), dict(hist=hist, error=f"{type(e).__name__}: {str(e)[:100]}"))
        col.tick(1)
        col.outcome("states_with_all_priorities_zero")
        return ("zero",)
    if op[0] == "sample":
        if not mt:
            do_sample(bd, bd.buf, 0, op[1], entry + ".sample_batch", hist)
        else:
            # the stub answers the task choice with position op[2] of the list the buffer offers
            offered = list(bd.buf.active_buffers)
            have = sorted(i for i, r in enumerate(bd.ref) if r)
            t = sorted(offered)[op[2] % len(offered)]
            pos = offered.index(t)
            if not (0 <= t < len(bd.ref)) or not bd.ref[t]:
                # a task without data is eligible: the batch cannot come from a task that already has data
                col.tick(1)
                col.violation(SIG.format(entry + ".sample_batch", "task-without-data-eligible-for-sampling"), dict(hist=hist, offered=sorted(offered), tasks_with_data=have))
                return ("sample", "task-without-data")
            try:
                do_sample(bd, bd.buf.buffers[t], t, op[1], entry + ".sample_batch", hist, via=(bd.buf, pos), how=op[3])
            except Exception as e:  # noqa: BLE001 - sampling from a task that has data must work
                col.violation(SIG.format(entry + ".sample_batch", "sampling-a-task-with-data-raised"), dict(hist=hist, task=t, error=f"{type(e).__name__}: {str(e)[:100]}"))
                return ("sample", "raised")
            if getattr(bd.buf, "sampled_task_idx", t) != t:
                bd.col.violation(SIG.format(entry + ".sample_batch", "batch-not-from-the-chosen-task"), dict(hist=hist))
        return ("sample",)
    raise ValueError(op)


def canon_one(bd, t):
    buf = buffers_of(bd.buf)[t]
    arrs = tuple(np.asarray(v).tobytes() for v in buf.buffer.values())
    return (buf.insert_idx, buf.current_len, arrs)


def make_bundle(cfg, col):
    bd = B()
    bd.cfg = cfg
    bd.col = col
    bd.buf = new_buffer(cfg)
    nt = max(1, cfg["tasks"])
    bd.ref = [[] for _ in range(nt)]
    bd.n_added = [0] * nt
    bd.off = [1000 * t + cfg["seed"] % 7 + (0.1 if cfg["mode"] == "custom" else 1.0) for t in range(nt)]
    bd.sel = 0
    bd.hist = []
    return bd


def DIVERGENCE_ENTRY(item):
    return (("MultiTaskReplayBuffer(" + item["cls"] + ")") if item.get("tasks") else str(item.get("cls")))


def mixshape_item(item, col):
    """The first addition fixes the storage shape; later additions may hand the same quantity in any shape that assigns into
    one slot (a float for a (1,) reward, a (2,) observation for a (1, 2) one).  Every stored transition must stay intact."""
    from vlib import poison

    rb = poison.install()
    mt = item["cls"].startswith("MT-")
    cname = item["cls"][3:] if mt else item["cls"]
    entry = (f"MultiTaskReplayBuffer({cname})" if mt else cname) + ".add_sample"
    for cap, n, first_wide in itertools.product(item["caps"], range(2, 7), (True, False)):
        buf = getattr(rb, cname)(cap)
        if mt:
            buf = rb.MultiTaskReplayBuffer(buf, 2)
            buf.select_task(1)
        want = []
        for i in range(n):
            base = 10.0 * i + item["seed"] % 7
            wide = (i == 0) == first_wide  # either the first addition or all the later ones use the wider shape
            obs, nobs, rew = np.array([base + 1.0, base + 1.5]), np.array([base + 4.0, base + 4.5]), base + 3.25
            if wide:
                smp = dict(observation=obs[None, :], action=np.array([[base + 2.5]]), reward=np.array([rew]), next_observation=nobs[None, :], termination=bool(i % 2))
            else:
                smp = dict(observation=obs, action=np.array([base + 2.5]), reward=rew, next_observation=nobs, termination=bool(i % 2))
            if not first_wide and i == 0:
                pass
            try:
                buf.add_sample(**smp)
            except Exception as e:  # noqa: BLE001 - a shape that does not assign into the slot may be rejected loudly
                col.outcome("mixed_shape_additions_rejected_loudly")
                want = None
                break
            want.append([base + 1.0, base + 1.5, base + 2.5, rew, base + 4.0, base + 4.5, float(i % 2)])
        col.tick(1, (entry, cap, n, first_wide))
        if want is None:
            continue
        inner = buf.buffers[1] if mt else buf
        stored = set()
        for sl in range(inner.current_len):
            row = np.concatenate([np.asarray(inner.buffer[k][sl], dtype=np.float64).reshape(-1) for k in ("observation", "action", "reward", "next_observation", "termination")])
            stored.add(tuple(row.tolist()))
        expect = {tuple(w) for w in want[-cap:]}
        col.outcome("mixed_shape_histories")
        if len(inner) != min(n, cap) or stored != expect:
            col.violation(SIG.format(entry, "slot-content-not-a-recent-transition"), dict(capacity=cap, additions=n, first_addition_is_the_wide_one=first_wide,
                                                                                           stored=sorted(stored), expected=sorted(expect)))
    col.sample(dict(kind="mixed field shapes", cls=item["cls"], capacities=item["caps"]))


def work(item, col):
    if item.get("kind") == "mixshape":
        return mixshape_item(item, col)
    cfg = item
    cap = cfg["cap"]
    from vlib import poison

    rbm = poison.install()  # uninitialised memory has the same content in every process
    # process history is part of the item: buffers of the other flavours (discrete actions, custom dtypes, a prioritized one)
    # are built and used first, so state shared between instances reaches the buffer under test in every process
    for decoy in (rbm.ReplayBuffer(2, discrete_actions=True), rbm.LAP(2, discrete_actions=True),
                  rbm.ReplayBuffer(2, keys=["a", "b"], dtypes=[np.float32, np.int16])):
        try:
            if "a" in decoy.buffer:
                decoy.add_sample(a=1.5, b=2)
            else:
                decoy.add_sample(observation=np.zeros(1), action=1, reward=0.5, next_observation=np.zeros(1), termination=False)
        except Exception:  # noqa: BLE001 - the decoys are not under test
            pass
    try:
        make_bundle(cfg, e1.NullCol())
    except Exception as e:  # noqa: BLE001
        # every configuration here passes documented constructor arguments (capacity, keys, dtypes, discrete_actions)
        col.tick(1)
        col.violation(SIG.format((("MultiTaskReplayBuffer(" + cfg["cls"] + ")") if cfg["tasks"] else cfg["cls"]) + ".__init__", "constructor-raised-on-documented-arguments"), dict(config=cfg["name"], error=f"{type(e).__name__}: {str(e)[:200]}"))
        return
    res = e1.bfs(
        make=lambda: make_bundle(cfg, col),
        ops=ops,
        apply=apply,
        canon=canon,
        max_depth=6 * cap + 8,
        max_states=20000,
        validate_make=lambda: make_bundle(cfg, e1.NullCol()),
    )
    col.graph(res["states"], res["transitions"], res["validated"], res["max_depth"])
    if not res["fixpoint"]:
        col.cap(f"{cfg['name']}: search did not close (depth/state cap)")
    wrapped = sum(1 for k in res["paths"] if _wrapped(k, cap))
    col.outcome("states_full_and_wrapped", wrapped)
    col.append("configurations", dict(name=cfg["name"], states=res["states"], transitions=res["transitions"], fixpoint=res["fixpoint"], max_depth=res["max_depth"]))
    deepest = max(res["paths"].values(), key=len)
    col.sample(dict(config=cfg["name"], history=[list(o) for o in deepest]))


def _wrapped(k, cap):
    # multi-task keys are (per-task tuple, selected, active, hidden); single buffers are the per-task tuple itself
    per = k[0] if (len(k) == 4 and isinstance(k[1], int)) else k
    return any(isinstance(c, tuple) and len(c) >= 2 and c[1] == cap and c[0] != 0 for c in per)
