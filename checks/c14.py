"""C14 - tabular learners apply their textbook update to exactly one entry (E3 single updates + E2 histories).

Two layers:

* single updates (E3): the update helpers (`q_learning._update_policy`, `sarsa._update_policy`,
  `double_q_learning._dql_update`, `dynaq.q_learning_update`, `monte_carlo.update`, `dynaq.counter_update` /
  `model_update`, `dynaq.planning`) are called on the complete product of small alphabets and compared with a
  float64 numpy reference written from the property text.  Helpers are looked up by name and called by
  parameter name; a helper that cannot be located is reduced coverage (outcome + cap), never a violation.
* histories (E2): the public `train_*` functions run against a scripted tabular environment whose successor
  state and episode-end flag at every step are explorer choices.  The tree of all answer sequences is walked
  depth-first; the node of length n is one `train_*(total_timesteps=n)` run (same seed, same script prefix) and
  is compared with its parent (= prefix differencing): step n may change only what the text allows, by the
  textbook amount computed from the parent's tables and the logged ground-truth transition.
"""

import collections
import importlib
import inspect
import itertools
import os

import gymnasium as gym
import jax
import jax.numpy as jnp
import numpy as np

from vlib.num import close
from vlib.senv import HorizonExceeded, StepAfterEnd

PROPERTY = "C14"
LEVEL = "exploration"
USES_JAX = True
CLEAR_EVERY = 200  # a handful of jitted programs only
RULE = (
    "single updates: full product of (table, s, a, s', a', r, terminated, gamma, lr) per learner (Q-learning: a' "
    "ranges over the greedy actions at s' only; double-Q / Dyna-Q have no a'), all episodes (obs,act)^L for the "
    "Monte-Carlo update, all (pair,successor)^L sequences for the Dyna-Q model, a product of models x buffers x "
    "steps x keys for Dyna-Q planning; one evaluation = one returned table compared entry by entry with the "
    "float64 reference; non-trivial = the reference delta of the visited entry is non-zero (so 'exactly one entry "
    "changes' is not vacuous) / the episode revisits an entry or continues from non-zero visit counts / one "
    "(s,a) pair has two distinct successors / planning changed the table; distinct = distinct argument tuple. "
    "histories: every answer sequence (successor in {0,1}) x (continue/Terminate/trUncate) up to the horizon "
    "(quick: at most 2 episode ends) is one run of the public train_* function, diffed against the run of its "
    "prefix; one evaluation = one step's table difference judged by the reference; non-trivial = not the first "
    "step and the reference change is non-zero (Monte-Carlo: the step ends an episode); distinct = distinct "
    "(learner configuration, answer sequence)"
)
ASSUMPTIONS = [
    "train_* with the same seed and the same scripted answers reproduces its own prefix (checked per run on the logged actions; a mismatch is reported as reduced coverage, determinism itself is C09)",
    "SARSA histories: the next action is internal, so the oracle accepts the value of ANY action at the successor (the exact supplied-next-action law is checked on the update helper)",
    "Dyna-Q: no termination factor is demanded (with and without are accepted); a planning step may replay any buffered (s,a) with any successor of positive empirical frequency and that successor's empirical mean reward",
    "Dyna-Q's model is internal to train_dynaq; it is observed as the arguments train_dynaq passes to dynaq.planning (wrapper located by name) and through dynaq.counter_update/model_update directly",
    "Monte-Carlo: every-visit averaging as documented; a supplied n_visits table counts as that many earlier returns with mean q_table",
    "float32 results vs float64 reference: |a-b| <= 1e-5*max(1,|b|); untouched entries bytes-equal",
    "states <= 3, actions <= 2 (3 in one thorough table); history horizon 5 with <= 2 episode ends (quick); thorough: full product at horizon 6 for the base Q-learning/SARSA/double-Q/Monte-Carlo configurations, full product at horizon 5 for the others except two Dyna-Q configurations (horizon 5, <= 2 episode ends)",
]
BUDGET_S = {"quick": 600, "thorough": 3000}
if os.environ.get("VERIF_C14_BUDGET_S"):  # heavily shared machine: raise the wall-clock guard without editing the file
    BUDGET_S = {k: int(os.environ["VERIF_C14_BUDGET_S"]) for k in BUDGET_S}

SIG = "C14|{}|{}"
# failure kinds (fixed vocabulary)
K_OTHER = "other-entry-changed"
K_AMOUNT = "visited-entry-wrong-amount"
K_BOTH = "both-tables-changed"
K_TERMINAL = "bootstrap-on-terminal"
K_TRUNC = "truncation-masked-like-termination"
K_CURSTATE = "successor-action-chosen-at-current-state"
K_SHAPE = "table-shape-or-dtype-changed"
K_MC_MEAN = "not-running-mean-of-returns"
K_MC_COUNT = "visit-count-wrong"
K_STALE = "model-successor-frequencies-stale"
K_FREQ = "model-successor-frequencies-wrong"
K_MREW = "model-mean-reward-wrong"
K_REPLAY = "planning-not-a-model-replay"
K_RAISED = "raised"

ENTRY = {
    "ql": "train_q_learning",
    "sarsa": "train_sarsa",
    "dql": "train_double_q_learning",
    "mc": "train_monte_carlo",
    "dyna": "train_dynaq",
}

# -- value alphabets --------------------------------------------------------------------------

BASE_TABLES = [
    [[1, -2], [0, 3], [2, 2]],  # tie in the last row
    [[0, 0], [0, 0], [0, 0]],  # the table the repo's tests start from
    [[-1, 4], [5, -3], [1, 0]],
    [[3, 3], [-2, -4], [0, 7]],
    [[-5, -1], [2, 6], [4, -3]],
    [[0.5, 0.25], [-1.5, 2.0], [8, -8]],
]
TABLE_33 = [[1, -2, 4], [0, 3, 3], [2, -1, 2]]


def table(i, seed, shift=0.0):
    """Table i of the alphabet; the seed shifts all values by an exact dyadic offset (ties stay ties).
    Histories use shift=0.25: no entry is zero, so a masked bootstrap never coincides with an unmasked one."""
    if i == "near":
        # near-ties: the entries of a row differ by exactly one float32 ulp (after the shift), so the greedy action is
        # well defined but any perturbation of the values before the arg-max picks another one
        t = np.asarray([[1, 1], [2, 2], [0.5, 0.5]], dtype=np.float32) + np.float32(0.5 * (seed % 4) + shift)
        t[0, 1] = np.nextafter(t[0, 1], np.float32(np.inf))
        t[1, 0] = np.nextafter(t[1, 0], np.float32(np.inf))
        t[2, 1] = np.nextafter(t[2, 1], np.float32(-np.inf))
        return t
    t = np.asarray(TABLE_33 if i == "33" else BASE_TABLES[i], dtype=np.float32)
    return t + np.float32(0.5 * (seed % 4) + shift)


def other_table(q, spread=False):
    """Second table for double Q-learning: rows reversed and sign-flipped columns swapped -> unrelated argmaxes.
    spread: clearly different values per action (used with the near-tie table, whose own rows differ by one ulp only, so
    that evaluating the wrong successor action in the OTHER table is visible)."""
    o = (q[::-1, ::-1] * np.float32(1.5) - np.float32(0.5)).astype(np.float32).copy()
    if spread:
        o = (o + np.arange(o.shape[1], dtype=np.float32)[None, :] * np.float32(0.75)).astype(np.float32)
    return o


# -- locating helpers -------------------------------------------------------------------------


def locate(col, modname, attr, params):
    """rl_blox.algorithm.<modname>.<attr> if it exists, has the named parameters and needs no others; else None
    (a renamed / re-shaped helper is reduced coverage, not a violation)."""
    try:
        mod = importlib.import_module(f"rl_blox.algorithm.{modname}")
        fn = getattr(mod, attr)
        sig = inspect.signature(fn).parameters
        have = set(sig)
        required = {k for k, v in sig.items() if v.default is inspect.Parameter.empty and v.kind not in (v.VAR_POSITIONAL, v.VAR_KEYWORD)}
    except Exception:
        fn, have, required = None, set(), set()
    if fn is None or not set(params) <= have or not required <= set(params):
        col.outcome(f"not_located:{modname}.{attr}")
        col.cap(f"helper {modname}.{attr}({', '.join(params)}) not located: single-update sub-check skipped")
        return None
    return fn


def _entries_changed(a, b):
    """Index tuples of entries whose bytes differ (same shape assumed)."""
    a, b = np.ascontiguousarray(a), np.ascontiguousarray(b)
    if a.dtype == b.dtype and a.dtype.itemsize in (4, 8):
        u = np.uint32 if a.dtype.itemsize == 4 else np.uint64
        diff = a.view(u) != b.view(u)
    else:
        diff = ~((a == b) | (np.isnan(a.astype(float)) & np.isnan(b.astype(float))))
    return [tuple(int(x) for x in ix) for ix in np.argwhere(diff)]


def judge_entry(prev, new, s, a, cands, alts):
    """None if `new` equals `prev` except that entry (s,a) is close to one of `cands`; a failure kind (str) for a
    structural failure; else the list of diagnostic hypotheses (kinds of `alts`: {kind: [values]}) that the wrong
    value of the visited entry agrees with (possibly empty) - see Findings for how these become one signature."""
    if new.shape != prev.shape or new.dtype != prev.dtype:
        return K_SHAPE
    others = [e for e in _entries_changed(prev, new) if e != (s, a)]
    if others:
        return K_OTHER
    v = float(new[s, a])
    if any(close(v, c) for c in cands):
        return None
    return [kind for kind, vals in alts.items() if any(close(v, c) for c in vals)]


DIAG_ORDER = ["successor-action-chosen-at-current-state", "bootstrap-on-terminal", "truncation-masked-like-termination"]


class Findings:
    """Violations of one work item.  A wrong amount in the visited entry gets a diagnostic failure kind only if
    EVERY wrong amount of that entry point in the item agrees with the same hypothesis (a single case can agree
    with a hypothesis by coincidence); otherwise all of them are reported as `visited-entry-wrong-amount`.
    Emitted smallest case first."""

    def __init__(self, col):
        self.col, self.fixed, self.amount, self.n = col, [], {}, 0

    def add(self, entry, verdict, detail, sortkey=None):
        self.n += 1
        sortkey = (self.n,) if sortkey is None else sortkey
        if isinstance(verdict, str):
            self.fixed.append((sortkey, SIG.format(entry, verdict), detail))
        else:
            self.amount.setdefault(entry, []).append((sortkey, set(verdict), detail))

    def flush(self):
        for entry, lst in self.amount.items():
            common = set.intersection(*[m for _, m, _ in lst])
            kind = next((k for k in DIAG_ORDER if k in common), K_AMOUNT)
            self.fixed += [(k, SIG.format(entry, kind), d) for k, _, d in lst]
        for _, sig, detail in sorted(self.fixed, key=lambda x: (x[0], x[1])):
            self.col.violation(sig, detail)
        self.fixed, self.amount = [], {}


def td(q, s, a, r, gamma, mask, v, lr):
    q = float(q[s, a])
    return q + lr * (r + gamma * mask * float(v) - q)


def argmaxes(row):
    row = np.asarray(row)
    return [int(i) for i in np.flatnonzero(row == row.max())]


# =============================================================================================
#  single updates (E3)
# =============================================================================================


def single_alphabets(tier):
    if tier == "quick":
        return dict(tables=[0, 1, 2, "near"], rs=[-1.0, 0.0, 2.0], terms=[False, True], gammas=[0.0, 0.5, 1.0], lrs=[0.1, 1.0])
    return dict(
        tables=[0, 1, 2, 3, 4, 5, "33", "near"],
        rs=[-1.0, 0.0, 2.0, 0.75],
        terms=[False, True, 0, 1],
        gammas=[0.0, 0.5, 0.9, 1.0],
        lrs=[0.1, 0.5, 1.0],
    )


def work_single_td(item, col):
    learner, seed = item["learner"], item["seed"]
    entry = ENTRY[learner]
    al = item["alph"]
    Q = table(item["table"], seed)
    Q2 = other_table(Q, spread=item["table"] == "near")
    nS, nA = Q.shape
    if learner in ("ql", "sarsa"):
        fn = locate(col, {"ql": "q_learning", "sarsa": "sarsa"}[learner], "_update_policy",
                    ["q_table", "observation", "action", "reward", "next_observation", "next_action", "gamma", "terminated", "learning_rate"])
    elif learner == "dql":
        fn = locate(col, "double_q_learning", "_dql_update",
                    ["key", "q_table1", "q_table2", "observation", "action", "reward", "next_observation", "gamma", "learning_rate", "terminated"])
    else:
        fn = locate(col, "dynaq", "q_learning_update", ["obs", "act", "reward", "next_obs", "gamma", "learning_rate", "q_table"])
    if fn is None:
        return
    jQ, jQ2 = jnp.asarray(Q), jnp.asarray(Q2)
    keys = [jax.random.key(seed + i) for i in range(5)]  # the update must not depend on the key: several are used
    Q64, Q264 = Q.astype(np.float64), Q2.astype(np.float64)
    sampled = 0
    found = Findings(col)
    for s, a, s2, a2 in itertools.product(range(nS), range(nA), range(nS), range(nA)):
        if learner == "ql" and a2 not in argmaxes(Q[s2]):
            continue  # train_q_learning only ever supplies a greedy successor action (every tied one is tried)
        if learner in ("dql", "dyna") and a2 != 0:
            continue  # no next-action argument
        for r, term, g, lr in itertools.product(al["rs"], al["terms"], al["gammas"], al["lrs"]):
            if learner == "dyna" and term is not False:
                continue  # no termination argument
            mask = 1.0 - float(term)
            alts = {}
            if learner == "ql":
                cands = [td(Q64, s, a, r, g, mask, Q64[s2].max(), lr)]
                alts[K_TERMINAL] = [td(Q64, s, a, r, g, 1.0, Q64[s2].max(), lr)]
                dropped = td(Q64, s, a, r, g, 1.0, Q64[s2].max(), lr)
            elif learner == "sarsa":
                cands = [td(Q64, s, a, r, g, mask, Q64[s2, a2], lr)]
                alts[K_TERMINAL] = [td(Q64, s, a, r, g, 1.0, Q64[s2, a2], lr)]
                dropped = alts[K_TERMINAL][0]
                if not close(cands[0], td(Q64, s, a, r, g, mask, Q64[s2].max(), lr)):
                    col.outcome("sarsa_cases_where_supplied_next_action_differs_from_greedy_value")
            elif learner == "dql":
                cands = [td(Q64, s, a, r, g, mask, Q264[s2, b], lr) for b in argmaxes(Q[s2])]
                alts[K_CURSTATE] = [td(Q64, s, a, r, g, mask, Q264[s2, b], lr) for b in argmaxes(Q[s])]
                alts[K_TERMINAL] = [td(Q64, s, a, r, g, 1.0, Q264[s2, b], lr) for b in argmaxes(Q[s2])]
                dropped = alts[K_TERMINAL][0]
                if not any(close(x, c) for x in alts[K_CURSTATE] for c in cands):
                    col.outcome("dql_cases_where_greedy_at_current_state_gives_another_value")
                if not close(cands[0], td(Q64, s, a, r, g, mask, Q64[s2].max(), lr)):
                    col.outcome("dql_cases_where_other_table_value_differs_from_own_max")
            else:
                cands = [td(Q64, s, a, r, g, 1.0, Q64[s2].max(), lr)]
                dropped = cands[0]
            if term and not close(dropped, cands[0]):
                col.outcome(f"{learner}_cases_where_termination_mask_matters")
            case = dict(learner=learner, table=Q.tolist(), s=s, a=a, s2=s2, a2=a2, r=r, terminated=term, gamma=g, lr=lr)
            try:
                if learner in ("ql", "sarsa"):
                    out = fn(q_table=jQ, observation=s, action=a, reward=r, next_observation=s2, next_action=a2,
                             gamma=g, terminated=term, learning_rate=lr)
                elif learner == "dql":
                    out = fn(key=keys[(s + 2 * s2 + a + int(lr * 10)) % 5], q_table1=jQ, q_table2=jQ2, observation=s, action=a, reward=r,
                             next_observation=s2, gamma=g, learning_rate=lr, terminated=term)
                else:
                    out = fn(obs=s, act=a, reward=r, next_obs=s2, gamma=g, learning_rate=lr, q_table=jQ)
                out = np.asarray(out)
            except Exception as e:  # the update is defined for every input of the alphabet
                col.tick(1)
                col.violation(SIG.format(entry, K_RAISED), dict(case=case, error=repr(e)[:300]))
                continue
            nontrivial = not close(cands[0], float(Q64[s, a]))
            col.tick(1, (learner, item["table"], s, a, s2, a2, r, repr(term), g, lr) if nontrivial else None)
            if s == s2:
                col.outcome("self_loop_cases")
            kind = judge_entry(Q, out, s, a, cands, alts)
            if kind is not None:
                if learner == "dql":
                    case["table2"] = Q2.tolist()
                found.add(entry, kind, dict(case=case, expected_entry=cands, got_entry=float(out[s, a]) if out.shape == Q.shape else None,
                                                            changed=_entries_changed(Q, out) if out.shape == Q.shape and out.dtype == Q.dtype else None))
            elif sampled < 2 and nontrivial:
                sampled += 1
                col.sample(dict(case=case, expected_entry=cands[0], got_entry=float(out[s, a])))
    found.flush()


# -- Monte-Carlo update ------------------------------------------------------------------------

NV_ALPH = [
    [[0, 0], [0, 0]],
    [[0, 1], [2, 0]],
    [[3, 1], [1, 5]],
]


def mc_reference(q0, n0, obs, acts, rews, gamma):
    """Every-visit running mean, processed return by return from the end of the episode."""
    q = q0.astype(np.float64).copy()
    n = n0.astype(np.float64).copy()
    G = 0.0
    for i in reversed(range(len(obs))):
        G = rews[i] + gamma * G
        n[obs[i], acts[i]] += 1
        q[obs[i], acts[i]] += (G - q[obs[i], acts[i]]) / n[obs[i], acts[i]]
    return q, n


def judge_mc(q0, n0, q1, n1, qref, nref, visited):
    """Failure kind or None.  Unvisited entries bytes-equal, visited entries close to the reference."""
    if q1.shape != q0.shape or n1.shape != n0.shape:
        return K_SHAPE
    for tab0, tab1 in ((q0, q1), (n0, n1)):
        if any(e not in visited for e in _entries_changed(np.asarray(tab0, dtype=np.float32), np.asarray(tab1, dtype=np.float32))):
            return K_OTHER
    for e in visited:
        if not close(float(n1[e]), float(nref[e])):
            return K_MC_COUNT
    for e in visited:
        if not close(float(q1[e]), float(qref[e])):
            return K_MC_MEAN
    return None


def work_single_mc(item, col):
    fn = locate(col, "monte_carlo", "update", ["q_table", "n_visits", "rewards", "observations", "actions", "gamma"])
    if fn is None:
        return
    seed, L = item["seed"], item["L"]
    gammas = [0.0, 0.5, 1.0] if item["tier"] == "quick" else [0.0, 0.5, 0.9, 1.0]
    nvs = NV_ALPH[:2] if item["tier"] == "quick" else NV_ALPH
    tabs = [0, 2] if item["tier"] == "quick" else [0, 1, 2, 4]
    sampled = 0
    for ti in tabs:
        Q = table(ti, seed)[:2].copy()
        for nv, g, rpat in itertools.product(nvs, gammas, (0, 1)):
            N = np.asarray(nv, dtype=np.float32)
            rews = (np.arange(1, L + 1, dtype=np.float32) + np.float32(0.25 * (seed % 4))) if rpat == 0 else np.asarray(
                [(-1.0) ** i * (i + 2) for i in range(L)], dtype=np.float32)
            for obs in itertools.product(range(2), repeat=L):
                for acts in itertools.product(range(2), repeat=L):
                    case = dict(q_table=Q.tolist(), n_visits=N.tolist(), rewards=rews.tolist(), observations=list(obs), actions=list(acts), gamma=g)
                    try:
                        res = fn(q_table=jnp.asarray(Q), n_visits=jnp.asarray(N), rewards=jnp.asarray(rews),
                                 observations=jnp.asarray(obs, dtype=jnp.int32), actions=jnp.asarray(acts, dtype=jnp.int32), gamma=g)
                        q1, n1 = np.asarray(res[0]), np.asarray(res[1])
                    except Exception as e:
                        col.tick(1)
                        col.violation(SIG.format(ENTRY["mc"], K_RAISED), dict(case=case, error=repr(e)[:300]))
                        continue
                    qref, nref = mc_reference(Q, N, obs, acts, rews.astype(np.float64), g)
                    visited = set(zip(obs, acts))
                    revisit = len(visited) < L
                    col.tick(1, ("mc", ti, tuple(nv[0] + nv[1]), g, rpat, obs, acts) if revisit or N.any() else None)
                    if revisit:
                        col.outcome("mc_update_episodes_with_a_revisited_entry")
                    if N.any():
                        col.outcome("mc_update_cases_continuing_from_prior_visit_counts")
                    kind = judge_mc(Q, N, q1, n1, qref, nref, visited)
                    if kind:
                        col.violation(SIG.format(ENTRY["mc"], kind), dict(case=case, expected_q=qref, got_q=q1, expected_n=nref, got_n=n1))
                    elif sampled < 1 and revisit:
                        sampled += 1
                        col.sample(dict(case=case, expected_q=qref, got_q=q1))


# -- Dyna-Q model: counter_update / model_update ----------------------------------------------


class Empirical:
    """Reference model: successor counts and reward lists of every observed (s, a, s')."""

    def __init__(self):
        self.rews = collections.defaultdict(lambda: collections.defaultdict(list))
        self.term = collections.defaultdict(bool)
        self.stale = {}  # (s,a,s') -> count/total at the time s' was last observed (diagnosis only)

    def add(self, s, a, r, s2, term=False):
        self.rews[(s, a)][s2].append(float(r))
        self.term[(s, a, s2)] |= bool(term)
        tot = sum(len(v) for v in self.rews[(s, a)].values())
        self.stale[(s, a, s2)] = len(self.rews[(s, a)][s2]) / tot

    def freq(self, s, a, n_states):
        tot = sum(len(v) for v in self.rews[(s, a)].values())
        return np.asarray([len(self.rews[(s, a)].get(j, ())) / tot for j in range(n_states)])

    def distinct_successors(self):
        return max((len(v) for v in self.rews.values()), default=0)


def judge_model(emp, trans, rew, n_states):
    """(kind, detail) or (None, None): model rows of all observed (s,a) == empirical frequencies / mean rewards."""
    trans = np.asarray(trans, dtype=np.float64)
    rew = np.asarray(rew, dtype=np.float64)
    for (s, a), succ in sorted(emp.rews.items()):
        f = emp.freq(s, a, n_states)
        if not np.all(np.abs(trans[s, a] - f) <= 1e-6):
            stale = np.asarray([emp.stale.get((s, a, j), 0.0) for j in range(n_states)])
            kind = K_STALE if np.all(np.abs(trans[s, a] - stale) <= 1e-6) else K_FREQ
            return kind, dict(s=s, a=a, model_row=trans[s, a], empirical_frequencies=f, successors_observed={j: len(v) for j, v in succ.items()})
        for j, v in sorted(succ.items()):
            if not close(rew[s, a, j], float(np.mean(v))):
                return K_MREW, dict(s=s, a=a, successor=j, model_reward=rew[s, a, j], rewards_observed=v)
    return None, None


def work_single_model(item, col):
    cu = locate(col, "dynaq", "counter_update", ["counter", "obs", "act", "reward", "next_obs"])
    mu = locate(col, "dynaq", "model_update", ["model", "counter", "obs", "act", "next_obs"])
    Counter = locate(col, "dynaq", "Counter", ["transition_counter", "reward_history"])
    Model = locate(col, "dynaq", "ForwardModel", ["transition", "reward"])
    if None in (cu, mu, Counter, Model):
        return
    L, seed = item["L"], item["seed"]
    nS, nA = 2, 2
    pairs = [(0, 0), (1, 1)]  # two interleaved (s,a) pairs, each with stochastic successors {0,1}
    off = 0.25 * (seed % 4)
    sampled = 0
    for seq in itertools.product(range(4), repeat=L):
        counter = Counter(transition_counter=[[[0] * nS for _ in range(nA)] for _ in range(nS)],
                          reward_history=[[[[] for _ in range(nS)] for _ in range(nA)] for _ in range(nS)])
        model = Model(transition=jnp.zeros((nS, nA, nS)), reward=jnp.zeros((nS, nA, nS)))
        emp = Empirical()
        hist = []
        try:
            for i, sym in enumerate(seq):
                (s, a), s2 = pairs[sym // 2], sym % 2
                r = float(i + 1) + off
                counter = cu(counter=counter, obs=s, act=a, reward=r, next_obs=s2)
                model = mu(model=model, counter=counter, obs=s, act=a, next_obs=s2)
                emp.add(s, a, r, s2)
                hist.append([s, a, r, s2])
            trans, rew = np.asarray(model.transition), np.asarray(model.reward)
        except Exception as e:
            col.tick(1)
            col.violation(SIG.format(ENTRY["dyna"], K_RAISED), dict(transitions=hist, error=repr(e)[:300]))
            continue
        stochastic = emp.distinct_successors() >= 2
        col.tick(1, ("model", seq) if stochastic else None)
        if stochastic:
            col.outcome("model_sequences_with_two_distinct_successors_of_one_pair")
        kind, detail = judge_model(emp, trans, rew, nS)
        if kind:
            detail["transitions_s_a_r_s2"] = hist
            col.violation(SIG.format(ENTRY["dyna"], kind), detail)
        elif sampled < 1 and stochastic:
            sampled += 1
            col.sample(dict(transitions_s_a_r_s2=hist, model_transition=trans, model_reward=rew))


# -- Dyna-Q planning --------------------------------------------------------------------------


def planning_candidates(starts, buffer, emp, k, gamma, lr, shape):
    """All tables reachable by k replays: any buffered (s,a), any successor of positive empirical frequency,
    that successor's mean reward, greedy-successor target (termination factor optional where one was seen).
    starts / result: {(bytes of float64 table, frozenset of touched entries)}."""
    frontier = set(starts)
    for _ in range(k):
        nxt = set()
        for qb, touched in frontier:
            q = np.frombuffer(qb, dtype=np.float64).reshape(shape)
            for so, ao in sorted(set(buffer)):
                for sp, rs in sorted(emp.rews[(so, ao)].items()):
                    for f in ((1.0, 0.0) if emp.term[(so, ao, sp)] else (1.0,)):
                        q2 = q.copy()
                        q2[so, ao] = td(q, so, ao, float(np.mean(rs)), gamma, f, q[sp].max(), lr)
                        nxt.add((q2.tobytes(), touched | {(so, ao)}))
        frontier = nxt
    return frontier


def match_candidates(prev, new, cands, shape):
    """True if `new` equals some candidate: touched entries close, all other entries bytes-equal to prev."""
    if new.shape != prev.shape or new.dtype != prev.dtype:
        return False
    ch = set(_entries_changed(prev, new))
    for qb, touched in cands:
        if not ch <= touched:
            continue
        q = np.frombuffer(qb, dtype=np.float64).reshape(shape)
        if all(close(float(new[e]), float(q[e])) for e in touched):
            return True
    return False


def work_single_planning(item, col):
    fn = locate(col, "dynaq", "planning", ["model_transition", "model_reward", "obs_buffer", "act_buffer", "n_planning_steps", "key", "gamma", "learning_rate", "q_table"])
    if fn is None:
        return
    seed = item["seed"]
    Q = table(item["table"], seed)
    nS, nA = Q.shape
    # models: every (s,a) has either one successor (deterministic) or two with unequal frequency
    models = []
    for det in (True, False):
        emp = Empirical()
        for s in range(nS):
            for a in range(nA):
                s2 = (s + a + 1) % nS
                emp.add(s, a, 1.0 + s - 2 * a, s2)
                if not det:
                    emp.add(s, a, 3.0 - s + a, s2)
                    emp.add(s, a, -2.0 + a, (s2 + 1) % nS)
        T = np.zeros((nS, nA, nS), dtype=np.float32)
        R = np.zeros((nS, nA, nS), dtype=np.float32)
        for (s, a), succ in emp.rews.items():
            T[s, a] = emp.freq(s, a, nS)
            for j, v in succ.items():
                R[s, a, j] = np.mean(v)
        models.append((emp, T, R))
    buffers = [[(0, 0)], [(2, 1)], [(0, 1), (1, 0)], [(1, 1), (1, 1), (2, 0)]]
    for (emp, T, R), buf, k, kseed, g, lr in itertools.product(models, buffers, (0, 1, 2), (0, 1), (0.5, 1.0), (0.5, 1.0)):
        case = dict(q_table=Q.tolist(), buffer=buf, n_planning_steps=k, key=kseed + seed, gamma=g, lr=lr, model_transition=T.tolist(), model_reward=R.tolist())
        try:
            out = np.asarray(fn(model_transition=jnp.asarray(T), model_reward=jnp.asarray(R),
                                obs_buffer=jnp.asarray([b[0] for b in buf], dtype=int), act_buffer=jnp.asarray([b[1] for b in buf], dtype=int),
                                n_planning_steps=k, key=jax.random.key(kseed + seed), gamma=g, learning_rate=lr, q_table=jnp.asarray(Q)))
        except Exception as e:
            col.tick(1)
            col.violation(SIG.format(ENTRY["dyna"], K_RAISED), dict(case=case, error=repr(e)[:300]))
            continue
        start = {(Q.astype(np.float64).tobytes(), frozenset())}
        cands = planning_candidates(start, buf, emp, k, g, lr, Q.shape)
        changed = _entries_changed(Q, out) if out.shape == Q.shape and out.dtype == Q.dtype else None
        col.tick(1, ("planning", item["table"], len(emp.stale), tuple(buf), k, kseed, g, lr) if changed else None)
        if k == 0:
            col.outcome("planning_calls_with_zero_steps")
        if not match_candidates(Q, out, cands, Q.shape):
            allowed = set(buf)
            kind = K_SHAPE if changed is None else (K_OTHER if any(e not in allowed for e in changed) else K_REPLAY)
            col.violation(SIG.format(ENTRY["dyna"], kind), dict(case=case, got=out, changed=changed, n_candidates=len(cands)))


# =============================================================================================
#  histories (E2, prefix differencing over the answer tree)
# =============================================================================================

SYMS = [s + e for s in "01" for e in "cTU"]  # successor state, episode answer


class ChainEnv(gym.Env):
    """Discrete(3) x Discrete(2); reset -> state 2; step t answers seq[t] = (successor in {0,1}, c/T/U);
    reward of global step t (1-based) is t + r_off, so no two visits share a reward."""

    def __init__(self, seq, r_off=0.0):
        self.observation_space = gym.spaces.Discrete(3)
        self.action_space = gym.spaces.Discrete(2)
        self.seq, self.r_off = list(seq), r_off
        self.t, self.done, self.log = 0, True, []

    def reset(self, seed=None, options=None):
        self.done = False
        self.log.append(("reset", 2))
        return 2, {}

    def step(self, a):
        if self.done:
            raise StepAfterEnd("step() after episode end without reset()")
        if self.t >= len(self.seq):
            raise HorizonExceeded(f"more than {len(self.seq)} environment steps")
        sym = self.seq[self.t]
        self.t += 1
        o, term, trunc = int(sym[0]), sym[1] == "T", sym[1] == "U"
        self.done = term or trunc
        r = float(self.t) + self.r_off
        self.log.append(("step", int(a), o, r, term, trunc))
        return o, r, term, trunc, {"episode": {"r": 0.0}}

    def transitions(self):
        out, cur = [], None
        for e in self.log:
            if e[0] == "reset":
                cur = e[1]
            else:
                out.append((cur, e[1], e[3], e[2], e[4], e[5]))
                cur = e[2]
        return out


def hist_configs(tier, seed):
    """Learner configurations of the history layer (everything here is a harness choice).
    T = horizon, maxdev = bound on episode ends per history (None: full product).  quick: T=5, maxdev=2 everywhere.
    thorough: full product at T=6 for the base Q-learning / SARSA / double-Q / Monte-Carlo configurations, full
    product at T=5 for the other cheap ones and two Dyna-Q configurations, T=5 / maxdev=2 for the two Dyna-Q
    configurations whose oracle or run is most expensive (a Dyna-Q step costs 5-8 Q-learning steps)."""
    quick = tier == "quick"
    T6 = 5 if quick else 6
    full = 2 if quick else None
    base = dict(gamma=0.5, lr=0.5, eps=0.5, table=0, seed=1 + seed, T=5, maxdev=full)
    cfgs = []
    for learner in ("ql", "sarsa", "dql"):
        cfgs.append(dict(base, learner=learner, cfg=f"{learner}-g.5-lr.5", T=T6))
    cfgs.append(dict(base, learner="dql", seed=8 + seed, table=2, cfg="dql-g.5-lr.5-seedB"))  # other table-choice pattern
    cfgs.append(dict(base, learner="mc", nv=None, cfg="mc-g.5-fresh", T=T6))
    cfgs.append(dict(base, learner="mc", nv=[[0, 1], [2, 0], [1, 3]], table=2, cfg="mc-g.5-continued"))
    cfgs.append(dict(base, learner="dyna", k=0, buf=1000, cfg="dyna-k0"))
    cfgs.append(dict(base, learner="dyna", k=2, buf=1, cfg="dyna-k2-buf1"))
    cfgs.append(dict(base, learner="dyna", k=1, buf=1000, table=2, cfg="dyna-k1-buf1000", maxdev=2))
    if not quick:
        alt = dict(base, gamma=1.0, lr=1.0, eps=1.0, table=2)
        alt2 = dict(base, gamma=0.9, lr=0.1, eps=0.0, table=4)
        for learner in ("ql", "sarsa", "dql"):
            cfgs.append(dict(alt, learner=learner, cfg=f"{learner}-g1-lr1-eps1"))
            cfgs.append(dict(alt2, learner=learner, cfg=f"{learner}-g.9-lr.1-eps0"))
        cfgs.append(dict(alt, learner="mc", nv=None, cfg="mc-g1-eps1"))
        cfgs.append(dict(alt2, learner="dyna", k=1, buf=1, cfg="dyna-k1-buf1-g.9-lr.1", maxdev=2))
    return cfgs


def run_history(cfg, seq, col):
    """One run of the public train_* with total_timesteps=len(seq). -> (tables dict, env, extras)"""
    env = ChainEnv(seq, r_off=0.25 * (cfg["seed"] % 4))
    Q = table(cfg["table"], cfg["seed"] - 1, 0.25)
    n = len(seq)
    L = cfg["learner"]
    extras = {}
    if L == "ql":
        from rl_blox.algorithm.q_learning import train_q_learning

        q = train_q_learning(env, jnp.asarray(Q), learning_rate=cfg["lr"], epsilon=cfg["eps"], gamma=cfg["gamma"],
                             total_timesteps=n, seed=cfg["seed"], progress_bar=False)
        tabs = {"q": np.asarray(q)}
    elif L == "sarsa":
        from rl_blox.algorithm.sarsa import train_sarsa

        q = train_sarsa(env, jnp.asarray(Q), learning_rate=cfg["lr"], epsilon=cfg["eps"], gamma=cfg["gamma"],
                        total_timesteps=n, seed=cfg["seed"], progress_bar=False)
        tabs = {"q": np.asarray(q)}
    elif L == "dql":
        from rl_blox.algorithm.double_q_learning import train_double_q_learning

        res = train_double_q_learning(env, jnp.asarray(Q), jnp.asarray(other_table(Q)), learning_rate=cfg["lr"], epsilon=cfg["eps"],
                                      gamma=cfg["gamma"], total_timesteps=n, seed=cfg["seed"], progress_bar=False)
        tabs = {"q1": np.asarray(res[0]), "q2": np.asarray(res[1])}
    elif L == "mc":
        from rl_blox.algorithm.monte_carlo import train_monte_carlo

        nv = None if cfg["nv"] is None else jnp.asarray(np.asarray(cfg["nv"], dtype=np.float32))
        res = train_monte_carlo(env, jnp.asarray(Q), n, n_visits=nv, epsilon=cfg["eps"], gamma=cfg["gamma"], seed=cfg["seed"], progress_bar=False)
        tabs = {"q": np.asarray(res[0]), "n": np.asarray(res[1])}
    else:
        from rl_blox.algorithm import dynaq

        calls = []
        orig = getattr(dynaq, "planning", None)
        wrapped = False
        if orig is not None:
            try:
                sig = inspect.signature(orig)
                wrapped = {"model_transition", "model_reward"} <= set(sig.parameters)
            except (TypeError, ValueError):
                wrapped = False
        if wrapped:
            def rec(*a, **kw):
                b = sig.bind(*a, **kw)
                calls.append((np.asarray(b.arguments["model_transition"]), np.asarray(b.arguments["model_reward"]),
                              np.asarray(b.arguments["q_table"]) if "q_table" in b.arguments else None))
                return orig(*a, **kw)

            dynaq.planning = rec
        try:
            q = dynaq.train_dynaq(env, jnp.asarray(Q), gamma=cfg["gamma"], learning_rate=cfg["lr"], epsilon=cfg["eps"],
                                  n_planning_steps=cfg["k"], buffer_size=cfg["buf"], total_timesteps=n, seed=cfg["seed"], progress_bar=False)
        finally:
            if wrapped:
                dynaq.planning = orig
        tabs = {"q": np.asarray(q)}
        extras["model_calls"] = calls if wrapped else None
    return tabs, env, extras


def initial_tables(cfg):
    Q = table(cfg["table"], cfg["seed"] - 1, 0.25)
    L = cfg["learner"]
    if L == "dql":
        return {"q1": Q, "q2": other_table(Q)}
    if L == "mc":
        return {"q": Q, "n": np.zeros_like(Q) if cfg["nv"] is None else np.asarray(cfg["nv"], dtype=np.float32)}
    return {"q": Q}


def judge_step(cfg, seq, prev, new, trans, extras, col):
    """Oracle for the last step of `seq`. Returns (kind|None, detail, nontrivial)."""
    L = cfg["learner"]
    g, lr = cfg["gamma"], cfg["lr"]
    s, a, r, s2, term, trunc = trans[-1]
    mask = 0.0 if term else 1.0
    emask = 0.0 if (term or trunc) else 1.0
    if L in ("ql", "sarsa"):
        p = prev["q"]
        p64 = p.astype(np.float64)
        if L == "ql":
            vs = [p64[s2].max()]
        else:
            vs = sorted(set(p64[s2].tolist()))
            if len(vs) > 1 and not term:
                col.outcome("sarsa_steps_where_the_next_action_matters")
        cands = [td(p64, s, a, r, g, mask, v, lr) for v in vs]
        alts = {K_TERMINAL: [td(p64, s, a, r, g, 1.0, v, lr) for v in vs], K_TRUNC: [td(p64, s, a, r, g, emask, v, lr) for v in vs]}
        if term and not any(close(x, c) for x in alts[K_TERMINAL] for c in cands):
            col.outcome(f"{L}_steps_where_termination_mask_matters")
        if trunc and not term and not any(close(x, c) for x in alts[K_TRUNC] for c in cands):
            col.outcome(f"{L}_steps_where_truncation_still_bootstraps")
        kind = judge_entry(p, new["q"], s, a, cands, alts)
        nontriv = not all(close(c, float(p64[s, a])) for c in cands)
        return kind, dict(expected_entry=cands, got_entry=float(new["q"][s, a]) if new["q"].shape == p.shape else None), nontriv
    if L == "dql":
        c1 = _entries_changed(prev["q1"], new["q1"]) if new["q1"].shape == prev["q1"].shape else [None]
        c2 = _entries_changed(prev["q2"], new["q2"]) if new["q2"].shape == prev["q2"].shape else [None]
        if c1 and c2:
            return K_BOTH, dict(changed_table1=c1, changed_table2=c2), True
        sides = [("q1", "q2")] if c1 else [("q2", "q1")] if c2 else [("q1", "q2"), ("q2", "q1")]
        res = []
        for u, o in sides:
            pu, po = prev[u].astype(np.float64), prev[o].astype(np.float64)
            cands = [td(pu, s, a, r, g, mask, po[s2, b], lr) for b in argmaxes(prev[u][s2])]
            alts = {
                K_CURSTATE: [td(pu, s, a, r, g, mask, po[s2, b], lr) for b in argmaxes(prev[u][s])],
                K_TERMINAL: [td(pu, s, a, r, g, 1.0, po[s2, b], lr) for b in argmaxes(prev[u][s2])],
                K_TRUNC: [td(pu, s, a, r, g, emask, po[s2, b], lr) for b in argmaxes(prev[u][s2])],
            }
            kind = judge_entry(prev[u], new[u], s, a, cands, alts)
            nontriv = not all(close(c, float(pu[s, a])) for c in cands)
            res.append((kind, dict(updated_table=u, expected_entry=cands, got_entry=float(new[u][s, a])), nontriv, cands, alts))
        ok = [x for x in res if x[0] is None]
        pick = ok[0] if ok else res[0]
        if not ok and len(res) == 2 and all(isinstance(x[0], list) for x in res):
            # neither table moved: a hypothesis counts if it explains that for either table
            pick = (sorted(set(res[0][0]) | set(res[1][0])),) + res[0][1:]
        if len(sides) == 1 and not term:
            if not any(close(x, c) for x in pick[4][K_CURSTATE] for c in pick[3]):
                col.outcome("dql_steps_where_greedy_at_current_state_gives_another_value")
        if term and not any(close(x, c) for x in pick[4][K_TERMINAL] for c in pick[3]):
            col.outcome("dql_steps_where_termination_mask_matters")
        if len(sides) == 1:
            col.outcome(f"dql_steps_updating_{sides[0][0]}")
        return pick[0], pick[1], pick[2]
    if L == "mc":
        q0, n0 = initial_tables(cfg)["q"], initial_tables(cfg)["n"]
        ended = term or trunc
        # episodes completed so far
        eps, cur = [], []
        for tr in trans:
            cur.append(tr)
            if tr[4] or tr[5]:
                eps.append(cur)
                cur = []
        qref, nref = q0.astype(np.float64), n0.astype(np.float64)
        for ep in eps:
            qref, nref = mc_reference(qref, nref, [t[0] for t in ep], [t[1] for t in ep], [t[2] for t in ep], g)
        visited = set((t[0], t[1]) for t in eps[-1]) if ended else set()
        kind = judge_mc(prev["q"], prev["n"], new["q"], new["n"], qref, nref, visited)
        if ended:
            col.outcome("mc_steps_ending_an_episode")
            if len(visited) < len(eps[-1]):
                col.outcome("mc_episodes_with_a_revisited_entry")
            if any((t[0], t[1]) in visited for ep in eps[:-1] for t in ep):
                col.outcome("mc_episodes_revisiting_an_entry_of_an_earlier_episode")
            if trunc and not term:
                col.outcome("mc_episodes_ended_by_truncation")
        else:
            col.outcome("mc_steps_inside_an_episode_no_change_allowed")
        return kind, dict(expected_q=qref, got_q=new["q"], expected_n=nref, got_n=new["n"], episode_ended=ended), ended
    # Dyna-Q
    p = prev["q"]
    p64 = p.astype(np.float64)
    emp = Empirical()
    for t in trans:
        emp.add(t[0], t[1], t[2], t[3], t[4])
    starts = set()
    for f in {1.0, mask}:
        q = p64.copy()
        q[s, a] = td(p64, s, a, r, g, f, p64[s2].max(), lr)
        starts.add((q.tobytes(), frozenset({(s, a)})))
    buffer = [(t[0], t[1]) for t in trans][-cfg["buf"]:]
    cands = planning_candidates(starts, buffer, emp, cfg["k"], g, lr, p.shape)
    nontriv = bool(_entries_changed(p, new["q"])) if new["q"].shape == p.shape else True
    if len(emp.rews[(s, a)]) >= 2:
        col.outcome("dyna_steps_at_a_pair_with_two_observed_successors")
    if term:
        col.outcome("dyna_terminal_steps_either_masking_accepted")
    kind, detail = None, {}
    if not match_candidates(p, new["q"], cands, p.shape):
        allowed = set(buffer) | {(s, a)}
        ch = _entries_changed(p, new["q"]) if new["q"].shape == p.shape else None
        if ch is None:
            kind = K_SHAPE
        elif any(e not in allowed for e in ch):
            kind = K_OTHER
        elif cfg["k"] == 0:
            kind = K_AMOUNT
        else:
            # attribution: the table handed to dynaq.planning (when observable) is the result of the real-transition
            # update alone; if that one is already wrong the failure is the direct update, not the replay
            kind = K_REPLAY
            calls = extras.get("model_calls")
            if calls and len(calls) == len(trans) and calls[-1][2] is not None:
                mid = calls[-1][2]
                if not match_candidates(p, mid, starts, p.shape):
                    kind = K_AMOUNT
                    detail = dict(table_after_real_transition_update=mid)
        detail = dict(detail, got=new["q"], changed=ch, n_candidates=len(cands))
    if kind is None and extras.get("model_calls") is not None:
        calls = extras["model_calls"]
        if len(calls) == len(trans):
            mk, md = judge_model(emp, calls[-1][0], calls[-1][1], p.shape[0])
            col.outcome("dyna_model_snapshots_compared")
            if emp.distinct_successors() >= 2:
                col.outcome("dyna_model_snapshots_with_stochastic_successors")
            if mk:
                kind, detail = mk, md
        else:
            col.outcome("dyna_planning_calls!=steps_model_not_compared")
    return kind, detail, nontriv


def work_history(item, col):
    cfg, T, maxdev = item["cfg"], item["T"], item["maxdev"]
    entry = ENTRY[cfg["learner"]]
    prefix = item["prefix"]
    model_unobserved = [False]
    found = Findings(col)  # violations of this item, reported shortest history first

    def run(seq):
        try:
            return run_history(cfg, seq, col)
        except Exception as e:
            col.tick(1)
            found.add(entry, K_RAISED, dict(cfg=cfg["cfg"], answers="".join(seq), error=repr(e)[:300]), (len(seq), "".join(seq)))
            return None

    def check(seq, parent, res):
        """parent/res = (tables, transitions). Judges the last step of seq."""
        tabs, env, extras = res
        trans = env.transitions()
        if len(trans) != len(seq) or [t[1] for t in trans[:-1]] != [t[1] for t in parent[1]]:
            col.outcome("prefix_not_reproduced")
            col.cap(f"{cfg['cfg']}: run of {''.join(seq)} did not reproduce the run of its prefix (step not judged)")
            return
        if cfg["learner"] == "dyna" and extras.get("model_calls") is None:
            model_unobserved[0] = True
        kind, detail, nontriv = judge_step(cfg, seq, parent[0], tabs, trans, extras, col)
        col.tick(1, (cfg["cfg"], "".join(seq)) if nontriv and len(seq) > 1 else None)
        s, a = trans[-1][0], trans[-1][1]
        if any((t[0], t[1]) == (s, a) for t in trans[:-1]):
            col.outcome("steps_revisiting_an_entry")
        if not nontriv:
            col.outcome("steps_with_zero_reference_change")
        if kind is not None:
            detail = dict(detail or {})
            detail.update(cfg=cfg["cfg"], answers="".join(seq), step=len(seq), transition_s_a_r_s2_term_trunc=list(trans[-1]),
                          tables_before=prev_json(parent[0]), params=dict(gamma=cfg["gamma"], lr=cfg["lr"], epsilon=cfg["eps"], seed=cfg["seed"]))
            found.add(entry, kind, detail, (len(seq), "".join(seq)))
        elif nontriv and len(seq) == T:
            col.sample(dict(cfg=cfg["cfg"], answers="".join(seq), transition=list(trans[-1]), before=prev_json(parent[0]), after=prev_json(tabs)))

    def prev_json(tabs):
        return {k: np.asarray(v).tolist() for k, v in tabs.items()}

    # walk down the item's prefix (only the item flagged check_root judges the shared first node)
    parent = (initial_tables(cfg), [])
    for d in range(1, len(prefix) + 1):
        seq = prefix[:d]
        res = run(seq)
        if res is None:
            found.flush()
            return
        if d == len(prefix) or item["check_root"]:
            check(seq, parent, res)
        parent = (res[0], res[1].transitions())

    def dfs(seq, parent):
        if len(seq) >= T:
            return
        dev = sum(1 for x in seq if x[1] != "c")
        for sym in SYMS:
            if maxdev is not None and dev + (sym[1] != "c") > maxdev:
                continue
            s2 = seq + [sym]
            res = run(s2)
            if res is None:
                continue
            check(s2, parent, res)
            dfs(s2, (res[0], res[1].transitions()))

    try:
        dfs(list(prefix), parent)
    finally:
        found.flush()
    if model_unobserved[0]:
        col.outcome("not_located:dynaq.planning(model_transition, model_reward)")
        col.cap("dynaq.planning(model_transition, model_reward) not located: the model inside train_dynaq was not observed")


# =============================================================================================
#  enumeration
# =============================================================================================


def items(tier, seed):
    out = []
    al = single_alphabets(tier)
    for learner in ("ql", "sarsa", "dql", "dyna"):
        for ti in al["tables"]:
            out.append(dict(name=f"single-{learner}-table{ti}", kind="single_td", learner=learner, table=ti, alph=al, seed=seed))
    for L in range(1, (4 if tier == "quick" else 5) + 1):
        out.append(dict(name=f"single-mc-update-L{L}", kind="single_mc", L=L, tier=tier, seed=seed))
    for L in range(1, 6):
        out.append(dict(name=f"single-dyna-model-L{L}", kind="single_model", L=L, seed=seed))
    for ti in ([0, 2] if tier == "quick" else [0, 1, 2, 4]):
        out.append(dict(name=f"single-dyna-planning-table{ti}", kind="single_planning", table=ti, seed=seed))
    hist = []
    for cfg in hist_configs(tier, seed):
        Tc, md = cfg.pop("T"), cfg.pop("maxdev")
        for p1 in SYMS:
            for p2 in SYMS:
                if md is not None and (p1[1] != "c") + (p2[1] != "c") > md:
                    continue
                hist.append(dict(name=f"hist-{cfg['cfg']}-{p1}{p2}", kind="history", cfg=cfg, prefix=[p1, p2], check_root=(p2 == SYMS[0]),
                                 T=Tc, maxdev=md, seed=seed))
    cost = {"dyna": 8, "mc": 3}
    hist.sort(key=lambda it: -cost.get(it["cfg"]["learner"], 1) * 6 ** it["T"] * (1.0 if it["maxdev"] is None else 0.25))
    # long items first
    return hist + out


def work(item, col):
    kind = item["kind"]
    if kind == "single_td":
        work_single_td(item, col)
    elif kind == "single_mc":
        work_single_mc(item, col)
    elif kind == "single_model":
        work_single_model(item, col)
    elif kind == "single_planning":
        work_single_planning(item, col)
    elif kind == "history":
        work_history(item, col)
    else:
        raise ValueError(kind)
