"""C01 - stored experience equals what the environment actually produced (E2)."""

import contextlib
import io
import itertools

import gymnasium as gym
import jax
import jax.numpy as jnp
import numpy as np
from flax import nnx

from vlib import drivers as D
from vlib import senv

PROPERTY = "C01"
LEVEL = "exploration"
USES_JAX = True
CLEAR_EVERY = 6
RULE = (
    "one evaluation = one training-routine (or collector) execution against a scripted environment whose "
    "answers continue/Terminate/trUncate/Both are the explorer's choices, followed by a slot-by-slot "
    "comparison of everything the routine kept for learning (and of every observation the acting network "
    "received) with the ground truth rebuilt from the environment's own log; scripts are enumerated "
    "completely up to the stated deviation bound / as a full product, crossed with buffer capacities "
    "(forced wrap, exact wrap, no wrap) and warm-up lengths; non-trivial = the script crosses at least "
    "one episode boundary before its last step, or the buffer wrapped; distinct = distinct (routine, mode, "
    "capacity, warm-up, script)"
)
ASSUMPTIONS = [
    "horizon T=6 (quick) / 7 (thorough); deviations <=2 (warm-up only: full product in thorough) and <=1 (<=2 thorough) learning-enabled",
    "tiny networks (one hidden layer of 3 units) built by the repo's own constructors",
    "for vector environments the 'environment' is the gymnasium vector environment (its autoreset rows are what it produced)",
    "PPO next_value may decode to the next or the final observation of the same sub-environment and step",
    "tabular learners keep no transitions; their use of (o,a,r,o',terminated) is decided by prefix differencing in C14's history check, which this check re-runs for its own scripts",
]
SIG = "C01|{}|{}"
BUDGET_S = {"quick": 540, "thorough": 6000}

ROUTINES = D.OFF_POLICY


def chunks(lst, n):
    return [lst[i : i + n] for i in range(0, len(lst), n)]


def items(tier, seed):
    q = tier == "quick"
    T = 6 if q else 7
    out = []
    cheap_scripts = senv.scripts(T, "cTU", 2) if q else senv.scripts(T, "cTU") + [s for s in senv.scripts(T, "cTUB", 2) if "B" in s]
    learn_scripts = senv.scripts(T, "cTU", 1) if q else senv.scripts(T, "cTU", 2)
    for name in ROUTINES:
        caps = [4, 6, T + 4] if name == "mrq" else [2, 3, T + 2]
        per = {"pets": 40, "mrq": 60, "td7": 60}.get(name, 200)
        for cap in caps:
            for ch in chunks(cheap_scripts, per):
                out.append(dict(name=f"cheap-{name}-cap{cap}-{ch[0]}", kind="off", routine=name, mode="cheap", cap=cap, warm=10**6, scripts=ch, seed=seed))
        # a step that is terminated AND truncated at once (quick: one deviation; the thorough alphabet has it anyway)
        if q:
            for ch in chunks([sc for sc in senv.scripts(T, "cTUB", 1) if "B" in sc], per):
                out.append(dict(name=f"cheap-{name}-both-{ch[0]}", kind="off", routine=name, mode="cheap", cap=caps[-1], warm=10**6, scripts=ch, seed=seed))
        # reward number type: the first reward is a Python int, later rewards are fractional floats
        for ch in chunks(senv.scripts(T, "cTU", 1), per):
            out.append(dict(name=f"cheap-{name}-intfirst-{ch[0]}", kind="off", routine=name, mode="cheap", cap=caps[-1], warm=10**6, scripts=ch, seed=seed, reward_kind="intfirst"))
        if name == "mrq":
            combos = [(4, T + 4), (5, 6)]
        elif name == "dqn":
            combos = [(0, 3), (0, T + 2)]
        elif name == "pets":
            combos = [(2, 3), (3, T + 2)]  # the first model fit needs a non-empty buffer
        else:
            combos = [(0, 3), (2, T + 2)] if q else [(0, 3), (2, T + 2), (0, T + 2), (2, 2)]
        per = {"pets": 2, "mrq": 2, "td7": 3}.get(name, 5)
        for warm, cap in combos:
            for ch in chunks(learn_scripts, per):
                out.append(dict(name=f"learn-{name}-w{warm}-cap{cap}-{ch[0]}", kind="off", routine=name, mode="learn", cap=cap, warm=warm, scripts=ch, seed=seed))
    # the multi-task wrapper handed to a single-task routine, as the multi-task schedulers do (select_task, then train)
    for name in ("ddpg", "td3_lap", "sac"):
        out.append(dict(name=f"mt-wrapper-{name}", kind="mt-wrapper", routine=name, seed=seed, caps=[3, 16] if q else [2, 3, 5, 16]))
    # train_a2c end to end, budgets that are and are not a multiple of one rollout: every row of every rollout buffer handed to
    # the learner is a step the sub-environments produced
    vs4 = senv.scripts(4, "cTU", 1)
    a2c_pairs = [[a, b] for a in vs4[:: 2 if q else 1] for b in vs4[:: 3 if q else 1]]
    for ch in chunks(a2c_pairs, 10):
        out.append(dict(name=f"a2c-loop-{ch[0][0]}-{ch[0][1]}", kind="a2c-loop", pairs=ch, seed=seed))
    # training continued on a replay buffer that went through pickle (a checkpointed run that is resumed)
    for name in ("ddpg", "td3_lap", "nature_dqn"):
        out.append(dict(name=f"resume-pickled-{name}", kind="resume-pickled", routine=name, seed=seed, caps=[3, 4, 16] if q else [2, 3, 4, 5, 16]))
    # MR.Q creating its replay buffer itself (non-default horizon pairs): every learning window it could draw
    from vlib import mrq_windows

    out += mrq_windows.item_specs(tier, seed)
    # on-policy collectors
    ep_scripts = [s + "T" for s in (senv.scripts(T - 1, "cTU", 2) if q else senv.scripts(T - 1, "cTU"))]
    for disc in (False, True):
        for tae in (False, True):
            for ch in chunks(ep_scripts, 60):
                out.append(dict(name=f"reinforce-collector-d{int(disc)}-tae{int(tae)}-{ch[0]}", kind="reinforce", discrete=disc, tae=tae, scripts=ch, seed=seed))
    for algo in ("train_reinforce", "train_ac"):
        out.append(dict(name=f"{algo}-loop", kind="reinforce-loop", algo=algo, scripts=[s + "T" for s in senv.scripts(T - 1, "cTU", 1)], seed=seed))
    Tv = 4 if q else 5
    pair_scripts = [(a, b) for a in senv.scripts(Tv, "cTU", 1 if q else 2) for b in senv.scripts(Tv, "cTU", 1 if q else 2)]
    for ch in chunks(pair_scripts, 30):
        out.append(dict(name=f"a2c-collector-{ch[0][0]}-{ch[0][1]}", kind="a2c", T=Tv, pairs=[list(p) for p in ch], seed=seed))
    for logger in (False, True):
        for ch in chunks(pair_scripts, 30):
            out.append(dict(name=f"ppo-collector-log{int(logger)}-{ch[0][0]}-{ch[0][1]}", kind="ppo", T=Tv, logger=logger, pairs=[list(p) for p in ch], seed=seed))
    # tabular learners: prefix differencing (shared with C14)
    from checks import c14

    short = {"q_learning": "ql", "sarsa": "sarsa", "double_q_learning": "dql", "monte_carlo": "mc", "dynaq": "dyna"}
    for algo in ("q_learning", "sarsa", "double_q_learning", "monte_carlo", "dynaq"):
        names = [c["cfg"] for c in c14.hist_configs(tier, seed) if c["learner"] == short[algo]]
        # every Dyna-Q configuration (planning from the buffer of visited pairs is part of what is kept for learning),
        # the first configuration of the others
        for cname in names if algo == "dynaq" else names[:1]:
            out.append(dict(name=f"tabular-{algo}-{cname}", kind="tabular", algo=algo, config=cname, T=T, tier=tier, seed=seed))
        out.append(dict(name=f"tabular-acting-{algo}", kind="tabular", algo=algo, config=None, T=T, tier=tier, seed=seed))
        # many short episodes, with and without a logger: read the table back (lr 1, gamma 0: Q[o_t, a_t] = r_t)
        Tl = 12 if q else 14
        long_scripts = ["T" * Tl, "U" * Tl, "cT" * (Tl // 2), "cU" * (Tl // 2), "TU" * (Tl // 2), ("ccT" * Tl)[:Tl], ("TcU" * Tl)[:Tl]]
        if not q:
            long_scripts += [sc for sc in senv.scripts(Tl, "cT", 2)][:40]
        out.append(dict(name=f"tabular-readback-{algo}", kind="tabular-readback", algo=algo, scripts=long_scripts, seed=seed))
    return out


# -- off-policy routines ---------------------------------------------------------------------


def reference_slots(trans, cap, subtraj):
    """Which transition each slot must hold: plain ring, or ring with one appended successor row
    after every episode end (subtrajectory buffers). Returns (slots, length); slot = ('step', i) |
    ('succ', i) | None."""
    slots = [None] * cap
    pos = 0
    writes = 0
    for i, t in enumerate(trans):
        slots[pos] = ("step", i)
        pos = (pos + 1) % cap
        writes += 1
        if subtraj and (t[4] or t[5]):
            slots[pos] = ("succ", i)
            pos = (pos + 1) % cap
            writes += 1
    return slots, min(writes, cap)


def compare_buffer(run, col, item, script):
    name = run.name
    entry = "train_" + name
    trans = run.env.transitions()
    rb = run.rb
    sub = name in D.SUBTRAJ
    cap = rb.buffer_size
    slots, length = reference_slots(trans, cap, sub)
    det = dict(routine=name, script=script, capacity=cap, warm_up=item["warm"], mode=item["mode"])
    if len(rb) != length:
        col.violation(SIG.format(entry, "buffer-does-not-hold-the-last-min(n,N)-transitions"), dict(det, len=len(rb), expected=length))
        return
    resets_after = set()
    for i, t in enumerate(trans[:-1]):
        if t[4] or t[5]:
            resets_after.add(i + 1)
    for s in range(length):
        ref = slots[s]
        if ref is None or ref[0] == "succ":
            continue
        i = ref[1]
        o, a, r, o2, term, trunc = trans[i]
        got = {k: np.asarray(v[s]) for k, v in rb.buffer.items()}
        if not np.array_equal(got["observation"], np.asarray(o, dtype=np.float64)):
            kind = "stored-observation!=last-env-observation"
            if i in resets_after and np.array_equal(got["observation"], np.asarray(trans[i - 1][3], dtype=np.float64)):
                kind = "first-transition-of-episode-starts-from-previous-final-observation"
            col.violation(SIG.format(entry, kind), dict(det, transition=i, stored=got["observation"], expected=o))
        if not np.array_equal(got["action"].astype(np.float64).reshape(-1), np.asarray(a, dtype=np.float64).reshape(-1)):
            col.violation(SIG.format(entry, "stored-action!=action-passed-to-env"), dict(det, transition=i, stored=got["action"], expected=a))
        if float(got["reward"]) != float(r):
            col.violation(SIG.format(entry, "stored-reward!=that-step's-reward"), dict(det, transition=i, stored=got["reward"], expected=r))
        if not np.array_equal(got["next_observation"], np.asarray(o2, dtype=np.float64)):
            col.violation(SIG.format(entry, "stored-successor!=that-step's-successor"), dict(det, transition=i, stored=got["next_observation"], expected=o2))
        if sub:
            if int(got["terminated"]) != int(term) or int(got["truncated"]) != int(trunc):
                col.violation(SIG.format(entry, "stored-flags!=that-step's-flags"), dict(det, transition=i, stored=[got["terminated"], got["truncated"]], expected=[term, trunc]))
        elif int(got["termination"]) != int(term):
            col.violation(SIG.format(entry, "stored-flags!=that-step's-flags"), dict(det, transition=i, stored=got["termination"], expected=term))
    if len(trans) > cap:
        col.outcome("runs_with_wrapped_buffer")
    if resets_after:
        col.outcome("runs_storing_a_first-transition-after-reset")


def compare_acting(run, col, item, script):
    name = run.name
    entry = "train_" + name
    trans = run.env.transitions()
    calls = run.env.sampler_calls_at_step
    acting_steps = [i for i in range(len(trans)) if calls[i] == (calls[i - 1] if i else 0)]
    rec = [np.asarray(a, dtype=np.float64) for a in run.acting]
    if name == "pets":
        rec2 = []
        for a in rec:
            if not np.any(a):
                continue  # the planner's warm-up call on a zero observation
            if rec2 and np.array_equal(rec2[-1], a):
                continue  # one reward-model call per CEM iteration
            rec2.append(a)
        rec = rec2
    exp = [np.asarray(trans[i][0], dtype=np.float64) for i in acting_steps]
    col.outcome("acting_calls_observed", len(rec))
    det = dict(routine=name, script=script, warm_up=item["warm"], capacity=item["cap"])
    if len(rec) != len(exp):
        col.violation(SIG.format(entry, "acting-network-call-count!=non-random-steps"), dict(det, observed=len(rec), expected=len(exp)))
        return
    for k, (a, e) in enumerate(zip(rec, exp)):
        if not np.array_equal(a, e):
            i = acting_steps[k]
            kind = "acting-observation!=current-observation"
            col.violation(SIG.format(entry, kind), dict(det, step=i, seen=a, current=e))
            break


def off_item(item, col):
    name = item["routine"]
    prebuilt = None
    for script in item["scripts"]:
        T = len(script)
        cfg = dict(buffer_size=item["cap"], env_horizon=T + 3, seed=1 + item["seed"], net_seed=item["seed"])
        if item.get("reward_kind"):
            cfg["reward_kind"] = item["reward_kind"]
        if item["mode"] == "cheap":
            cfg["learning_starts"] = 10**6
            if name in D.DISCRETE:
                cfg["batch_size"] = 100
                if name != "dqn":
                    cfg["learning_starts"] = 0
            if prebuilt is not None:
                cfg["prebuilt"] = prebuilt
        else:
            cfg["learning_starts"] = item["warm"]
            cfg["record_acting"] = True
            cfg["batch_size"] = 2
        run = D.run(name, script, **cfg)
        if item["mode"] == "cheap":
            prebuilt = run.prebuilt
        boundary = any(c in "TUB" for c in script[:-1])
        col.tick(1, (name, item["mode"], item["cap"], item["warm"], script, item.get("reward_kind")) if (boundary or T > item["cap"]) else None)
        if boundary:
            col.outcome("runs_crossing_an_episode_boundary")
        if run.error is not None:
            # budget / episode discipline is C11's business; nothing can be compared here
            col.outcome("runs_aborted_by_env_guard:" + run.error)
            continue
        compare_buffer(run, col, item, script)
        if item["mode"] == "learn":
            compare_acting(run, col, item, script)
    col.sample(dict(routine=name, mode=item["mode"], capacity=item["cap"], warm_up=item["warm"], scripts=item["scripts"][:3]))


# -- REINFORCE / actor-critic ---------------------------------------------------------------


def pg_state(env, discrete, seed):
    from rl_blox.algorithm import reinforce as R

    if discrete:
        return R.create_policy_gradient_discrete_state(env, policy_hidden_nodes=[3], value_network_hidden_nodes=[3], seed=seed)
    return R.create_policy_gradient_continuous_state(env, policy_hidden_nodes=[3], value_network_hidden_nodes=[3], seed=seed)


def check_dataset(col, entry, dataset, trans_by_episode, det):
    eps = dataset.episodes
    if len(eps) != len(trans_by_episode) or any(len(a) != len(b) for a, b in zip(eps, trans_by_episode)):
        col.violation(SIG.format(entry, "episode-records-do-not-match-executed-episodes"), dict(det, got=[len(e) for e in eps], expected=[len(e) for e in trans_by_episode]))
        return
    for i, (ep, tr) in enumerate(zip(eps, trans_by_episode)):
        for k, ((o, a, o2, r), (to, ta, tr_, to2, _, _)) in enumerate(zip(ep, tr)):
            if not np.array_equal(np.asarray(o), to):
                kind = "stored-observation!=last-env-observation"
                col.violation(SIG.format(entry, kind), dict(det, episode=i, k=k, stored=np.asarray(o), expected=to))
            if not np.array_equal(np.asarray(a).reshape(-1), np.asarray(ta).reshape(-1)):
                col.violation(SIG.format(entry, "stored-action!=action-passed-to-env"), dict(det, episode=i, k=k))
            if not np.array_equal(np.asarray(o2), to2):
                col.violation(SIG.format(entry, "stored-successor!=that-step's-successor"), dict(det, episode=i, k=k))
            if float(r) != float(tr_):
                col.violation(SIG.format(entry, "stored-reward!=that-step's-reward"), dict(det, episode=i, k=k))


def check_prepared(col, dataset, trans_by_episode, env, det):
    """The flattened arrays the learners consume (observations, actions, successor observations) must be the
    environment's transitions in order - in particular the successor of an episode's last step is that
    step's own successor, not the next episode's reset observation."""
    entry = "EpisodeDataset.prepare_policy_gradient_dataset"
    try:
        obs, act, nobs, _ret, _disc = dataset.prepare_policy_gradient_dataset(env.action_space, 0.9)
    except Exception as e:  # noqa: BLE001
        col.violation(SIG.format(entry, "raised"), dict(det, error=f"{type(e).__name__}: {str(e)[:120]}"))
        return
    flat = [t for ep in trans_by_episode for t in ep]
    obs, act, nobs = np.asarray(obs), np.asarray(act), np.asarray(nobs)
    col.tick(1)
    if len(obs) != len(flat) or len(nobs) != len(flat) or len(act) != len(flat):
        col.violation(SIG.format(entry, "episode-records-do-not-match-executed-episodes"), dict(det, got=[len(obs), len(act), len(nobs)], expected=len(flat)))
        return
    for i, (o, a, _r, o2, _t, _u) in enumerate(flat):
        if not np.array_equal(obs[i], o):
            col.violation(SIG.format(entry, "stored-observation!=last-env-observation"), dict(det, index=i, stored=obs[i], expected=o))
            break
        if not np.array_equal(np.asarray(act[i]).reshape(-1), np.asarray(a).reshape(-1)):
            col.violation(SIG.format(entry, "stored-action!=action-passed-to-env"), dict(det, index=i))
            break
        if not np.array_equal(nobs[i], o2):
            col.violation(SIG.format(entry, "stored-successor!=that-step's-successor"), dict(det, index=i, stored=nobs[i], expected=o2))
            break


def by_episode(env, start=0):
    out, cur = [], None
    for e in env.log[start:]:
        if e[0] == "reset":
            cur = []
            out.append(cur)
            obs = e[1]
        elif e[0] == "step":
            cur.append((obs, e[1], e[3], e[2], e[4], e[5]))
            obs = e[2]
    return [e for e in out if e]


def reinforce_item(item, col):
    from rl_blox.algorithm import reinforce as R

    for script in item["scripts"]:
        env = senv.ScriptEnv(script, discrete=item["discrete"], horizon=len(script) + 2)
        env.reset(seed=3)
        env.log.clear()
        env.ep = 0
        st = pg_state(env, item["discrete"], item["seed"])
        acting = []
        D.make_recording(st.policy, acting)
        total = 3
        try:
            with contextlib.redirect_stdout(io.StringIO()):
                ds = R.sample_trajectories(env, st.policy, jax.random.key(item["seed"]), None, item["tae"], total)
        except (senv.HorizonExceeded, senv.StepAfterEnd) as e:
            col.outcome("runs_aborted_by_env_guard:" + type(e).__name__)
            col.tick(1)
            continue
        jax.effects_barrier()
        det = dict(script=script, discrete=item["discrete"], train_after_episode=item["tae"], total_steps=total)
        eps = by_episode(env)
        boundary = len(eps) > 1
        col.tick(1, ("reinforce", item["discrete"], item["tae"], script) if boundary else None)
        if boundary:
            col.outcome("runs_crossing_an_episode_boundary")
        check_dataset(col, "reinforce.sample_trajectories", ds, eps, det)
        check_prepared(col, ds, eps, env, det)
        exp = [t[0] for ep in eps for t in ep]
        col.outcome("acting_calls_observed", len(acting))
        if len(acting) != len(exp) or any(not np.array_equal(a, e) for a, e in zip(acting, exp)):
            col.violation(SIG.format("reinforce.sample_trajectories", "acting-observation!=current-observation"), dict(det, seen=acting[:8], expected=exp[:8]))
    col.sample(dict(kind="reinforce.sample_trajectories", scripts=item["scripts"][:3]))


def reinforce_loop_item(item, col):
    from rl_blox.algorithm import actor_critic as AC
    from rl_blox.algorithm import reinforce as R

    mod = R if item["algo"] == "train_reinforce" else AC
    for script in item["scripts"]:
        script = script * 2
        env = senv.ScriptEnv(script, discrete=False, horizon=len(script) + 2)
        st = pg_state(env, False, item["seed"])
        captured = []
        real = mod.sample_trajectories

        def wrap(*a, **k):
            start = len(env.log)
            ds = real(*a, **k)
            captured.append((start, ds))
            return ds

        mod.sample_trajectories = wrap
        try:
            with contextlib.redirect_stdout(io.StringIO()):
                if item["algo"] == "train_reinforce":
                    R.train_reinforce(env, st.policy, st.policy_optimizer, st.value_function, st.value_function_optimizer, seed=1, total_timesteps=7, steps_per_update=3, progress_bar=False)
                else:
                    AC.train_ac(env, st.policy, st.policy_optimizer, st.value_function, st.value_function_optimizer, seed=1, total_timesteps=7, steps_per_update=3, progress_bar=False)
        except (senv.HorizonExceeded, senv.StepAfterEnd) as e:
            col.outcome("runs_aborted_by_env_guard:" + type(e).__name__)
        finally:
            mod.sample_trajectories = real
        ends = [c[0] for c in captured[1:]] + [len(env.log)]
        for (start, ds), end in zip(captured, ends):
            sub = types_env(env, start, end)
            col.tick(1, (item["algo"], script, start))
            check_dataset(col, item["algo"], ds, sub, dict(script=script, algo=item["algo"], log_start=start))
        col.outcome("collection_rounds", len(captured))
    col.sample(dict(kind=item["algo"], scripts=item["scripts"][:3]))


def types_env(env, start, end):
    class _E:
        pass

    e = _E()
    e.log = env.log[start:end]
    return by_episode(e)


# -- A2C / PPO collectors -------------------------------------------------------------------


class LogVec(gym.vector.SyncVectorEnv):
    """SyncVectorEnv that logs, at the vector level, what it was given and what it returned."""

    def reset(self, **kw):
        out = super().reset(**kw)
        self.vlog = getattr(self, "vlog", [])
        self.vlog.append(("reset", np.array(out[0])))
        return out

    def step(self, actions):
        out = super().step(actions)
        info = out[4]
        fin = None
        if "final_obs" in info:
            fin = [None if o is None else np.array(o) for o in info["final_obs"]]
        self.vlog.append(("step", np.array(actions), np.array(out[0]), np.array(out[1]), np.array(out[2]), np.array(out[3]), fin))
        return out


def make_vec(pair, discrete, mode, T):
    fns = [lambda s=s, i=i: _sub(s, discrete, i, T) for i, s in enumerate(pair)]
    return LogVec(fns, autoreset_mode=mode)


def _sub(script, discrete, i, T):
    e = senv.ScriptEnv(script, discrete=discrete, obs_dim=3, horizon=3 * T + 3)
    e.env_id = i
    real = e._obs

    def obs():
        o = real()
        o[2] = i + 1
        return o

    e._obs = obs
    return e


def a2c_item(item, col):
    from rl_blox.algorithm import a2c

    T = item["T"]
    for pair in item["pairs"]:
        envs = make_vec(pair, False, gym.vector.AutoresetMode.NEXT_STEP, T)
        st = pg_state(envs.envs[0], False, item["seed"])
        obs, _ = envs.reset(seed=1)
        acting = []
        with contextlib.redirect_stdout(io.StringIO()):
            rb, last, gs, _ = a2c.collect_trajectories(envs, st.policy, jax.random.key(1), jnp.asarray(obs), T, None, 0)
        steps = [e for e in envs.vlog if e[0] == "step"]
        det = dict(scripts=pair, steps=T)
        boundary = any(c in "TU" for s in pair for c in s[: T - 1])
        col.tick(1, ("a2c", tuple(pair)) if boundary else None)
        if boundary:
            col.outcome("runs_crossing_an_episode_boundary")
        prev = np.asarray(obs)
        for t, e in enumerate(steps):
            row = {k: np.asarray(v[t]) for k, v in rb.buffer.items()}
            for env_i in range(2):
                if not np.array_equal(row["obs"][env_i], prev[env_i].astype(np.float64)):
                    other = np.array_equal(row["obs"][env_i], prev[1 - env_i].astype(np.float64))
                    col.violation(SIG.format("a2c.collect_trajectories", "row-observation-from-another-environment" if other else "stored-observation!=last-env-observation"), dict(det, t=t, env=env_i, stored=row["obs"][env_i], expected=prev[env_i]))
                if not np.array_equal(row["actions"][env_i], e[1][env_i].astype(np.float64)):
                    col.violation(SIG.format("a2c.collect_trajectories", "stored-action!=action-passed-to-env"), dict(det, t=t, env=env_i))
                if float(row["rewards"][env_i]) != float(e[3][env_i]):
                    col.violation(SIG.format("a2c.collect_trajectories", "stored-reward!=that-step's-reward"), dict(det, t=t, env=env_i))
                if int(row["terminations"][env_i]) != int(e[4][env_i]) or int(row["truncations"][env_i]) != int(e[5][env_i]):
                    col.violation(SIG.format("a2c.collect_trajectories", "stored-flags!=that-step's-flags"), dict(det, t=t, env=env_i))
            prev = e[2]
        if not np.array_equal(np.asarray(last), steps[-1][2]):
            col.violation(SIG.format("a2c.collect_trajectories", "returned-last-observation!=last-env-observation"), dict(det))
        envs.close()
    col.sample(dict(kind="a2c.collect_trajectories", pairs=item["pairs"][:3]))


class TagCritic(nnx.Module):
    """Injective linear critic: value = 10000*env_id + 100*episode + step."""

    def __init__(self):
        self.w = nnx.Param(jnp.asarray([100.0, 1.0, 10000.0]))

    def __call__(self, x):
        return (x @ self.w.value)[..., None]


def ppo_item(item, col):
    from rl_blox.algorithm import ppo

    T = item["T"]
    for pair in item["pairs"]:
        envs = make_vec(pair, True, gym.vector.AutoresetMode.SAME_STEP, T)
        st = pg_state(envs.envs[0], True, item["seed"])
        obs, _ = envs.reset(seed=1)
        wrapped = gym.wrappers.vector.RecordEpisodeStatistics(envs)
        logger = D.RecLogger() if item["logger"] else None
        D._register_logger()
        with contextlib.redirect_stdout(io.StringIO()):
            traj = ppo.collect_trajectories(wrapped, st.policy, TagCritic(), jax.random.key(1), T, logger, jnp.asarray(obs), 0)
        steps = [e for e in envs.vlog if e[0] == "step"]
        entry = "ppo.collect_trajectories" + ("(logger)" if item["logger"] else "")
        det = dict(scripts=pair, steps=T, logger=item["logger"])
        boundary = any(c in "TU" for s in pair for c in s[: T - 1])
        col.tick(1, ("ppo", item["logger"], tuple(pair)) if boundary else None)
        if boundary:
            col.outcome("runs_crossing_an_episode_boundary")
        O = np.asarray(traj.observation).reshape(2, T, -1)
        A = np.asarray(traj.action).reshape(2, T)
        Rw = np.asarray(traj.reward).reshape(2, T)
        Te = np.asarray(traj.terminated).reshape(2, T)
        NV = np.asarray(traj.next_value).reshape(2, T)
        prev = np.asarray(obs)
        for t, e in enumerate(steps[:T]):
            for env_i in range(2):
                if not np.array_equal(O[env_i, t], prev[env_i]):
                    other = np.array_equal(O[env_i, t], prev[1 - env_i])
                    col.violation(SIG.format(entry, "row-observation-from-another-environment" if other else "stored-observation!=last-env-observation"), dict(det, t=t, env=env_i, stored=O[env_i, t], expected=prev[env_i]))
                if int(A[env_i, t]) != int(e[1][env_i]):
                    col.violation(SIG.format(entry, "stored-action!=action-passed-to-env"), dict(det, t=t, env=env_i))
                if float(Rw[env_i, t]) != float(e[3][env_i]):
                    col.violation(SIG.format(entry, "stored-reward!=that-step's-reward"), dict(det, t=t, env=env_i))
                if int(Te[env_i, t]) != int(e[4][env_i]):
                    col.violation(SIG.format(entry, "stored-flags!=that-step's-flags"), dict(det, t=t, env=env_i))
                # successor used for bootstrapping: next or final observation of the SAME env and step
                ok_vals = [float(e[2][env_i] @ np.array([100.0, 1.0, 10000.0]))]
                if e[6] is not None and e[6][env_i] is not None:
                    ok_vals.append(float(e[6][env_i] @ np.array([100.0, 1.0, 10000.0])))
                if float(NV[env_i, t]) not in ok_vals:
                    v = float(NV[env_i, t])
                    other_env = int(round(v)) // 10000 != env_i + 1
                    col.violation(SIG.format(entry, "successor-from-another-environment" if other_env else "successor!=that-step's-successor"), dict(det, t=t, env=env_i, next_value=v, accepted=ok_vals))
            prev = e[2]
        envs.close()
    col.sample(dict(kind="ppo.collect_trajectories", logger=item["logger"], pairs=item["pairs"][:3]))


# -- tabular ------------------------------------------------------------------------------------


class _Relabel:
    """Collector proxy: C14's prefix-differencing oracle (step t of the public train_* changes only
    entry (o_t, a_t), by the textbook amount computed from the ground-truth transition of the
    environment log) decides C01's clause for the tabular learners; its findings are re-labelled."""

    def __init__(self, col, prefix="tabular-update-not-from-the-env-transition:"):
        self._col = col
        self._prefix = prefix

    def violation(self, signature, detail=None, item=None):
        parts = signature.split("|")
        self._col.violation(SIG.format(parts[1], self._prefix + parts[2]), detail)

    def __getattr__(self, name):
        return getattr(self._col, name)


def tabular_item(item, col):
    from checks import c14

    learner = {"q_learning": "ql", "sarsa": "sarsa", "double_q_learning": "dql", "monte_carlo": "mc", "dynaq": "dyna"}[item["algo"]]
    first = item["config"]
    its = [i for i in c14.items(item["tier"], item["seed"]) if i["kind"] == "history" and i["cfg"]["learner"] == learner and i["cfg"]["cfg"] == first]
    proxy = _Relabel(col)
    for it in its:
        c14.work(it, proxy)
    if first is not None:
        col.sample(dict(kind="tabular prefix differencing (C14 history oracle)", learner=item["algo"], config=first, items=len(its)))
        return
    # acting: with epsilon 0 the action passed to the environment must be greedy, on the table held before the
    # step, AT THE CURRENT OBSERVATION (C13's tabular-loop oracle, re-labelled)
    from checks import c13

    acting = [i for i in c13.items(item["tier"], item["seed"]) if i["kind"] == "tabloop" and i["algo"] == "train_" + item["algo"]]
    proxy2 = _Relabel(col, "acting-not-conditioned-on-the-current-observation:")
    for it in acting:
        c13.work(it, proxy2)
    col.sample(dict(kind="tabular acting (C13 tabular-loop oracle)", learner=item["algo"], items=len(acting)))


def readback_item(item, col):
    """lr = 1, gamma = 0, every step in a state of its own: after the run the table holds r_t at (o_t, a_t) for every
    transition of the environment log that a learner has consumed, and its initial value everywhere else."""
    import gymnasium as gym

    from rl_blox.algorithm import double_q_learning, dynaq, monte_carlo, q_learning, sarsa

    algo = item["algo"]
    entry = "train_" + algo
    NA = 3
    for script, logged, eps in itertools.product(item["scripts"], (False, True), (1.0, 0.5)):
        T = len(script)
        S = 2 * T + 4
        base = senv.ScriptEnv(script, discrete=True, n_actions=NA, discrete_obs=S, horizon=T,
                              reward_fn=lambda e, lvl: float(e.t) + 0.5)
        env = gym.wrappers.RecordEpisodeStatistics(base) if logged else base
        logger = D.RecLogger() if logged else None
        rng = np.random.default_rng(item["seed"] + 5)
        q0 = (rng.integers(-3, 4, size=(S, NA)) * 0.25 - 100.0).astype(np.float32)
        kw = dict(epsilon=eps, gamma=0.0, total_timesteps=T, seed=1 + item["seed"], progress_bar=False, logger=logger)
        det = dict(algo=entry, script=script, logger=logged, epsilon=eps)
        col.tick(1, (algo, script, logged, eps))
        try:
            if algo == "q_learning":
                tabs = [np.asarray(q_learning.train_q_learning(env, jnp.asarray(q0), learning_rate=1.0, **kw))]
            elif algo == "sarsa":
                tabs = [np.asarray(sarsa.train_sarsa(env, jnp.asarray(q0), learning_rate=1.0, **kw))]
            elif algo == "double_q_learning":
                o = double_q_learning.train_double_q_learning(env, jnp.asarray(q0), jnp.asarray(q0), learning_rate=1.0, **kw)
                tabs = [np.asarray(o[0]), np.asarray(o[1])]
            elif algo == "dynaq":
                tabs = [np.asarray(dynaq.train_dynaq(env, jnp.asarray(q0), learning_rate=1.0, n_planning_steps=0, buffer_size=50, **kw))]
            else:
                tabs = [np.asarray(monte_carlo.train_monte_carlo(env, jnp.asarray(q0), **kw)[0])]
        except Exception as e:  # noqa: BLE001
            col.violation(SIG.format(entry, "tabular-run-raised-on-a-well-behaved-environment"), dict(det, error=f"{type(e).__name__}: {str(e)[:200]}"))
            continue
        trans = base.transitions()
        if logged:
            col.outcome("tabular_runs_with_logger")
        if sum(1 for t in trans if t[4] or t[5]) >= 10:
            col.outcome("tabular_runs_with_ten_or_more_episodes")
        consumed = list(trans)
        if algo == "monte_carlo":
            # only complete episodes are learned from
            last_end = max([i for i, t in enumerate(trans) if t[4] or t[5]], default=-1)
            consumed = trans[: last_end + 1]
        exp = [q0.astype(np.float64).copy() for _ in tabs]
        bad = None
        touched = set()
        for (o, a, r, o2, term, trunc) in consumed:
            touched.add((int(o), int(a)))
        for (o, a, r, o2, term, trunc) in consumed:
            o, a = int(o), int(a)
            vals = [float(t[o, a]) for t in tabs]
            if len(tabs) == 1:
                ok = vals[0] == float(np.float32(r))
            else:
                ok = sorted(vals) == sorted([float(np.float32(r)), float(q0[o, a])])
            if not ok and bad is None:
                bad = dict(observation=o, action=a, reward=r, table_entries=vals, initial=float(q0[o, a]))
        if bad is not None:
            col.violation(SIG.format(entry, "tabular-update-not-from-the-env-transition:entry(o_t,a_t)!=r_t"), dict(det, **bad))
            continue
        for t in tabs:
            diff = [(int(i), int(j)) for i, j in zip(*np.nonzero(t != q0)) if (int(i), int(j)) not in touched]
            if diff:
                col.violation(SIG.format(entry, "tabular-update-not-from-the-env-transition:entry-never-visited-changed"), dict(det, entries=diff[:5]))
                break
    col.sample(dict(kind="tabular readback (lr=1, gamma=0)", learner=algo, scripts=item["scripts"][:4]))


def mt_wrapper_item(item, col):
    """select_task(t) + training run, repeated over a schedule of tasks: afterwards every task's buffer holds exactly the
    transitions of the environments that were run while that task was selected."""
    import types

    from rl_blox.blox import replay_buffer as rbm

    name = item["routine"]
    inner_cls = rbm.LAP if name == "td3_lap" else rbm.ReplayBuffer
    schedules = [[0, 1, 0, 2, 1], [2, 2, 0], [1, 0, 1, 0]]
    scripts = ["ccTcc", "cUccc", "ccccc", "TcccU", "cccTc"]
    for cap, sched in itertools.product(item["caps"], schedules):
        rb = rbm.MultiTaskReplayBuffer(inner_cls(cap), 3)
        per_task = {0: [], 1: [], 2: []}
        prebuilt = None
        err = None
        for i, t in enumerate(sched):
            script = scripts[(i + item["seed"]) % len(scripts)]
            rb.select_task(t)
            cfg = dict(env_horizon=len(script) + 3, seed=1 + item["seed"] + i, net_seed=item["seed"], learning_starts=10**6, replay_buffer=rb)
            if prebuilt is not None:
                cfg["prebuilt"] = prebuilt
            run = D.run(name, script, **cfg)
            prebuilt = run.prebuilt
            if run.error is not None:
                err = run.error
                break
            # observations of later runs on the same task carry on with distinct tags: shift the episode tag by the run index
            per_task[t] += [(tr, i) for tr in run.env.transitions()]
        col.tick(1, (name, cap, tuple(sched)))
        if err is not None:
            col.outcome("runs_aborted_by_env_guard:" + err)
            continue
        for t, lst in per_task.items():
            inner = rb.buffers[t]
            trans = [tr for tr, _ in lst]
            fake = types.SimpleNamespace(name=name, env=types.SimpleNamespace(transitions=lambda trans=trans: trans), rb=inner)
            n_before = len(col.violations) if hasattr(col, "violations") else 0
            if not trans:
                if len(inner) != 0:
                    col.violation(SIG.format("train_" + name, "buffer-does-not-hold-the-last-min(n,N)-transitions"), dict(routine=name, task=t, schedule=sched, len=len(inner), expected=0))
                continue
            compare_buffer(fake, col, dict(warm=10**6, mode=f"multi-task wrapper, task {t} of schedule {sched}"), "+".join(scripts))
            col.outcome("mt_wrapper_task_buffers_compared")
    col.sample(dict(kind="multi-task wrapper under a single-task routine", routine=name, schedules=schedules, capacities=item["caps"]))


def resume_pickled_item(item, col):
    """Run, pickle the buffer, load it, continue training on the loaded copy: it then holds the last min(n, N) transitions of
    both runs together (what the environments produced), nothing else."""
    import pickle
    import types

    name = item["routine"]
    firsts = ["cccccc", "ccTccc", "cUcccT", "ccc"]
    from vlib import poison

    poison.install()  # slots that a reload leaves unwritten hold a sentinel, not whatever the heap held
    for cap, first, second in itertools.product(item["caps"], firsts, ["c", "cTcc"]):
        cfg = dict(buffer_size=cap, env_horizon=len(first) + 3, seed=1 + item["seed"], net_seed=item["seed"], learning_starts=10**6)
        if name in D.DISCRETE:
            cfg.update(batch_size=100, learning_starts=0)
        r1 = D.run(name, first, **cfg)
        col.tick(1, (name, cap, first, second))
        if r1.error is not None:
            col.outcome("runs_aborted_by_env_guard:" + r1.error)
            continue
        try:
            rb2 = pickle.loads(pickle.dumps(r1.rb))
        except Exception as e:  # noqa: BLE001 - saving is C19's business
            col.outcome("resume_buffers_that_could_not_be_pickled")
            continue
        cfg2 = dict(cfg, env_horizon=len(second) + 3, seed=2 + item["seed"], replay_buffer=rb2, prebuilt=r1.prebuilt)
        r2 = D.run(name, second, **cfg2)
        if r2.error is not None:
            col.outcome("runs_aborted_by_env_guard:" + r2.error)
            continue
        trans = r1.env.transitions() + r2.env.transitions()
        fake = types.SimpleNamespace(name=name, env=types.SimpleNamespace(transitions=lambda trans=trans: trans), rb=rb2)
        compare_buffer(fake, col, dict(warm=10**6, mode="continued on a pickled and reloaded buffer"), first + "+" + second)
        col.outcome("resumed_runs_compared")
        if len(r1.env.transitions()) > cap:
            col.outcome("resumed_runs_whose_buffer_had_wrapped_before_the_save")
    col.sample(dict(kind="resume on a pickled buffer", routine=name, capacities=item["caps"]))


def a2c_loop_item(item, col):
    from rl_blox.algorithm import a2c
    from vlib import poison

    poison.install()  # rows of a rollout buffer that were never written hold a sentinel, not whatever the heap held
    entry = "train_a2c"
    for pair in item["pairs"]:
        for spu, total in ((2, 8), (2, 10), (3, 12), (3, 14), (3, 16)):
            envs = make_vec([p * 6 for p in pair], False, gym.vector.AutoresetMode.NEXT_STEP, 40)
            st = pg_state(envs.envs[0], False, item["seed"])
            captured = []
            real = a2c.prepare_a2c_batch

            def wrap(rb, vf, last_obs, *a, **k):
                captured.append({key: np.array(val) for key, val in rb.buffer.items()})
                return real(rb, vf, last_obs, *a, **k)

            a2c.prepare_a2c_batch = wrap
            err = None
            try:
                with contextlib.redirect_stdout(io.StringIO()):
                    a2c.train_a2c(envs, st.policy, st.policy_optimizer, st.value_function, st.value_function_optimizer, seed=1,
                                  total_timesteps=total, steps_per_update=spu, log_frequency=None, progress_bar=False)
            except Exception as e:  # noqa: BLE001
                err = f"{type(e).__name__}: {str(e)[:200]}"
            finally:
                a2c.prepare_a2c_batch = real
            col.tick(1, ("a2c-loop", tuple(pair), spu, total))
            det = dict(scripts=pair, steps_per_update=spu, total_timesteps=total)
            if err is not None:
                col.violation(SIG.format(entry, "raised-on-a-well-behaved-environment"), dict(det, error=err))
                envs.close()
                continue
            steps = [e for e in envs.vlog if e[0] == "step"]  # ("step", actions, obs (n_envs, 3), rewards, terms, truncs)
            produced = [set() for _ in range(envs.num_envs)]
            for e in envs.vlog:
                obs = e[1] if e[0] == "reset" else e[2]
                for i in range(envs.num_envs):
                    produced[i].add(tuple(np.asarray(obs[i], dtype=np.float64).tolist()))
            bad = None
            for r, buf in enumerate(captured):
                o = np.asarray(buf["obs"], dtype=np.float64)
                col.outcome("a2c_rollout_buffers_handed_to_the_learner")
                for j in range(o.shape[0]):
                    for i in range(envs.num_envs):
                        if tuple(o[j, i].tolist()) not in produced[i]:
                            bad = dict(rollout=r, row=j, sub_environment=i, stored_observation=o[j, i].tolist())
                            break
                    if bad:
                        break
                if bad:
                    break
            if total % (spu * envs.num_envs) != 0:
                col.outcome("a2c_runs_with_a_budget_that_is_no_multiple_of_one_rollout")
            if bad is not None:
                col.violation(SIG.format(entry, "rollout-row-not-produced-by-the-environment"), dict(det, **bad))
            envs.close()
    col.sample(dict(kind="train_a2c rollout buffers", pairs=item["pairs"][:2]))


def work(item, col):
    k = item["kind"]
    if k == "a2c-loop":
        return a2c_loop_item(item, col)
    if k == "resume-pickled":
        return resume_pickled_item(item, col)
    if k == "mt-wrapper":
        return mt_wrapper_item(item, col)
    if k == "tabular-readback":
        return readback_item(item, col)
    if k == "mrq-own-buffer":
        from vlib import mrq_windows

        return mrq_windows.work_item(item, col, lambda kind: SIG.format("train_mrq", kind))
    if k == "off":
        return off_item(item, col)
    if k == "reinforce":
        return reinforce_item(item, col)
    if k == "reinforce-loop":
        return reinforce_loop_item(item, col)
    if k == "a2c":
        return a2c_item(item, col)
    if k == "ppo":
        return ppo_item(item, col)
    if k == "tabular":
        return tabular_item(item, col)
    raise ValueError(k)
