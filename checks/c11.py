"""C11 - step budget, episode discipline, warm-up gate and step accounting (E2 + E1)."""

import contextlib
import io
import itertools

import gymnasium as gym
import jax
import jax.numpy as jnp
import numpy as np

from vlib import drivers as D
from vlib import senv
from vlib import snap as S

try:  # scheduler half (task selectors, SMT / active MT / UTS accounting)
    from vlib import c11_sched
except Exception:  # noqa: BLE001
    c11_sched = None

PROPERTY = "C11"
LEVEL = "exploration"
USES_JAX = True
CLEAR_EVERY = 6
RULE = (
    "one evaluation = one execution of a training routine (or rollout helper / scheduler history) against a "
    "scripted environment, judged from the environment's own log: executed steps vs remaining budget, stop "
    "right after the requested episode, no step after an episode end without reset, returned counter == start "
    "+ executed, continuation from the returned counter, and (learning-enabled runs, snapshots at every "
    "env.step boundary) no parameter change in an iteration below the documented warm-up. Scripts: full "
    "product / deviation-bounded over {c,T,U}; crossed with budgets, starting counts, episode limits and "
    "warm-up lengths. non-trivial = the configuration makes a clause bite (episode limit reached before the "
    "budget, start>0, budget exhausted mid-episode, warm-up inside the horizon); distinct = distinct "
    "(routine, script, budget, start, episode limit, warm-up)"
)
ASSUMPTIONS = [
    "horizon T<=7; tiny networks; budgets {0,1,3,T}, starts {0,2,total,total+1}, episode limits {None,1,2}",
    "REINFORCE / actor-critic / A2C / PPO collect whole episodes or fixed rollouts: their budget granularity is one collection round by construction; the check requires that no round starts once the budget is reached and reports the overshoot as a number, never as a violation",
    "warm-up conditions are restated from the docstrings (DESIGN appendix B.3), not from the code",
    "the discounted-UCB 250-step window is beyond the exhaustive depth (see scheduler half)",
]
SIG = "C11|{}|{}"
BUDGET_S = {"quick": 540, "thorough": 3000}

TABULAR = ["q_learning", "sarsa", "double_q_learning", "monte_carlo", "dynaq"]


def chunks(lst, n):
    return [lst[i : i + n] for i in range(0, len(lst), n)]


def items(tier, seed):
    q = tier == "quick"
    T = 6 if q else 7
    out = []
    scripts = senv.scripts(T, "cTU", 2) if q else senv.scripts(T, "cTU")
    for name in D.OFF_POLICY:
        per = {"pets": 12, "mrq": 40, "td7": 40}.get(name, 80)
        sc = scripts if name != "pets" else senv.scripts(T, "cTU", 1)
        for ch in chunks(sc, per):
            out.append(dict(name=f"loop-{name}-{ch[0]}", kind="loop", routine=name, T=T, scripts=ch, seed=seed))
        lsc = senv.scripts(T, "cTU", 1)
        per = {"pets": 2, "mrq": 2, "td7": 3}.get(name, 5)
        for warm in (([3, 5] if name in D.DISCRETE else [3]) if q else [2, 4, 5]):
            if name == "dqn":
                continue
            for ch in chunks(lsc if not q else lsc[:7], per):
                out.append(dict(name=f"warmup-{name}-w{warm}-{ch[0]}", kind="warmup", routine=name, warm=warm + (2 if name == "mrq" else 0), T=T, scripts=ch, seed=seed))
            out.append(dict(name=f"warmup-prefilled-{name}-w{warm}", kind="warmup", routine=name, warm=warm + (2 if name == "mrq" else 0), T=T,
                            scripts=lsc[:2] if q else lsc[:5], seed=seed, prefill=8))
            if name == "td7":
                # checkpoint mode: training is batched at episode ends, also for episodes that end during the warm-up
                for ch in chunks([sc_ for sc_ in lsc if sc_[:warm].count("c") < warm][: 6 if q else 12], per):
                    out.append(dict(name=f"warmup-td7-checkpoints-w{warm}-{ch[0]}", kind="warmup", routine=name, warm=warm, T=T, scripts=ch, seed=seed,
                                    cfg=dict(use_checkpoints=True, window=2, threshold=3)))
    for algo in TABULAR + ["cmaes"]:
        for ch in chunks(scripts, 120):
            out.append(dict(name=f"tab-{algo}-{ch[0]}", kind="tab", algo=algo, T=T, scripts=ch, seed=seed))
    ep_scripts = [s + "T" for s in senv.scripts(T - 1, "cTU", 2)]
    for algo in ("train_reinforce", "train_ac"):
        for ch in chunks(ep_scripts, 25):
            out.append(dict(name=f"round-{algo}-{ch[0]}", kind="round", algo=algo, scripts=ch, seed=seed))
    vs = senv.scripts(4, "cTU", 1)
    pairs = [[a, b] for a in vs for b in vs]
    for algo in ("train_a2c", "train_ppo"):
        for ch in chunks(pairs, 20):
            out.append(dict(name=f"round-{algo}-{ch[0][0]}-{ch[0][1]}", kind="vround", algo=algo, pairs=ch, seed=seed))
    for ch in chunks(senv.scripts(T, "cTU", 2) if q else senv.scripts(T, "cTU"), 200):
        out.append(dict(name=f"rollout-{ch[0]}", kind="rollout", scripts=ch, T=T, seed=seed))
    if c11_sched is not None:
        out += c11_sched.items(tier, seed)
    return out


# -- step-granular loops ----------------------------------------------------------------------


def episode_ends(script, n):
    return [i for i, c in enumerate(script[:n]) if c in "TUB"]


def expected_executed(script, budget, k):
    """Steps a routine must execute: the remaining budget, or up to the k-th episode end."""
    budget = max(0, budget)
    if k is None:
        return budget
    ends = [i for i, c in enumerate(script) if c in "TUB"]
    if len(ends) >= k and ends[k - 1] + 1 <= budget:
        return ends[k - 1] + 1
    return budget


def counter_of(result):
    for f in ("global_step", "steps_trained"):
        if hasattr(result, f):
            return f, int(getattr(result, f))
    return None, None


def loop_item(item, col):
    name = item["routine"]
    T = item["T"]
    entry = "train_" + name
    prebuilt = None
    totals = [0, 1, 3, T]
    for script in item["scripts"]:
        for total in totals:
            starts = [0, 2, total, total + 1] if name in D.HAS_GLOBAL_STEP else [0]
            for start in sorted(set(starts)):
                for k in ([None, 1, 2] if name in D.HAS_TOTAL_EPISODES else [None]):
                    cfg = dict(buffer_size=16, env_horizon=T + 4, total_timesteps=total, learning_starts=10**6, seed=1 + item["seed"], net_seed=item["seed"])
                    if name in D.DISCRETE:
                        cfg["batch_size"] = 100
                        if name != "dqn":
                            cfg["learning_starts"] = 0
                    if start:
                        cfg["global_step"] = start
                    if k is not None:
                        cfg["total_episodes"] = k
                    if prebuilt is not None:
                        cfg["prebuilt"] = prebuilt
                    if name == "pets" and total == 0:
                        pass
                    run = D.run(name, script, **cfg)
                    prebuilt = run.prebuilt
                    judge_run(col, entry, run, script, total, start, k, name)
    col.sample(dict(routine=name, scripts=item["scripts"][:3], totals=totals))


def judge_run(col, entry, run, script, total, start, k, name, cont=True):
    budget = max(0, total - start)
    executed = run.env.executed
    exp = expected_executed(script, budget, k)
    det = dict(script=script, total_timesteps=total, global_step=start, total_episodes=k, executed=executed, expected=exp)
    nontriv = (k is not None and exp < budget) or start > 0 or (0 < budget and script[budget - 1 : budget] not in ("T", "U", "B"))
    col.tick(1, (entry, script, total, start, k) if nontriv else None)
    if run.error == "step-after-end":
        col.violation(SIG.format(entry, "stepped-after-episode-end"), det)
        return
    if executed > budget or run.error == "horizon":
        col.violation(SIG.format(entry, "executed>budget"), det)
        return
    if k is not None:
        ends = episode_ends(script, executed)
        if len(ends) > k or (len(ends) == k and ends[-1] != executed - 1):
            col.violation(SIG.format(entry, "ran-past-episode-limit"), det)
        if exp < budget:
            col.outcome("runs_stopped_by_episode_limit")
    fld, cnt = counter_of(run.result)
    if fld is not None:
        col.outcome("returned_counters_checked")
        if cnt != start + executed:
            kind = "returned-counter!=start+executed"
            col.violation(SIG.format(entry, kind), dict(det, returned=cnt, field=fld))


def prefilled_buffer(name, cfg, k):
    rb = D.new_buffer(name, cfg)
    for i in range(k):
        kw = dict(observation=np.array([-1.0, -float(i)], dtype=np.float32), reward=0.5, next_observation=np.array([-1.0, -float(i) - 1], dtype=np.float32))
        kw["action"] = 0 if name in D.DISCRETE else np.zeros(1 if name == "pets" else 2, dtype=np.float32)
        if name in D.SUBTRAJ:
            kw.update(terminated=False, truncated=False)
        else:
            kw["termination"] = False
        rb.add_sample(**kw)
    return rb


def warmup_item(item, col):
    name = item["routine"]
    entry = "train_" + name
    warm = item["warm"]
    for script in item["scripts"]:
        cfg = dict(buffer_size=16, env_horizon=item["T"] + 4, learning_starts=warm, batch_size=2, snap=True, seed=1 + item["seed"], net_seed=item["seed"])
        cfg.update(item.get("cfg", {}))
        if item.get("prefill"):
            # the caller hands in a replay buffer that already holds data (a new agent on old experience,
            # or a multi-task buffer): the documented warm-up still counts environment steps
            cfg["replay_buffer"] = prefilled_buffer(name, cfg, item["prefill"])
        run = D.run(name, script, **cfg)
        col.tick(1, (entry, "warmup", warm, script, item.get("prefill", 0)))
        if item.get("prefill"):
            col.outcome("warm-up_runs_with_prefilled_buffer")
        if run.error:
            col.outcome("runs_aborted_by_env_guard:" + run.error)
            continue
        snaps = [s for s in run.snaps]
        changed_any = False
        for i in range(len(snaps) - 1):
            ch = S.changed(snaps[i][2], snaps[i + 1][2])
            ch = [c for c in ch if "target" not in c]  # targets may be (re)copied; they are C06's business
            if ch:
                changed_any = True
            # the change happened when i+1 environment steps had been taken ("learning starts after this
            # number of steps was taken"): a violation iff fewer than learning_starts steps existed
            if ch and i + 1 < warm:
                col.violation(SIG.format(entry, "update-before-documented-warm-up"), dict(script=script, learning_starts=warm, step=i, changed=ch, batch_size=2))
                break
        if changed_any:
            col.outcome("warm-up_runs_that_did_learn_afterwards")
        else:
            col.outcome("warm-up_runs_that_never_learned")
    col.sample(dict(routine=name, learning_starts=warm, scripts=item["scripts"][:3]))


# -- tabular learners and CMA-ES -------------------------------------------------------------------


def tab_item(item, col):
    import importlib

    algo = item["algo"]
    T = item["T"]
    for script in item["scripts"]:
        for total in (0, 1, 3, T):
            if algo == "cmaes":
                continue
            env = senv.ScriptEnv(script, discrete=True, discrete_obs=12, horizon=T + 4)
            mod = importlib.import_module("rl_blox.algorithm." + algo)
            f = getattr(mod, "train_" + algo)
            q = jnp.zeros((12, 2))
            err = None
            try:
                with contextlib.redirect_stdout(io.StringIO()):
                    if algo == "double_q_learning":
                        f(env, q, q, total_timesteps=total, progress_bar=False)
                    elif algo == "monte_carlo":
                        f(env, q, total_timesteps=total, progress_bar=False)
                    elif algo == "dynaq":
                        f(env, q, total_timesteps=total, n_planning_steps=1, buffer_size=8, progress_bar=False)
                    else:
                        f(env, q, total_timesteps=total, progress_bar=False)
            except senv.HorizonExceeded:
                err = "horizon"
            except senv.StepAfterEnd:
                err = "step-after-end"
            run = type("R", (), dict(env=env, error=err, result=None))()
            judge_run(col, "train_" + algo, run, script, total, 0, None, algo)
    if algo == "cmaes":
        cmaes_item(item, col)
    col.sample(dict(algo=algo, scripts=item["scripts"][:3]))


def cmaes_item(item, col):
    from flax import nnx

    from rl_blox.algorithm.cmaes import train_cmaes
    from rl_blox.blox.function_approximator.mlp import MLP

    for script in item["scripts"][:: max(1, len(item["scripts"]) // 12)]:
        # every episode must end for an episodic optimiser: close the script with periodic ends
        sc = (script + "T") * 8
        for n_ep in (1, 2, 3, 5, 6):  # population 4: multiples and non-multiples of one generation
            env = senv.ScriptEnv(sc, discrete=False, horizon=len(sc))
            pol = MLP(2, 2, [3], "tanh", nnx.Rngs(0))
            err = None
            try:
                with contextlib.redirect_stdout(io.StringIO()):
                    train_cmaes(env, pol, total_episodes=n_ep, seed=0, n_samples_per_update=4, progress_bar=False)
            except senv.HorizonExceeded:
                err = "horizon"
            except senv.StepAfterEnd:
                err = "step-after-end"
            ends = sum(1 for e in env.log if e[0] == "step" and (e[4] or e[5]))
            col.tick(1, ("cmaes", script, n_ep))
            det = dict(script=sc, total_episodes=n_ep, episodes_executed=ends)
            if err == "step-after-end":
                col.violation(SIG.format("train_cmaes", "stepped-after-episode-end"), det)
            elif err == "horizon":
                col.violation(SIG.format("train_cmaes", "executed>budget"), det)
            else:
                # "stops once the requested number of episodes has finished": the loop counts episodes, not generations
                col.outcome("cmaes_episode_overshoot_total", max(0, ends - n_ep))
                if ends > n_ep:
                    col.violation(SIG.format("train_cmaes", "ran-past-episode-limit"), det)


# -- round-granular routines ------------------------------------------------------------------------


def round_item(item, col):
    from checks.c01 import pg_state
    from rl_blox.algorithm import actor_critic as AC
    from rl_blox.algorithm import reinforce as R

    algo = item["algo"]
    for script in item["scripts"]:
        for total, spu in ((0, 2), (1, 1), (3, 2), (5, 3)):
            sc = script * 3
            env = senv.ScriptEnv(sc, discrete=False, horizon=len(sc))
            st = pg_state(env, False, item["seed"])
            rounds = []
            mod = R if algo == "train_reinforce" else AC
            real = mod.sample_trajectories

            def wrap(*a, **k):
                rounds.append(env.executed)
                return real(*a, **k)

            mod.sample_trajectories = wrap
            err = None
            try:
                with contextlib.redirect_stdout(io.StringIO()):
                    f = R.train_reinforce if algo == "train_reinforce" else AC.train_ac
                    f(env, st.policy, st.policy_optimizer, st.value_function, st.value_function_optimizer, seed=1, total_timesteps=total, steps_per_update=spu, progress_bar=False)
            except senv.HorizonExceeded:
                err = "horizon"
            except senv.StepAfterEnd:
                err = "step-after-end"
            except AssertionError:
                # a one-sample dataset is rejected loudly by the value loss (chex shape assertion);
                # the budget clauses are judged on what was executed until then
                col.outcome("single-sample_dataset_rejected_loudly")
                err = "rejected"
            finally:
                mod.sample_trajectories = real
            det = dict(script=sc, total_timesteps=total, steps_per_update=spu, executed=env.executed, round_starts=rounds)
            col.tick(1, (algo, script, total, spu))
            if err == "step-after-end":
                col.violation(SIG.format(algo, "stepped-after-episode-end"), det)
                continue
            if err == "horizon":
                col.violation(SIG.format(algo, "executed>budget"), det)
                continue
            if any(r >= total for r in rounds):
                col.violation(SIG.format(algo, "collection-round-started-after-budget-reached"), det)
            # each round stops at the first episode end at/after steps_per_update
            bounds = rounds + [env.executed]
            for a, b in zip(bounds[:-1], bounds[1:]):
                if err == "rejected" and b == env.executed:
                    pass
                ends = [i for i in range(a, b) if sc[i] in "TU"]
                first_ok = next((i for i in ends if i - a + 1 >= spu), None)
                if first_ok is None or first_ok != b - 1:
                    col.violation(SIG.format(algo, "round-did-not-stop-at-first-episode-end-after-steps_per_update"), dict(det, round=[a, b]))
            col.outcome("round_budget_overshoot_steps(reported only)", max(0, env.executed - total))
    col.sample(dict(algo=algo, scripts=item["scripts"][:3]))


def vround_item(item, col):
    from checks.c01 import make_vec, pg_state
    from flax import nnx

    from rl_blox.algorithm import a2c, ppo
    from rl_blox.blox.function_approximator.mlp import MLP

    algo = item["algo"]
    for pair in item["pairs"]:
        for total, spu in ((0, 2), (3, 2), (8, 2)):
            if algo == "train_a2c":
                envs = make_vec([p * 4 for p in pair], False, gym.vector.AutoresetMode.NEXT_STEP, 20)
                st = pg_state(envs.envs[0], False, item["seed"])
                err = None
                try:
                    with contextlib.redirect_stdout(io.StringIO()):
                        a2c.train_a2c(envs, st.policy, st.policy_optimizer, st.value_function, st.value_function_optimizer, seed=1, total_timesteps=total, steps_per_update=spu, log_frequency=None, progress_bar=False)
                except senv.HorizonExceeded:
                    err = "horizon"
                except senv.StepAfterEnd:
                    err = "step-after-end"
                vsteps = sum(1 for e in envs.vlog if e[0] == "step")
                det = dict(scripts=pair, total_timesteps=total, steps_per_update=spu, vector_steps=vsteps)
                col.tick(1, (algo, tuple(pair), total, spu))
                if err == "step-after-end":
                    col.violation(SIG.format(algo, "stepped-after-episode-end"), det)
                elif err == "horizon":
                    col.violation(SIG.format(algo, "executed>budget"), det)
                else:
                    counted = vsteps * 2
                    n_rounds = vsteps // spu
                    # no round may start once the counted steps reached the budget
                    if n_rounds > 0 and (n_rounds - 1) * spu * 2 >= total:
                        col.violation(SIG.format(algo, "collection-round-started-after-budget-reached"), det)
                    if total == 0 and vsteps:
                        col.violation(SIG.format(algo, "collection-round-started-after-budget-reached"), det)
                    col.outcome("round_budget_overshoot_steps(reported only)", max(0, counted - total))
                envs.close()
            else:
                iters = {0: 0, 3: 1, 8: 2}[total]
                envs = make_vec([p * 4 for p in pair], True, gym.vector.AutoresetMode.SAME_STEP, 20)
                st = pg_state(envs.envs[0], True, item["seed"])
                critic = MLP(3, 1, [3], "tanh", nnx.Rngs(1))
                import optax

                oc = nnx.Optimizer(critic, optax.adam(1e-2), wrt=nnx.Param)
                err = None
                try:
                    with contextlib.redirect_stdout(io.StringIO()):
                        ppo.train_ppo(envs, st.policy, critic, st.policy_optimizer, oc, iterations=iters, epochs=1, batch_size=3, seed=1, progress_bar=False)
                except senv.HorizonExceeded:
                    err = "horizon"
                except senv.StepAfterEnd:
                    err = "step-after-end"
                vsteps = sum(1 for e in envs.vlog if e[0] == "step")
                det = dict(scripts=pair, iterations=iters, batch_size=3, vector_steps=vsteps)
                col.tick(1, (algo, tuple(pair), iters))
                if err == "step-after-end":
                    col.violation(SIG.format(algo, "stepped-after-episode-end"), det)
                elif err == "horizon" or vsteps > iters * 3:
                    col.violation(SIG.format(algo, "executed>budget"), det)
                envs.close()
    col.sample(dict(algo=algo, pairs=item["pairs"][:3]))


# -- rollout helper ----------------------------------------------------------------------------------


def rollout_item(item, col):
    from rl_blox.util.experiment_helper import generate_rollout

    T = item["T"]
    for script in item["scripts"]:
        env = senv.ScriptEnv(script + "T", discrete=True, horizon=T + 1)
        err = None
        try:
            obs, act, rew = generate_rollout(env, lambda observation, key: 0, seed=0)
        except senv.StepAfterEnd:
            err = "step-after-end"
        except senv.HorizonExceeded:
            err = "horizon"
        first_end = next(i for i, c in enumerate(script + "T") if c in "TU")
        kind = (script + "T")[first_end]
        det = dict(script=script + "T", executed=env.executed, first_episode_end=first_end + 1)
        col.tick(1, ("rollout", script) if first_end < T else None)
        if kind == "U":
            col.outcome("rollouts_ending_by_truncation")
        if err == "step-after-end":
            col.violation(SIG.format("generate_rollout", "stepped-after-episode-end"), det)
        elif err == "horizon" or env.executed != first_end + 1:
            col.violation(SIG.format("generate_rollout", "rollout-did-not-stop-at-episode-end"), det)
    col.sample(dict(kind="generate_rollout", scripts=item["scripts"][:3]))


def work(item, col):
    k = item["kind"]
    if k == "loop":
        return loop_item(item, col)
    if k == "warmup":
        return warmup_item(item, col)
    if k == "tab":
        return tab_item(item, col)
    if k == "round":
        return round_item(item, col)
    if k == "vround":
        return vround_item(item, col)
    if k == "rollout":
        return rollout_item(item, col)
    if c11_sched is not None and (k.startswith("sched") or k.startswith("mt")):
        return c11_sched.work(item, col)
    raise ValueError(k)
