"""C09 - training is a deterministic function of seed, initial state and environment (E2-style product).

Every training routine x seeds x 2 learning-enabled scripts x perturbation of every source of
nondeterminism the routine does not own (global `random` / `numpy.random` state, wall clock,
PYTHONHASHSEED / interpreter instance). Two runs with equal seed, identically initialised approximators
and an identically seeded scripted environment must have bit-identical digests; a run with a different
training seed must differ (non-vacuity).
"""

import json
import os
import subprocess
import sys

from vlib import c09_drivers as D

PROPERTY = "C09"
LEVEL = "exploration"
USES_JAX = True
CLEAR_EVERY = 8
# every work item runs in a fresh worker process: a defect that keeps state between calls then behaves the same in the pool
# and when the item is replayed alone (the replay gate needs that)
RECYCLE_AFTER = 1
BUDGET_S = {"quick": 3600, "thorough": 14400}  # generous wall-clock guards (shared machine); CPU time is what is reported
RULE = (
    "complete product routine (24: the 11 step-granular off-policy routines of vlib/drivers.py, REINFORCE, actor-critic, "
    "A2C, PPO, 5 tabular learners, CMA-ES, SMT, active-MT, UTS) x training seed x 2 scripts (each with a termination and a "
    "truncation inside the executed horizon, learning enabled after a warm-up of 2-4 steps) x perturbation pair; "
    "in-process pair = (global random/np.random seeded 101, real clock) vs (seeded 202 and advanced, time.time shifted "
    "+1000003.217 s, warm jit caches, and for continuous-action routines a different training run with other action bounds "
    "executed in between); cross-interpreter pair = separate /venv/bin/python processes with PYTHONHASHSEED 0 vs "
    "7 / 12345 (/ 10 in the thorough tier), global RNG seeds 11/22/33/44 and clock shifts 0/+1000003.217/-1000003.217/+1045296.789 s. One evaluation = one comparison of two "
    "digests (bytes of every handed-in and returned module/optimizer leaf, buffer arrays up to current_len, priorities, "
    "returned counters/tables, the MemoryLogger call sequence with (episode, step) and without wall-clock, the "
    "environment's action/answer trace). Non-trivial = both runs completed AND at least one parameter/table changed "
    "during the run AND a different training seed changes the digest of that (routine, script); distinct = distinct "
    "(routine, script, seed, perturbation pair)."
)
ASSUMPTIONS = [
    "sources of nondeterminism outside the perturbation list (multi-threaded reductions, hardware, XLA version) are not explored; XLA runs single-threaded (core.setup_env)",
    "the environment is a scripted deterministic function of the action sequence (observation and reward depend on the last action); its action-space sampler is seeded by the routine (reset(seed=)) or by the driver with the same value in both runs",
    "function approximators are built twice from the same constructor seed (identical initialisation is a precondition of the property)",
    "a persistent XLA compilation cache is shared by all runs; a cache hit is assumed to yield the same executable as a fresh compilation",
    "tiny settings: 1 hidden layer x 3 units, 8-26 environment steps per run, batch size 2, buffers of 6-12 slots",
]

SIG = "C09|{}|{}"
REPLAY_MATCH = "entry"  # the failure kind is an attribution; a replay must reproduce a violation at the same entry point
K_GLOB = "depends-on-global-rng-state-or-uninitialised-memory"
K_CLOCK = "depends-on-wall-clock"
K_HASH = "depends-on-hash-seed"
K_REPEAT = "not-repeatable-under-identical-controlled-conditions"
K_UNATTR = "differs-between-runs-unattributed"
K_HISTORY = "depends-on-earlier-runs-in-the-same-process"
# note: the content of np.empty memory inside the replay-buffer module is tied to the global-RNG perturbation value
# (c09_drivers.perturbed), so a dependence on uninitialised buffer memory is reported as depends-on-global-rng-state /
# uninitialised memory
# routines acting in a continuous Box: before run B a *different* training (same routine, other action bounds)
# is executed in the same process, so state kept across calls (module-level caches) becomes visible
HISTORY = {"ddpg", "td3", "td3_lap", "sac", "td7", "mrq", "pets", "mrq@ls0", "mrq@full", "td3@f64box", "sac@f64box", "mrq@prefilled", "ddpg@gs3"}

P_A = dict(glob=101, shift=0.0)
SHIFT = 1_000_003.217  # ~1e6 s, deliberately not a round number (a round shift vanishes under `int(t * 1000) % 100000`)
P_B = dict(glob=202, shift=SHIFT)
# (PYTHONHASHSEED, perturbation). Hash seeds: DESIGN's {0, 1, 12345} order the three-element set {"q loss", "q mean",
# "policy loss"} identically, so 1 was replaced by 7 and 10, which (like 12345 except for that one set) order every set of
# c09_drivers.PROBE_SETS differently from hash seed 0; the interpreters report the orders and the evidence counts them.
CROSS = [
    ("0", dict(glob=11, shift=0.0)),
    ("7", dict(glob=22, shift=SHIFT)),
    ("12345", dict(glob=33, shift=-SHIFT)),
    ("10", dict(glob=44, shift=1_045_296.789)),
]
ALT_SEED_OFFSETS = [1000, 2000, 3000]


def _seeds(tier, vs):
    ks = [0, 1] if tier == "quick" else [0, 1, 2, 7]
    return [10 * vs + k for k in ks]


def items(tier, seed):
    out = []
    seeds = _seeds(tier, seed)
    cost = {"mrq": 9, "mrq@ls0": 9, "mrq@full": 9, "mrq@prefilled": 30, "uts": 8, "smt": 5, "active_mt": 5, "active_mt@ties": 5, "pets": 5, "td7": 5, "sac": 4}
    if tier == "quick":
        for fam, names in D.FAMILIES.items():
            jobs = [[n, 0, seeds[0], 10 * seed + 5] for n in names]
            out.append(dict(name=f"cross/{fam}", kind="cross", jobs=jobs, nhash=3, w=30 + sum(cost.get(n, 2) for n in names)))
    else:
        for n in D.ROUTINES:
            for sid in D.SCRIPT_IDS:
                jobs = [[n, sid, s, 10 * seed + 5 + sid] for s in seeds]
                out.append(dict(name=f"cross/{n}/script{sid}", kind="cross", jobs=jobs, nhash=4, w=40 + 4 * len(seeds) * cost.get(n, 2)))
    for n in D.ROUTINES:
        for sid in D.SCRIPT_IDS:
            out.append(dict(name=f"inproc/{n}/script{sid}", kind="inproc", routine=n, sid=sid, seeds=seeds, net_seed=10 * seed + 5 + sid,
                            w=2 * len(seeds) * cost.get(n, 2)))
    out.sort(key=lambda it: -it["w"])  # longest first (load balance); the order carries no meaning
    return out


# -- helpers ----------------------------------------------------------------------------------------


def _diff(a, b):
    ks = sorted(set(a["parts"]) | set(b["parts"]))
    return [k for k in ks if a["parts"].get(k) != b["parts"].get(k)]


def _note_run(col, r, _unused=None):
    """Outcome counters for one run (called exactly once per run)."""
    m = r["meta"]
    if m["error"]:
        col.outcome("runs_not_completed")
    else:
        col.outcome("runs_completed")
    if m["learned"]:
        col.outcome("runs_with_parameter_or_table_updates")
    col.outcome("environment_steps_executed", sum(m["executed"]))
    col.outcome("action_space_sampler_calls", m["sampler_calls"])
    col.outcome("logger_calls_compared", m["n_stats"])
    for o in m["opaque"]:
        col.append("opaque_objects_not_digested", o)


def run_sub(jobs, hashseed, perturb, timeout=1500):
    env = dict(os.environ)
    env["PYTHONHASHSEED"] = str(hashseed)
    repo = os.environ.get("VERIF_REPO", "/repo")
    env["VERIF_REPO"] = repo
    verif = os.path.dirname(os.path.dirname(os.path.abspath(__file__)))
    env["PYTHONPATH"] = os.pathsep.join([repo, verif] + [p for p in env.get("PYTHONPATH", "").split(os.pathsep) if p and p not in (repo, verif)])
    spec = json.dumps(dict(jobs=jobs, perturb=perturb))
    exe = "/venv/bin/python" if os.path.exists("/venv/bin/python") else sys.executable
    p = subprocess.run([exe, os.path.join(verif, "vlib", "c09_drivers.py"), spec], env=env, capture_output=True, text=True, timeout=timeout, cwd=verif)
    for line in p.stdout.splitlines():
        if line.startswith("C09RESULT "):
            return json.loads(line[len("C09RESULT "):])
    raise RuntimeError(f"runner produced no result (rc={p.returncode}): {p.stderr[-1500:]}")


def _report(col, name, kinds, detail):
    for k in kinds:
        col.violation(SIG.format(D.ENTRY[name], k), detail)


# -- in-process pairs ---------------------------------------------------------------------------------


def _run_in(name, sid, seed, net_seed, perturb):
    with D.perturbed(**perturb):
        return D.run_digest(name, sid, seed, net_seed)


def attribute_inproc(name, sid, seed, net_seed):
    """Delta-debug a difference with every source under control (virtual clock)."""
    base = _run_in(name, sid, seed, net_seed, dict(P_A, vclock=True))
    again = _run_in(name, sid, seed, net_seed, dict(P_A, vclock=True))
    kinds, info = [], {}
    if _diff(base, again):
        kinds.append(K_REPEAT)
        info[K_REPEAT] = _diff(base, again)
        return kinds, info
    if True:
        with D.perturbed(**dict(P_A, vclock=True)):
            if name in HISTORY:
                D.run_digest(name, sid, seed + 77, net_seed, alt_bounds=True)
            D._other_flavours()
        h = _run_in(name, sid, seed, net_seed, dict(P_A, vclock=True))
        if _diff(base, h):
            kinds.append(K_HISTORY)
            info[K_HISTORY] = _diff(base, h)
            return kinds, info
    g = _run_in(name, sid, seed, net_seed, dict(glob=P_B["glob"], shift=P_A["shift"], vclock=True))
    if _diff(base, g):
        kinds.append(K_GLOB)
        info[K_GLOB] = _diff(base, g)
    c = _run_in(name, sid, seed, net_seed, dict(glob=P_A["glob"], shift=P_B["shift"], vclock=True))
    if _diff(base, c):
        kinds.append(K_CLOCK)
        info[K_CLOCK] = _diff(base, c)
    if not kinds:
        kinds.append(K_UNATTR)
    return kinds, info


def work_inproc(item, col):
    name, sid, net_seed = item["routine"], item["sid"], item["net_seed"]
    seen = set()
    A = {}
    for s in item["seeds"]:
        A[s] = _run_in(name, sid, s, net_seed, P_A)
    # non-vacuity: a different training seed (same initial parameters, same script) changes the digest
    s0 = item["seeds"][0]
    distinct = len({json.dumps(A[s]["parts"], sort_keys=True) for s in A})
    seed_matters = distinct >= 2
    col.outcome("seed_pairs_compared_for_nonvacuity", len(A) - 1)
    col.outcome("different_seed_changes_digest", distinct - 1)
    col.outcome("different_seed_same_digest", len(A) - distinct)
    if not seed_matters:
        for off in ALT_SEED_OFFSETS:
            col.outcome("nonvacuity_fallback_seeds_used")
            alt = _run_in(name, sid, s0 + off, net_seed, P_A)
            _note_run(col, alt, seen)
            if _diff(A[s0], alt):
                seed_matters = True
                break
    if not seed_matters:
        col.outcome("items_where_seed_has_no_influence")
        col.append("vacuous_items", item["name"])
    for s in item["seeds"]:
        if name in HISTORY:
            with D.perturbed(**P_B):
                D.run_digest(name, sid, s + 77, net_seed, alt_bounds=True)  # process history: another training, other bounds
            col.outcome("pairs_with_a_different_training_run_in_between")
        with D.perturbed(**P_B):
            D._other_flavours()  # and buffers / bandits of the other flavours are built and used (every routine)
        b = _run_in(name, sid, s, net_seed, P_B)
        a = A[s]
        _note_run(col, a, seen)
        _note_run(col, b, seen)
        complete = not a["meta"]["error"] and not b["meta"]["error"]
        nontrivial = complete and bool(a["meta"]["learned"]) and seed_matters
        col.tick(1, (name, sid, s, "inproc:glob101/clock0-vs-glob202/clock+1e6") if nontrivial else None)
        if not complete:
            col.outcome("pairs_with_a_run_that_did_not_complete")
            col.append("incomplete_runs", dict(item=item["name"], seed=s, a=a["meta"]["error"], b=b["meta"]["error"]))
        d = _diff(a, b)
        if not d:
            col.outcome("inprocess_pairs_equal")
            continue
        kinds, info = attribute_inproc(name, sid, s, net_seed)
        _report(col, name, kinds, dict(routine=name, script=sid, seed=s, net_seed=net_seed, pair="in-process", components_that_differ=d,
                                       attribution=info, perturbation_a=P_A, perturbation_b=P_B, meta_a=a["meta"], meta_b=b["meta"]))
    col.sample(dict(item=item["name"], seed=s0, digest_parts=A[s0]["parts"], meta=A[s0]["meta"]))


# -- cross-interpreter pairs ----------------------------------------------------------------------------


def attribute_cross(job, hs_other, pert_other):
    """Delta-debug a difference between interpreter 0 and interpreter `hs_other`: one source at a time, virtual clock."""
    p0 = CROSS[0][1]
    base = run_sub([job], "0", dict(p0, vclock=True))["results"]
    again = run_sub([job], "0", dict(p0, vclock=True))["results"]
    k = D.job_key(*job)
    kinds, info = [], {}
    if _diff(base[k], again[k]):
        return [K_REPEAT], {K_REPEAT: _diff(base[k], again[k])}
    if D.VARIANTS.get(job[0], job[0]) in D.POLLUTABLE:
        hp = run_sub([job], "0", dict(p0, vclock=True, pollute=True))["results"]
        if _diff(base[k], hp[k]):
            return [K_HISTORY], {K_HISTORY: _diff(base[k], hp[k])}
    h = run_sub([job], hs_other, dict(p0, vclock=True))["results"]
    if _diff(base[k], h[k]):
        kinds.append(K_HASH)
        info[K_HASH] = _diff(base[k], h[k])
    g = run_sub([job], "0", dict(glob=pert_other["glob"], shift=p0["shift"], vclock=True))["results"]
    if _diff(base[k], g[k]):
        kinds.append(K_GLOB)
        info[K_GLOB] = _diff(base[k], g[k])
    c = run_sub([job], "0", dict(glob=p0["glob"], shift=pert_other["shift"], vclock=True))["results"]
    if _diff(base[k], c[k]):
        kinds.append(K_CLOCK)
        info[K_CLOCK] = _diff(base[k], c[k])
    if not kinds:
        kinds.append(K_UNATTR)
    return kinds, info


def work_cross(item, col):
    jobs = item["jobs"]
    runs = []
    for i, (hs, pert) in enumerate(CROSS[: item["nhash"]]):
        # every second interpreter executes a different training run (other action bounds) before each job
        runs.append((hs, pert, run_sub(jobs, hs, dict(pert, pollute=bool(i % 2)))))
        if i % 2:
            col.outcome("interpreters_with_a_different_training_run_before_each_job")
    col.outcome("interpreters_started", len(runs))
    o0 = runs[0][2]["info"]["probe_orders"]
    for _hs, _p, out in runs[1:]:
        o1 = out["info"]["probe_orders"]
        col.outcome("probe_string_sets_compared_between_interpreters", len(o0))
        col.outcome("probe_string_sets_iterated_in_a_different_order", sum(a != b for a, b in zip(o0, o1)))
    seen = set()
    base = runs[0][2]["results"]
    for job in jobs:
        k = D.job_key(*job)
        name, sid, s, net_seed = job
        a = base[k]
        _note_run(col, a, seen)
        for hs, pert, out in runs[1:]:
            b = out["results"][k]
            _note_run(col, b, seen)
            complete = not a["meta"]["error"] and not b["meta"]["error"]
            nontrivial = complete and bool(a["meta"]["learned"])
            col.tick(1, (name, sid, s, f"cross:hash0-vs-hash{hs}") if nontrivial else None)
            col.outcome("cross_interpreter_pairs")
            if not complete:
                col.outcome("pairs_with_a_run_that_did_not_complete")
                col.append("incomplete_runs", dict(item=item["name"], job=k, a=a["meta"]["error"], b=b["meta"]["error"]))
            d = _diff(a, b)
            if not d:
                col.outcome("cross_interpreter_pairs_equal")
                continue
            kinds, info = attribute_cross(job, hs, pert)
            _report(col, name, kinds, dict(routine=name, script=sid, seed=s, net_seed=net_seed, pair=f"PYTHONHASHSEED 0 vs {hs}",
                                           components_that_differ=d, attribution=info, perturbation_a=CROSS[0][1], perturbation_b=pert,
                                           meta_a=a["meta"], meta_b=b["meta"]))
            break  # one report per job
    k0 = D.job_key(*jobs[0])
    col.sample(dict(item=item["name"], job=k0, digest_parts=base[k0]["parts"], meta=base[k0]["meta"],
                    interpreters=[dict(hashseed=hs, perturbation=p, string_hash_probe=o["info"]["hash_probe"]) for hs, p, o in runs]))
    # non-vacuity inside the cross item (thorough: several seeds per job list)
    by_rs = {}
    for job in jobs:
        by_rs.setdefault((job[0], job[1]), []).append(json.dumps(base[D.job_key(*job)]["parts"], sort_keys=True))
    for (n, sid), ds in by_rs.items():
        if len(ds) > 1:
            col.outcome("seed_pairs_compared_for_nonvacuity", len(ds) - 1)
            col.outcome("different_seed_changes_digest", len(set(ds)) - 1)
            col.outcome("different_seed_same_digest", len(ds) - len(set(ds)))


def work(item, col):
    if item["kind"] == "inproc":
        work_inproc(item, col)
    else:
        work_cross(item, col)
