"""C05 - each update routine changes only the component it trains (engine E3, snapshot differencing).

For every routine of the table in DESIGN Appendix B.1 a small "world" is built with the repo's own
constructors: every module and optimizer the routine receives plus the bystanders the training loop
keeps next to them (targets, the other actor/critic, fixed embeddings, entropy coefficient).  Each
component is snapshotted (bytes of every nnx.Variable + the static graph definition) before and after
ONE real call; the documented-trained components may change, everything else must be bytes-equal,
and a trained component whose reference gradient (nnx.grad of the same loss, taken before the call)
is representably non-zero must change.  Read-only calls (losses, gradients, acting) must change nothing.
"""

import itertools

from vlib import c05_loops
from collections import namedtuple
from functools import partial

import jax
import jax.numpy as jnp
import numpy as np
import optax
from flax import nnx

from rl_blox.algorithm import a2c as A2C
from rl_blox.algorithm import actor_critic as AC
from rl_blox.algorithm import ddpg as DDPG
from rl_blox.algorithm import mrq as MRQ
from rl_blox.algorithm import pets as PETS
from rl_blox.algorithm import ppo as PPO
from rl_blox.algorithm import reinforce as RF
from rl_blox.algorithm import sac as SAC
from rl_blox.algorithm import td3 as TD3
from rl_blox.algorithm import td7 as TD7
from rl_blox.algorithm.dqn import train_step_with_loss
from rl_blox.blox import losses as L
from rl_blox.blox import probabilistic_ensemble as PE
from rl_blox.blox import q_policy, value_policy
from rl_blox.blox.embedding import model_based_encoder as MBE
from rl_blox.blox.embedding import sale as SALE
from rl_blox.blox.embedding import task_embedding as TE
from rl_blox.blox.function_approximator.mlp import MLP
from rl_blox.blox.function_approximator.policy_head import SoftmaxPolicy
from rl_blox.blox.gae import compute_gae
from vlib.senv import ScriptEnv

PROPERTY = "C05"
LEVEL = "exploration"
USES_JAX = True
CLEAR_EVERY = 12
RECYCLE_AFTER = 40
BUDGET_S = {"quick": 600, "thorough": 3600}
RULE = (
    "full product routine x batch size N x termination pattern in {0,1}^N (or {0,1}^(N*H) for MR.Q) x reward "
    "vector x parameter set (init seed, scale) x optimizer kind (SGD 0.1 / Adam 0.1) x call mode, each on a "
    "FRESH set of modules; one evaluation = one (call, component) before/after snapshot comparison (bytes of "
    "every nnx.Variable + static graph definition) or one pairwise Variable-sharing test; non-trivial = the "
    "component is handed to the call (it can be reached by a wrong argnums / wrong optimizer target) - "
    "bystanders that are only kept next to it are trivial; distinct = distinct (entry point, component, N, "
    "pattern, reward index, parameter set, optimizer, mode)"
)
ASSUMPTIONS = [
    "the trained set per routine is the table DESIGN Appendix B.1 (restated from the docstrings), not read from the code",
    "'non-zero gradient' is decided by nnx.grad of the routine's own documented loss taken on the same inputs before the call; "
    "the obligation 'trained component changes' is asserted only when some element has 1e-3 <= |g| <= 1e6 and |theta| <= 1e2 "
    "(then the element-wise SGD(0.1)/Adam(0.1) step is representable in float32 and Adam's squared gradient cannot overflow); "
    "other non-zero gradients are counted, not judged",
    "optimizers are harness-owned nnx.Optimizer(module, sgd(0.1)|adam(0.1), wrt=nnx.Param) on the repo-constructed modules "
    "(create_*_state with 1 hidden layer of 3 units; thorough adds [2,2]); EntropyControl keeps its own class, only its optax "
    "transformation is replaced",
    "jax arrays are immutable, so batches cannot change; numpy inputs (tables, ensemble data) are compared by bytes",
    "sac_update_actor receives the entropy coefficient as an array value, so it has no handle on the coefficient module; "
    "the coefficient module/optimizer are still snapshotted as bystanders",
    "GaussianPolicy actors are not used for update_ppo/ppo_loss (GaussianPolicy.entropy is broken, reported under C13)",
]

SIG = "C05|{}|{}"
# failure kinds (fixed vocabulary; <role> is a component name of the fixed world tables below)
K_CHANGED = "changed-untrained:{}"
K_UNCHANGED = "trained-unchanged:{}"
K_STATIC = "static-attribute-changed:{}"
K_SHARED = "variable-shared:{}+{}"

G_MIN = 1e-3
G_MAX = 1e6  # Adam squares the gradient in float32: |g| > 1.8e19 overflows its second moment and the step becomes 0
P_MAX = 1e2
GAMMA = 0.9

TXS = {"sgd": optax.sgd(0.1), "adam": optax.adam(0.1)}  # shared objects -> nnx.jit cache hits across worlds

ENV_C = ScriptEnv("c")  # Box(2) observations, Box low=(-1,0) high=(2,3) actions
ENV_D = ScriptEnv("c", discrete=True)  # Discrete(2) actions
ENV_P = ScriptEnv("c", low=(-1.0,), high=(2.0,))  # Box(1) actions for PETS


# ---------------------------------------------------------------------------------------------
# snapshots


class Sub:
    """A part of a module (leaves whose path starts with one of `prefixes`)."""

    def __init__(self, module, prefixes, with_graph=False):
        self.module, self.prefixes, self.with_graph = module, tuple(prefixes), with_graph

    def keep(self, path):
        return path.startswith(self.prefixes)


class Val:
    """Plain (non-nnx) state: a zero-argument getter returning a pytree of arrays / scalars."""

    def __init__(self, get):
        self.get = get


def _leaves(tree):
    out = {}
    for path, leaf in jax.tree_util.tree_leaves_with_path(tree):
        a = np.asarray(leaf)
        out[jax.tree_util.keystr(path)] = (str(a.dtype), a.shape, a.tobytes())
    return out


def fsnap(obj):
    """(leaves: path -> (dtype, shape, bytes), static graph definition or None)."""
    if isinstance(obj, Val):
        return _leaves(obj.get()), None
    if isinstance(obj, Sub):
        gd, st = nnx.split(obj.module)
        lv = {k: v for k, v in _leaves(st).items() if obj.keep(k)}
        return lv, (gd if obj.with_graph else None)
    if isinstance(obj, np.ndarray):
        return {"": (str(obj.dtype), obj.shape, obj.tobytes())}, None
    gd, st = nnx.split(obj)
    return _leaves(st), gd


def snap_world(comps):
    jax.effects_barrier()
    return {k: fsnap(v) for k, v in comps.items()}


def leaf_diff(b, a):
    out = []
    for k in b:
        if k not in a:
            out.append((k, "removed"))
        elif b[k] != a[k]:
            d = None
            x, y = np.frombuffer(b[k][2], dtype=b[k][0]), np.frombuffer(a[k][2], dtype=a[k][0])
            if x.shape == y.shape and x.dtype.kind == "f":
                d = float(np.max(np.abs(x.astype(np.float64) - y.astype(np.float64))))
            out.append((k, d))
    for k in a:
        if k not in b:
            out.append((k, "added"))
    return out


def module_of(obj):
    return obj.module if isinstance(obj, Sub) else obj


def variables(obj):
    return [v for _, v in nnx.iter_graph(obj) if isinstance(v, nnx.Variable)]


# ---------------------------------------------------------------------------------------------
# reference gradients


def flat_grads(state, obj=None):
    out = {}
    for path, leaf in jax.tree_util.tree_leaves_with_path(state):
        k = jax.tree_util.keystr(path)
        if isinstance(obj, Sub) and not obj.keep(k):
            continue
        out[k] = np.asarray(leaf, dtype=np.float64)
    return out


def flat_params(obj):
    return flat_grads(nnx.state(module_of(obj), nnx.Param), obj)


def grad_class(g, p):
    """'repr' (some element G_MIN<=|g|<=G_MAX with |theta|<=P_MAX), 'zero' (all exactly 0) or 'tiny' (anything else)."""
    gmax = 0.0
    rep = False
    for k, gv in g.items():
        if gv.size == 0:
            continue
        gmax = max(gmax, float(np.max(np.abs(gv))))
        pv = p.get(k)
        if pv is not None and pv.shape == gv.shape:
            rep = rep or bool(np.any((np.abs(gv) >= G_MIN) & (np.abs(gv) <= G_MAX) & (np.abs(pv) <= P_MAX)))
    if rep:
        return "repr", gmax
    return ("zero" if gmax == 0.0 else "tiny"), gmax


_REF = {}


def refgrad(name, fn, mods, data):
    """nnx.grad of fn(*mods, data) w.r.t. every module in `mods` (jitted once per name)."""
    if name not in _REF:
        _REF[name] = nnx.jit(nnx.grad(fn, argnums=tuple(range(len(mods)))))
    g = _REF[name](*mods, data)
    return g if isinstance(g, tuple) else (g,)


# ---------------------------------------------------------------------------------------------
# op description


class Op:
    def __init__(self, entry, call, comps, part, trained=(), allowed=(), ref=None):
        self.entry = entry
        self.call = call  # zero-argument closure around ONE real call
        self.comps = comps  # role -> object (everything that is snapshotted)
        self.part = set(part)  # roles handed to the call
        self.trained = tuple(trained)  # roles that must change when the gradient is representable
        self.allowed = set(allowed) | set(trained)  # roles that may change
        self.ref = ref  # zero-arg closure -> {role: grads State} for differentiable participants


def run_op(col, op, casekey, detail):
    grads = op.ref() if op.ref is not None else {}
    cls = {}
    for role, g in grads.items():
        obj = op.comps[role]
        cls[role] = grad_class(flat_grads(g, obj), flat_params(obj))
    before = snap_world(op.comps)
    op.call()
    after = snap_world(op.comps)
    changed = []
    for role in op.comps:
        (bl, bg), (al, ag) = before[role], after[role]
        ch = bl != al
        if ch:
            changed.append(role)
        col.tick(1, (op.entry, role) + casekey if role in op.part else None)
        if bg is not None and bg != ag:
            col.violation(SIG.format(op.entry, K_STATIC.format(role)), dict(detail, role=role))
        if role in op.trained:
            c, gmax = cls.get(role, ("repr", None))
            if c == "repr":
                col.outcome("trained_component_obligations(representable_gradient)")
                if not ch:
                    col.violation(SIG.format(op.entry, K_UNCHANGED.format(role)), dict(detail, role=role, max_abs_reference_gradient=gmax))
            elif c == "zero":
                col.outcome("trained_component_exactly_zero_gradient(no_obligation)")
                if ch:
                    col.outcome("trained_component_changed_despite_zero_gradient(informational)")
            else:
                col.outcome("trained_component_gradient_below_representable_threshold(no_obligation)")
        elif role not in op.allowed:
            if ch:
                col.violation(
                    SIG.format(op.entry, K_CHANGED.format(role)),
                    dict(detail, role=role, leaves=leaf_diff(bl, al)[:6], trained=list(op.trained)),
                )
            if role in op.part:
                col.outcome("untrained_participant_comparisons")
                if cls.get(role, ("zero", 0.0))[1]:
                    # the loss has a non-zero gradient w.r.t. this component: a wrong argnums / optimizer target WOULD move it
                    col.outcome("untrained_participant_with_nonzero_loss_gradient")
            else:
                col.outcome("bystander_comparisons")
    kind = "update" if op.trained else "readonly"
    col.outcome(f"{kind}_calls")
    col.outcome(f"calls[{op.entry}]")
    col.sample(dict(entry=op.entry, case=detail, changed=changed, gradient_class={r: c[0] for r, c in cls.items()}))
    return changed


def check_aliases(col, entry, comps, casekey, trained):
    """No nnx.Variable object may be shared between a trained component and any other component."""
    ids = {}
    for r, o in comps.items():
        if isinstance(o, (Val, np.ndarray)):
            continue
        name = r.split(".")[0] if isinstance(o, Sub) else r  # the parts of one module are one component here
        ids[name] = {id(v) for v in variables(module_of(o))}
    for a, b in itertools.combinations(sorted(ids), 2):
        if a not in trained and b not in trained:
            continue  # two components that no routine trains (e.g. two targets) are outside the property
        col.tick(1, ("alias", entry, a, b) + casekey)
        col.outcome("variable_sharing_pairs_tested")
        if ids[a] & ids[b]:
            col.violation(SIG.format(entry, K_SHARED.format(a, b)), dict(n_shared=len(ids[a] & ids[b])))


# ---------------------------------------------------------------------------------------------
# value alphabets


def f32(x):
    return jnp.asarray(np.asarray(x, dtype=np.float32))


def data_for(N, seed, low=(-1.0, 0.0), high=(2.0, 3.0)):
    rng = np.random.default_rng(7919 * N + seed)  # builds the value alphabet only
    low, high = np.asarray(low), np.asarray(high)
    d = {}
    d["obs"] = rng.normal(size=(N, 2)).round(3)
    d["nobs"] = rng.normal(size=(N, 2)).round(3)
    d["act"] = (low + (high - low) * rng.uniform(size=(N, len(low)))).round(3)
    d["nact"] = (low + (high - low) * rng.uniform(size=(N, len(low)))).round(3)
    d["aint"] = np.arange(N) % 2 if seed % 2 == 0 else (np.arange(N) + 1) % 2
    return d


def rewards(N, seed, tier):
    base = np.array([1.0, -1.0, 2.0, 0.5, -2.0])[:N] + 0.25 * (seed % 4)
    out = [base, np.zeros(N)]
    if tier == "thorough":
        out.append(100.0 * base)
    return out


def patterns(n):
    return list(itertools.product([0, 1], repeat=n))


def scale_params(module, s):
    if s == 1.0:
        return
    st = nnx.state(module, nnx.Param)
    nnx.update(module, jax.tree.map(lambda x: x * s, st))


MT_TASKS = 3
MT_ROW_NORMS = (0.5, 1.0, 3.0)  # max_task_embedding_norm is 1.0: inside the ball, on it, outside it (where an optimizer step may leave a row)


def mt_prepare(module, case):
    """Multi-task network: select a task, THEN give the task-embedding rows norms inside / on / outside the max-norm ball
    (the documented renormalisation happens on select_task; between two selections every row value is a legal parameter value)."""
    t = (case["seed"] + case["r"] + sum(case["pat"])) % MT_TASKS
    module.select_task(t)
    emb = np.asarray(module._task_embedding.embedding.value, dtype=np.float64)
    n = np.linalg.norm(emb, axis=1, keepdims=True)
    want = np.asarray([MT_ROW_NORMS[(i + t) % 3] for i in range(emb.shape[0])])[:, None]
    module._task_embedding.embedding.value = jnp.asarray((emb / np.maximum(n, 1e-6) * want).astype(np.float32))
    return t


def opt_for(module, optk):
    return nnx.Optimizer(module, TXS[optk], wrt=nnx.Param)


_PROTO = {}


def protos(key, builder):
    """Modules exactly as the repo's constructor returns them (built once per work item), and fresh clones of them."""
    if key not in _PROTO:
        _PROTO[key] = builder()
    return {k: nnx.clone(v) for k, v in _PROTO[key].items() if not k.startswith("_")}


_JIT_STEP = {}


def jit_step(loss):
    """train_step exactly as the training loops build it."""
    if loss not in _JIT_STEP:
        _JIT_STEP[loss] = partial(nnx.jit, static_argnames=("gamma",))(partial(train_step_with_loss, loss))
    return _JIT_STEP[loss]


_SAMPLERS = {}


def sampler(kind, space_id):
    key = (kind, space_id)
    if key not in _SAMPLERS:
        space = {"c": ENV_C, "p": ENV_P}[space_id].action_space
        if kind == "explore":
            _SAMPLERS[key] = DDPG.make_sample_actions(space, 0.2)
        else:
            _SAMPLERS[key] = TD3.make_sample_target_actions(space, 0.2, 0.5)
    return _SAMPLERS[key]


KEY = lambda seed, i=0: jax.random.key(1000 * seed + i)  # noqa: E731


# ---------------------------------------------------------------------------------------------
# families: each returns (comps, readonly_ops(list of names), update_ops(list of names), make(name) -> Op)
# `case` is the JSON-able description of one input: dict(N, pat, r, seed, mode)


def case_batch(case, discrete=False):
    d = data_for(case["N"], case["seed"])
    r = rewards(case["N"], case["seed"], "thorough")[case["r"]]
    term = np.asarray(case["pat"], dtype=np.int32)
    act = jnp.asarray(d["aint"]) if discrete else f32(d["act"])
    return d, (f32(d["obs"]), act, f32(r), f32(d["nobs"]), jnp.asarray(term))


# ---- DQN family ------------------------------------------------------------------------------


def fam_dqn(ps, optk, hid, case):
    s, sc = ps
    mt = bool(case.get("mt"))
    if mt:
        net = lambda seed: TE.MTMLPQNetwork(MT_TASKS, 2, 2, 2, list(hid), "relu", nnx.Rngs(seed))  # noqa: E731
    else:
        net = lambda seed: MLP(2, 2, list(hid), "relu", nnx.Rngs(seed))  # noqa: E731
    pr = protos(("dqn", s, tuple(hid), mt), lambda: dict(q=net(s), qt=net(s + 10)))
    q, qt = pr["q"], pr["qt"]
    for m in (q, qt):
        scale_params(m, sc)
        if mt:
            mt_prepare(m, case)
    qo = opt_for(q, optk)
    comps = dict(q=q, q_optimizer=qo, q_target=qt)
    d, batch = case_batch(case, discrete=True)
    isr = f32(np.linspace(0.5, 1.0, case["N"]))
    losses = {
        "dqn_loss": (L.dqn_loss, lambda: (batch, GAMMA), ["q"]),
        "nature_dqn_loss": (L.nature_dqn_loss, lambda: (qt, batch, GAMMA), ["q", "q_target"]),
        "ddqn_loss": (L.ddqn_loss, lambda: (qt, batch, GAMMA), ["q", "q_target"]),
        "ddqn_per_loss": (L.ddqn_per_loss, lambda: (qt, batch, GAMMA, isr), ["q", "q_target"]),
    }

    def make(name):
        if name.startswith("update:"):
            ln = name[7:]
            loss, args, part = losses[ln]
            step = jit_step(loss) if case["mode"] == "jit" else partial(train_step_with_loss, loss)

            def ref():
                # the obligation "a non-zero gradient moves the network" is decided by a harness-written TD regression
                # (any squared / Huber TD loss has a non-zero gradient exactly when this one has); the repository's own loss
                # only reports the gradient w.r.t. the target for the at-risk counter
                use_t = "q_target" in part

                def td_fn(q_, qt_, dat):
                    o, a_, r, no, t = dat
                    boot = jnp.max(jax.lax.stop_gradient((qt_ if use_t else q_)(no)), axis=-1)
                    y = r + GAMMA * (1 - t) * boot
                    return jnp.mean((jnp.take_along_axis(q_(o), a_[:, None].astype(jnp.int32), axis=1)[:, 0] - jax.lax.stop_gradient(y)) ** 2)

                out = dict(q=refgrad("dqn:harness-td" + str(use_t), td_fn, (q, qt), batch)[0])
                if "q_target" in part:
                    fn = lambda q_, qt_, dat: loss(q_, qt_, *dat)[0]  # noqa: E731
                    out["q_target"] = refgrad("dqn:" + ln, fn, (q, qt), args()[1:])[1]
                return out

            return Op(f"train_step_with_loss[{ln}]", lambda: step(qo, q, *args()), comps, part + ["q_optimizer"],
                      trained=["q"], allowed=["q_optimizer"], ref=ref)
        if name in losses:
            loss, args, part = losses[name]
            return Op(name, lambda: loss(q, *args()), comps, part)
        if name == "mse_discrete_action_value_loss":
            return Op(name, lambda: L.mse_discrete_action_value_loss(batch[0], batch[1], batch[2], q), comps, ["q"])
        if name == "q_policy.greedy_policy":
            return Op(name, lambda: [q_policy.greedy_policy(q, o) for o in np.asarray(batch[0])], comps, ["q"])
        raise KeyError(name)

    return comps, make, "MTMLPQNetwork" if mt else "MLP"


# ---- DDPG / TD3 / TD3+LAP ---------------------------------------------------------------------


def fam_ddpg(ps, optk, hid, case):
    s, sc = ps
    def mk():
        st = DDPG.create_ddpg_state(ENV_C, policy_hidden_nodes=list(hid), q_hidden_nodes=list(hid), seed=s)
        tt = DDPG.create_ddpg_state(ENV_C, policy_hidden_nodes=list(hid), q_hidden_nodes=list(hid), seed=s + 10)
        return dict(policy=st.policy, q=st.q, pt=tt.policy, qt=tt.q, _policy_optimizer=st.policy_optimizer, _q_optimizer=st.q_optimizer)

    pr = protos(("ddpg", s, tuple(hid)), mk)
    policy, q, pt, qt = pr["policy"], pr["q"], pr["pt"], pr["qt"]
    for m in (policy, q, pt, qt):
        scale_params(m, sc)
    po, qo = opt_for(policy, optk), opt_for(q, optk)
    comps = dict(policy=policy, policy_optimizer=po, q=q, q_optimizer=qo, policy_target=pt, q_target=qt)
    d, batch = case_batch(case)
    obs = batch[0]

    def make(name):
        if name == "update:critic":
            step = jit_step(L.ddpg_loss) if case["mode"] == "jit" else partial(train_step_with_loss, L.ddpg_loss)

            def ref():
                fn = lambda q_, qt_, pt_, dat: L.ddpg_loss(q_, qt_, pt_, dat, GAMMA)[0]  # noqa: E731
                g = refgrad("ddpg:critic", fn, (q, qt, pt), batch)
                return dict(q=g[0], q_target=g[1], policy_target=g[2])

            return Op("train_step_with_loss[ddpg_loss]", lambda: step(qo, q, qt, pt, batch, GAMMA), comps,
                      ["q", "q_optimizer", "q_target", "policy_target"], trained=["q"], allowed=["q_optimizer"], ref=ref)
        if name == "update:actor":
            def ref():
                fn = lambda p_, q_, o: L.deterministic_policy_gradient_loss(q_, o, p_)  # noqa: E731
                g = refgrad("ddpg:actor", fn, (policy, q), obs)
                return dict(policy=g[0], q=g[1])

            return Op("ddpg_update_actor", lambda: DDPG.ddpg_update_actor(policy, po, q, obs), comps,
                      ["policy", "policy_optimizer", "q"], trained=["policy"], allowed=["policy_optimizer"], ref=ref)
        if name == "ddpg_loss":
            return Op(name, lambda: L.ddpg_loss(q, qt, pt, batch, GAMMA), comps, ["q", "q_target", "policy_target"])
        if name == "deterministic_policy_gradient_loss":
            return Op(name, lambda: L.deterministic_policy_gradient_loss(q, obs, policy), comps, ["q", "policy"])
        if name == "mse_continuous_action_value_loss":
            return Op(name, lambda: L.mse_continuous_action_value_loss(obs, batch[1], batch[2], q), comps, ["q"])
        if name == "sample_actions":
            low, high = ENV_C.action_space.low, ENV_C.action_space.high
            def call():
                sampler("explore", "c")(policy, obs[0], KEY(case["seed"]))
                DDPG.sample_actions(low, high, 0.5 * (high - low), 0.2, policy, obs, KEY(case["seed"], 1))
            return Op(name, call, comps, ["policy"])
        if name == "DeterministicTanhPolicy.__call__":
            return Op(name, lambda: policy(obs), comps, ["policy"])
        raise KeyError(name)

    return comps, make, "create_ddpg_state"


def fam_td3(ps, optk, hid, case):
    s, sc = ps
    def mk():
        st = TD3.create_td3_state(ENV_C, policy_hidden_nodes=list(hid), q_hidden_nodes=list(hid), seed=s)
        tt = TD3.create_td3_state(ENV_C, policy_hidden_nodes=list(hid), q_hidden_nodes=list(hid), seed=s + 10)
        return dict(policy=st.policy, q=st.q, pt=tt.policy, qt=tt.q, _policy_optimizer=st.policy_optimizer, _q_optimizer=st.q_optimizer)

    pr = protos(("td3", s, tuple(hid)), mk)
    policy, q, pt, qt = pr["policy"], pr["q"], pr["pt"], pr["qt"]
    for m in (policy, q, pt, qt):
        scale_params(m, sc)
    po, qo = opt_for(policy, optk), opt_for(q, optk)
    comps = dict(policy=policy, policy_optimizer=po, q=q, q_optimizer=qo, policy_target=pt, q_target=qt)
    d, batch = case_batch(case)
    obs, nact = batch[0], f32(d["nact"])

    def make(name):
        if name in ("update:critic", "update:critic_lap"):
            lap = name.endswith("lap")
            loss = L.td3_lap_loss if lap else L.td3_loss
            extra = (1.0,) if lap else ()
            step = jit_step(loss) if case["mode"] == "jit" else partial(train_step_with_loss, loss)

            def ref():
                fn = lambda q_, qt_, dat: loss(q_, qt_, dat[0], dat[1], GAMMA, *extra)[0]  # noqa: E731
                g = refgrad("td3:" + name, fn, (q, qt), (nact, batch))
                return dict(q=g[0], q_target=g[1])

            return Op(f"train_step_with_loss[{loss.__name__}]", lambda: step(qo, q, qt, nact, batch, GAMMA, *extra), comps,
                      ["q", "q_optimizer", "q_target"], trained=["q"], allowed=["q_optimizer"], ref=ref)
        if name == "update:actor":
            def ref():
                fn = lambda p_, q_, o: L.deterministic_policy_gradient_loss(q_, o, p_)  # noqa: E731
                g = refgrad("td3:actor", fn, (policy, q), obs)
                return dict(policy=g[0], q=g[1])

            return Op("ddpg_update_actor", lambda: DDPG.ddpg_update_actor(policy, po, q, obs), comps,
                      ["policy", "policy_optimizer", "q"], trained=["policy"], allowed=["policy_optimizer"], ref=ref)
        if name == "td3_loss":
            return Op(name, lambda: L.td3_loss(q, qt, nact, batch, GAMMA), comps, ["q", "q_target"])
        if name == "td3_lap_loss":
            return Op(name, lambda: L.td3_lap_loss(q, qt, nact, batch, GAMMA, 1.0), comps, ["q", "q_target"])
        if name == "sample_target_actions":
            low, high = ENV_C.action_space.low, ENV_C.action_space.high
            def call():
                sampler("target", "c")(pt, batch[3], KEY(case["seed"]))
                TD3.sample_target_actions(low, high, 0.5 * (high - low), 0.2, 0.5, pt, batch[3], KEY(case["seed"], 1))
            return Op(name, call, comps, ["policy_target"])
        raise KeyError(name)

    return comps, make, "create_td3_state"


# ---- SAC --------------------------------------------------------------------------------------


def fam_sac(ps, optk, hid, case):
    s, sc = ps
    def mk():
        st = SAC.create_sac_state(ENV_C, policy_hidden_nodes=list(hid), q_hidden_nodes=list(hid), seed=s)
        tt = SAC.create_sac_state(ENV_C, policy_hidden_nodes=list(hid), q_hidden_nodes=list(hid), seed=s + 10)
        return dict(policy=st.policy, q=st.q, qt=tt.q, _policy_optimizer=st.policy_optimizer, _q_optimizer=st.q_optimizer)

    pr = protos(("sac", s, tuple(hid)), mk)
    policy, q, qt = pr["policy"], pr["q"], pr["qt"]
    for m in (policy, q, qt):
        scale_params(m, sc)
    po, qo = opt_for(policy, optk), opt_for(q, optk)
    ec = SAC.EntropyControl(ENV_C, 0.2, True, 0.1)
    ec._alpha.log_alpha.value = jnp.asarray([np.float32(np.log(0.2) + 0.1 * (s % 5))])
    ec.alpha_ = ec._alpha()
    ec.optimizer = opt_for(ec._alpha, optk)
    ec_fixed = SAC.EntropyControl(ENV_C, 0.2, False, 0.1)
    comps = dict(
        policy=policy, policy_optimizer=po, q=q, q_optimizer=qo, q_target=qt,
        entropy_coefficient=ec._alpha, entropy_optimizer=ec.optimizer,
        entropy_control_fields=Val(lambda: dict(alpha_=ec.alpha_, target=ec.target_entropy, autotune=ec.autotune,
                                                fixed_alpha=ec_fixed.alpha_, fixed_target=ec_fixed.target_entropy)),
    )
    d, batch = case_batch(case)
    obs = batch[0]
    k0, k1, k2 = KEY(case["seed"]), KEY(case["seed"], 1), KEY(case["seed"], 2)

    def make(name):
        if name == "update:critic":
            step = jit_step(L.sac_loss) if case["mode"] == "jit" else partial(train_step_with_loss, L.sac_loss)

            def ref():
                fn = lambda q_, qt_, p_, dat: L.sac_loss(q_, qt_, p_, dat[0], dat[1], dat[2], GAMMA)[0]  # noqa: E731
                g = refgrad("sac:critic", fn, (q, qt, policy), (k0, ec.alpha_, batch))
                return dict(q=g[0], q_target=g[1], policy=g[2])

            return Op("train_step_with_loss[sac_loss]", lambda: step(qo, q, qt, policy, k0, ec.alpha_, batch, GAMMA), comps,
                      ["q", "q_optimizer", "q_target", "policy"], trained=["q"], allowed=["q_optimizer"], ref=ref)
        if name == "update:actor":
            def ref():
                fn = lambda p_, q_, dat: SAC.sac_actor_loss(p_, q_, dat[0], dat[1], dat[2])  # noqa: E731
                g = refgrad("sac:actor", fn, (policy, q), (ec.alpha_, k1, obs))
                return dict(policy=g[0], q=g[1])

            return Op("sac_update_actor", lambda: SAC.sac_update_actor(policy, po, q, k1, obs, ec.alpha_), comps,
                      ["policy", "policy_optimizer", "q"], trained=["policy"], allowed=["policy_optimizer"], ref=ref)
        if name.startswith("update:alpha"):
            if "@" in name:  # temperature far from its initial value: every log-temperature is a legal parameter value
                ec._alpha.log_alpha.value = jnp.asarray([np.float32(float(name.split("@")[1]))])
                ec.alpha_ = ec._alpha()

            def ref():
                fn = lambda a_, p_, dat: SAC.sac_exploration_loss(p_, ec.target_entropy, dat[0], dat[1], a_)  # noqa: E731
                g = refgrad("sac:alpha", fn, (ec._alpha, policy), (k2, obs))
                return dict(entropy_coefficient=g[0], policy=g[1])

            return Op("EntropyControl.update", lambda: ec.update(policy, obs, k2), comps,
                      ["entropy_coefficient", "entropy_optimizer", "entropy_control_fields", "policy"],
                      trained=["entropy_coefficient"], allowed=["entropy_optimizer", "entropy_control_fields"], ref=ref)
        if name == "EntropyControl.update[autotune=False]":
            return Op(name, lambda: ec_fixed.update(policy, obs, k2), comps, ["policy", "entropy_control_fields"])
        if name == "sac_loss":
            return Op(name, lambda: L.sac_loss(q, qt, policy, k0, ec.alpha_, batch, GAMMA), comps, ["q", "q_target", "policy"])
        if name == "sac_actor_loss":
            return Op(name, lambda: SAC.sac_actor_loss(policy, q, ec.alpha_, k1, obs), comps, ["policy", "q"])
        if name == "sac_exploration_loss":
            return Op(name, lambda: SAC.sac_exploration_loss(policy, ec.target_entropy, k2, obs, ec._alpha), comps,
                      ["policy", "entropy_coefficient"])
        if name == "GaussianTanhPolicy.sample":
            return Op(name, lambda: (policy.sample(obs, k0), policy.sample(obs[0], k1)), comps, ["policy"])
        raise KeyError(name)

    return comps, make, "create_sac_state"


# ---- TD7 --------------------------------------------------------------------------------------


def _td7_state(seed, hid):
    return TD7.create_td7_state(
        ENV_C, n_embedding_dimensions=3, state_embedding_hidden_nodes=list(hid), state_action_embedding_hidden_nodes=list(hid),
        policy_sa_encoding_nodes=3, policy_hidden_nodes=list(hid), q_sa_encoding_nodes=3, q_hidden_nodes=list(hid), seed=seed)


def fam_td7(ps, optk, hid, case):
    s, sc = ps
    def mk():
        a, b, c = _td7_state(s, hid), _td7_state(s + 10, hid), _td7_state(s + 20, hid)
        return dict(embedding=a.embedding, actor=a.actor, critic=a.critic, fixed=b.embedding, actor_t=b.actor, critic_t=b.critic,
                    fixed_t=c.embedding, _embedding_optimizer=a.embedding_optimizer, _actor_optimizer=a.actor_optimizer,
                    _critic_optimizer=a.critic_optimizer)

    pr = protos(("td7", s, tuple(hid)), mk)
    embedding, actor, critic = pr["embedding"], pr["actor"], pr["critic"]
    fixed, actor_t, critic_t, fixed_t = pr["fixed"], pr["actor_t"], pr["critic_t"], pr["fixed_t"]
    for m in (embedding, actor, critic, fixed, actor_t, critic_t, fixed_t):
        scale_params(m, sc)
    eo, ao, co = opt_for(embedding, optk), opt_for(actor, optk), opt_for(critic, optk)
    policy = SALE.DeterministicSALEPolicy(fixed, actor)
    comps = dict(embedding=embedding, embedding_optimizer=eo, actor=actor, actor_optimizer=ao, critic=critic, critic_optimizer=co,
                 fixed_embedding=fixed, fixed_embedding_target=fixed_t, actor_target=actor_t, critic_target=critic_t)
    d, batch = case_batch(case)
    obs, act, rew, nobs, term = batch
    nact = f32(d["nact"])
    qlim = (-1e6, 1e6) if case["r"] != 1 else (-0.05, 0.05)

    def make(name):
        if name == "update:sale":
            def ref():
                fn = lambda e_, dat: SALE.state_action_embedding_loss(e_, *dat)  # noqa: E731
                return dict(embedding=refgrad("td7:sale", fn, (embedding,), (obs, act, nobs))[0])

            parts = {"embedding.state_embedding": Sub(embedding, ["['_state_embedding']"]),
                     "embedding.state_action_embedding": Sub(embedding, ["['state_action_embedding']"])} if sc == 1.0 else {}
            return Op("update_sale", lambda: SALE.update_sale(embedding, eo, obs, act, nobs), dict(comps, **parts),
                      ["embedding", "embedding_optimizer"], trained=["embedding"] + sorted(parts), allowed=["embedding_optimizer"], ref=ref)
        if name == "update:critic":
            def ref():
                def fn(c_, f_, ft_, ct_, dat):
                    o, a_, no, na, r, t = dat
                    zsa, zs = f_(o, a_)
                    nzsa, nzs = ft_(no, na)
                    qn = jnp.clip(ct_(jnp.concatenate((no, na), -1), zsa=nzsa, zs=nzs).squeeze(), qlim[0], qlim[1])
                    y = jax.lax.stop_gradient(r + (1 - t) * GAMMA * qn)
                    # harness-written regression of both heads (the repository's own loss helper cannot vouch for its gradient)
                    sa = jnp.concatenate((o, a_), -1)
                    q1 = c_.q1(sa, zsa=zsa, zs=zs).squeeze()
                    q2 = c_.q2(sa, zsa=zsa, zs=zs).squeeze()
                    return jnp.mean((q1 - y) ** 2 + (q2 - y) ** 2)

                g = refgrad("td7:critic" + str(qlim[1]), fn, (critic, fixed, fixed_t, critic_t), (obs, act, nobs, nact, rew, term))
                # gradients w.r.t. the fixed embeddings / target are reported for the at-risk counter only
                return dict(critic=g[0], fixed_embedding=g[1], fixed_embedding_target=g[2], critic_target=g[3])

            return Op("td7_update_critic",
                      lambda: TD7.td7_update_critic(fixed, fixed_t, critic, critic_t, co, GAMMA, obs, act, nobs, nact, rew, term,
                                                    1.0, qlim[0], qlim[1]),
                      comps, ["critic", "critic_optimizer", "fixed_embedding", "fixed_embedding_target", "critic_target"],
                      trained=["critic"], allowed=["critic_optimizer"], ref=ref)
        if name == "update:actor":
            def ref():
                fn = lambda a_, e_, c_, o: TD7.deterministic_policy_gradient_loss_sale(e_, c_, o, a_)  # noqa: E731
                g = refgrad("td7:actor", fn, (actor, fixed, critic), obs)
                return dict(actor=g[0], fixed_embedding=g[1], critic=g[2])

            return Op("td7_update_actor", lambda: TD7.td7_update_actor(policy, ao, critic, obs), comps,
                      ["actor", "actor_optimizer", "fixed_embedding", "critic"], trained=["actor"], allowed=["actor_optimizer"], ref=ref)
        if name == "state_action_embedding_loss":
            return Op(name, lambda: SALE.state_action_embedding_loss(embedding, obs, act, nobs), comps, ["embedding"])
        if name == "deterministic_policy_gradient_loss_sale":
            return Op(name, lambda: TD7.deterministic_policy_gradient_loss_sale(fixed, critic, obs, actor), comps,
                      ["fixed_embedding", "critic", "actor"])
        if name == "DeterministicSALEPolicy.__call__":
            def call():
                policy(obs)
                sampler("explore", "c")(policy, obs[0], KEY(case["seed"]))
            return Op(name, call, comps, ["fixed_embedding", "actor"])
        raise KeyError(name)

    return comps, make, "create_td7_state"


# ---- MR.Q -------------------------------------------------------------------------------------

B6 = namedtuple("Batch", ["observation", "action", "reward", "next_observation", "terminated", "truncated"])


def _mrq_state(seed, hid, mt=False):
    if mt:
        return TE.create_mt_mrq_state(ENV_C, MT_TASKS, task_embedding_dim=2, policy_hidden_nodes=list(hid), q_hidden_nodes=list(hid),
                                      encoder_n_bins=5, encoder_zs_dim=3, encoder_za_dim=2, encoder_zsa_dim=3,
                                      encoder_hidden_nodes=list(hid), seed=seed)
    return MRQ.create_mrq_state(ENV_C, policy_hidden_nodes=list(hid), q_hidden_nodes=list(hid), encoder_n_bins=5, encoder_zs_dim=3,
                                encoder_za_dim=2, encoder_zsa_dim=3, encoder_hidden_nodes=list(hid), seed=seed)


def fam_mrq(ps, optk, hid, case):
    s, sc = ps
    mt = bool(case.get("mt"))

    def mk():
        a, b = _mrq_state(s, hid, mt), _mrq_state(s + 10, hid, mt)
        return dict(pwe=a.policy_with_encoder, q=a.q, pwe_t=b.policy_with_encoder, q_t=b.q, _encoder_optimizer=a.encoder_optimizer,
                    _policy_optimizer=a.policy_optimizer, _q_optimizer=a.q_optimizer, _bins=a.the_bins)

    pr = protos(("mrq", s, tuple(hid), mt), mk)
    pwe, pwe_t, q, q_t = pr["pwe"], pr["pwe_t"], pr["q"], pr["q_t"]
    enc, pol, enc_t, pol_t = pwe.encoder, pwe.policy, pwe_t.encoder, pwe_t.policy
    for m in (enc, pol, q, enc_t, pol_t, q_t):
        scale_params(m, sc)
    if mt:
        mt_prepare(enc, dict(case, pat=list(case["pat"])))
        mt_prepare(enc_t, dict(case, pat=list(case["pat"])))
    eo, po, qo = opt_for(enc, optk), opt_for(pol, optk), opt_for(q, optk)
    comps = dict(encoder=enc, encoder_optimizer=eo, policy=pol, policy_optimizer=po, q=q, q_optimizer=qo,
                 encoder_target=enc_t, policy_target=pol_t, q_target=q_t)
    N, H = case["N"], case["H"]
    d = data_for(N, case["seed"])
    r1 = rewards(N, case["seed"], "thorough")[case["r"]]
    R = np.stack([r1 * (1 + h) for h in range(H)], 1)
    T = np.asarray(case["pat"], dtype=np.int32).reshape(N, H)
    sb = B6(f32(d["obs"]), f32(d["act"]), f32(R), f32(d["nobs"]), jnp.asarray(T), jnp.zeros((N, H), dtype=jnp.int32))
    nact = f32(d["nact"])
    rs, trs = (1.0, 1.0) if case["seed"] % 2 == 0 else (2.0, 0.5)
    # encoder batches: target_delay=2 blocks of N sub-trajectories of length H
    rng = np.random.default_rng(31 * N + 7 * H + case["seed"])
    M = 2 * N
    eb = B6(f32(rng.normal(size=(M, H, 2)).round(3)), f32(rng.uniform(-1, 2, size=(M, H, 2)).round(3)),
            f32(np.tile(R, (2, 1))), f32(rng.normal(size=(M, H, 2)).round(3)), jnp.asarray(np.tile(T, (2, 1))),
            jnp.zeros((M, H), dtype=jnp.int32))
    terminates = bool(T.any())
    bins = _PROTO[("mrq", s, tuple(hid), mt)]["_bins"]

    def enc_loss(e_, et_, dat):
        one = jax.tree_util.tree_map(lambda x: x[:N], dat)  # the first of the target_delay blocks
        return MBE.model_based_encoder_loss(e_, et_, bins, one, H, 1.0, 0.1, 0.1, terminates, True)[0]

    def make(name):
        if name == "update:critic_and_policy":
            def ref():
                fn = lambda q_, qt_, e_, et_, dat: MRQ.mrq_loss(q_, qt_, e_, et_, dat[0], dat[1], GAMMA, dat[2], dat[3])[0]  # noqa: E731
                g = refgrad(f"mrq:critic{H}", fn, (q, q_t, enc, enc_t), (nact, sb, rs, trs))

                def pfn(p_, q_, e_, dat):
                    zs = jax.lax.stop_gradient(e_.encode_zs(dat))
                    return MRQ.mrq_policy_loss(p_, q_, e_, zs, 1e-5)[0]

                gp = refgrad("mrq:policy", pfn, (pol, q, enc), sb.observation)
                # the encoder takes part in the policy loss un-stopped: its gradient there is the at-risk one
                return dict(q=g[0], q_target=g[1], encoder=gp[2], encoder_target=g[3], policy=gp[0])

            return Op("update_critic_and_policy",
                      lambda: MRQ.update_critic_and_policy(q, q_t, qo, pol, po, enc, enc_t, GAMMA, 1e-5, nact, sb, rs, trs), comps,
                      ["q", "q_target", "q_optimizer", "policy", "policy_optimizer", "encoder", "encoder_target"],
                      trained=["q", "policy"], allowed=["q_optimizer", "policy_optimizer"], ref=ref)
        if name == "update:encoder":
            def ref():
                g = refgrad(f"mrq:enc{N}-{H}-{terminates}", enc_loss, (enc, enc_t), eb)
                return dict(encoder=g[0], encoder_target=g[1])

            # the representation update trains every part of the encoder (state encoder, action encoder, joint encoder, model
            # head): with generic parameters and data each part is obliged to move (no reference gradient: the repository's
            # loss cannot vouch for its own gradient paths)
            parts = {"encoder.state_encoder": Sub(enc, ["['zs']", "['zs_layer_norm']"]), "encoder.action_encoder": Sub(enc, ["['za']"]),
                     "encoder.joint_encoder": Sub(enc, ["['zsa']"]), "encoder.model_head": Sub(enc, ["['model']"])} if sc == 1.0 else {}
            return Op("update_model_based_encoder",
                      lambda: MBE.update_model_based_encoder(enc, enc_t, eo, bins, H, 1.0, 0.1, 0.1, 2, N, True, eb, terminates),
                      dict(comps, **parts), ["encoder", "encoder_target", "encoder_optimizer"], trained=["encoder"] + sorted(parts),
                      allowed=["encoder_optimizer"], ref=ref)
        if name == "mrq_loss":
            return Op(name, lambda: MRQ.mrq_loss(q, q_t, enc, enc_t, nact, sb, GAMMA, rs, trs), comps, ["q", "q_target", "encoder", "encoder_target"])
        if name == "mrq_policy_loss":
            return Op(name, lambda: MRQ.mrq_policy_loss(pol, q, enc, enc.encode_zs(sb.observation), 1e-5), comps, ["policy", "q", "encoder"])
        if name == "model_based_encoder_loss":
            one = jax.tree_util.tree_map(lambda x: x[:N], eb)
            if "mbe" not in _SAMPLERS:
                _SAMPLERS["mbe"] = nnx.jit(MBE.model_based_encoder_loss, static_argnums=(4, 5, 6, 7, 8, 9))

            def call():
                _SAMPLERS["mbe"](enc, enc_t, bins, one, H, 1.0, 0.1, 0.1, terminates, True)
                if case["r"] == 0 and sum(case["pat"]) in (0, N * H):  # the eager evaluation re-traces its scans (0.9 s): two patterns only
                    MBE.model_based_encoder_loss(enc, enc_t, bins, one, H, 1.0, 0.1, 0.1, terminates, True)

            return Op(name, call, comps, ["encoder", "encoder_target"])
        if name == "DeterministicPolicyWithEncoder.__call__":
            def call():
                pwe(sb.observation)
                sampler("explore", "c")(pwe, sb.observation[0], KEY(case["seed"]))
                sampler("target", "c")(pwe_t, sb.next_observation, KEY(case["seed"], 1))
            return Op(name, call, comps, ["encoder", "policy", "encoder_target", "policy_target"])
        raise KeyError(name)

    return comps, make, "create_mt_mrq_state" if mt else "create_mrq_state"


# ---- PPO --------------------------------------------------------------------------------------


def fam_ppo(ps, optk, hid, case):
    s, sc = ps
    pr = protos(("ppo", s, tuple(hid)), lambda: dict(actor=SoftmaxPolicy(MLP(2, 2, list(hid), "relu", nnx.Rngs(s))),
                                                     critic=MLP(2, 1, list(hid), "relu", nnx.Rngs(s + 1))))
    actor, critic = pr["actor"], pr["critic"]
    for m in (actor, critic):
        scale_params(m, sc)
    ao, co = opt_for(actor, optk), opt_for(critic, optk)
    comps = dict(actor=actor, critic=critic, optimizer_actor=ao, optimizer_critic=co)
    d, batch = case_batch(case, discrete=True)
    obs, act, rew, nobs, term = batch
    nv = f32(np.linspace(-0.5, 0.5, case["N"]) * (0.0 if case["r"] == 1 else 1.0))
    epochs = case.get("epochs", 1)

    def loss_inputs():
        advs, rets = compute_gae(rew, critic(obs).flatten(), nv, term)
        return actor.log_probability(obs, act), advs, rets

    def make(name):
        if name == "update:ppo":
            def ref():
                logp, advs, rets = loss_inputs()
                fn = lambda a_, c_, dat: PPO.ppo_loss(a_, c_, *dat)  # noqa: E731
                g = refgrad("ppo", fn, (actor, critic), (logp, obs, act, advs, rets))
                return dict(actor=g[0], critic=g[1])

            return Op("update_ppo", lambda: PPO.update_ppo(actor, critic, ao, co, obs, act, rew, term, nv, epochs), comps,
                      list(comps), trained=["actor", "critic"], allowed=["optimizer_actor", "optimizer_critic"], ref=ref)
        if name == "ppo_loss":
            def call():
                logp, advs, rets = loss_inputs()
                PPO.ppo_loss(actor, critic, logp, obs, act, advs, rets)
            return Op(name, call, comps, ["actor", "critic"])
        if name == "SoftmaxPolicy.sample":
            return Op(name, lambda: (actor.sample(obs, KEY(case["seed"])), actor.sample(obs[0], KEY(case["seed"], 1))), comps, ["actor"])
        raise KeyError(name)

    return comps, make, "MLP/SoftmaxPolicy"


# ---- REINFORCE / actor-critic / A2C ------------------------------------------------------------


def fam_pg(ps, optk, hid, case):
    s, sc = ps
    disc = case["space"] == "discrete"
    def mk():
        if disc:
            st = RF.create_policy_gradient_discrete_state(ENV_D, policy_hidden_nodes=list(hid), value_network_hidden_nodes=list(hid), seed=s)
        else:
            st = RF.create_policy_gradient_continuous_state(ENV_C, policy_hidden_nodes=list(hid), value_network_hidden_nodes=list(hid), seed=s)
        return dict(policy=st.policy, vf=st.value_function, _policy_optimizer=st.policy_optimizer,
                    _value_function_optimizer=st.value_function_optimizer)

    pr = protos(("pg", s, tuple(hid), disc), mk)
    policy, vf = pr["policy"], pr["vf"]
    for m in (policy, vf):
        scale_params(m, sc)
    po, vo = opt_for(policy, optk), opt_for(vf, optk)
    comps = dict(policy=policy, policy_optimizer=po, value_function=vf, value_function_optimizer=vo)
    N = case["N"]
    d = data_for(N, case["seed"])
    obs, nobs = f32(d["obs"]), f32(d["nobs"])
    act = jnp.asarray(d["aint"]) if disc else f32(d["act"])
    ret = f32(rewards(N, case["seed"], "thorough")[case["r"]] * case.get("rscale", 1.0))  # rscale: very small but non-constant returns / advantages
    gd = f32(GAMMA ** np.arange(N))
    steps = case.get("steps", 1)
    use_vf = case["pat"][0] == 1  # the "pattern" slot enumerates baseline on/off and the discount vector on/off
    use_gd = case["pat"][1] == 1
    tag = ("d" if disc else "c")

    def make(name):
        if name == "update:value":
            def ref():
                fn = lambda v_, dat: L.mse_value_loss(dat[0], dat[1], v_)  # noqa: E731
                return dict(value_function=refgrad("pg:value" + tag, fn, (vf,), (obs, ret))[0])

            return Op("train_value_function", lambda: RF.train_value_function(vf, vo, steps, obs, ret), comps,
                      ["value_function", "value_function_optimizer"], trained=["value_function"], allowed=["value_function_optimizer"], ref=ref)
        if name == "update:reinforce":
            v = vf if use_vf else None
            g_ = gd if use_gd else None

            def ref():
                def fn(p_, v_, dat):
                    base = v_(dat[0]).squeeze() if use_vf else jnp.zeros_like(dat[2])
                    w = dat[2] - base
                    if use_gd:
                        w = w * dat[3]
                    return L.stochastic_policy_gradient_pseudo_loss(dat[0], dat[1], w, p_)

                g = refgrad(f"pg:reinforce{tag}{use_vf}{use_gd}", fn, (policy, vf), (obs, act, ret, gd))
                return dict(policy=g[0], value_function=g[1])

            return Op("train_policy_reinforce", lambda: RF.train_policy_reinforce(policy, po, steps, v, obs, act, ret, g_), comps,
                      ["policy", "policy_optimizer"] + (["value_function"] if use_vf else []), trained=["policy"],
                      allowed=["policy_optimizer"], ref=ref)
        if name == "update:actor_critic":
            def ref():
                def fn(p_, v_, dat):
                    o, a_, no, r, g_ = dat
                    w = g_ * (r + GAMMA * v_(no).squeeze() - v_(o).squeeze())
                    return L.stochastic_policy_gradient_pseudo_loss(o, a_, w, p_)

                g = refgrad("pg:ac" + tag, fn, (policy, vf), (obs, act, nobs, ret, gd))
                return dict(policy=g[0], value_function=g[1])

            return Op("train_policy_actor_critic",
                      lambda: AC.train_policy_actor_critic(policy, po, steps, vf, obs, act, nobs, ret, gd, GAMMA), comps,
                      ["policy", "policy_optimizer", "value_function"], trained=["policy"], allowed=["policy_optimizer"], ref=ref)
        if name == "update:a2c":
            def ref():
                def fn(p_, dat):
                    adv = dat[2]
                    nadv = (adv - jnp.mean(adv)) / (jnp.std(adv) + 1e-8)
                    return L.stochastic_policy_gradient_pseudo_loss(dat[0], dat[1], nadv, p_)

                return dict(policy=refgrad("pg:a2c" + tag, fn, (policy,), (obs, act, ret))[0])

            return Op("train_policy_a2c", lambda: A2C.train_policy_a2c(policy, po, steps, obs, act, ret), comps,
                      ["policy", "policy_optimizer"], trained=["policy"], allowed=["policy_optimizer"], ref=ref)
        if name == "reinforce_gradient":
            return Op(name, lambda: RF.reinforce_gradient(policy, vf if use_vf else None, obs, act, ret, gd if use_gd else None), comps,
                      ["policy"] + (["value_function"] if use_vf else []))
        if name == "actor_critic_policy_gradient":
            return Op(name, lambda: AC.actor_critic_policy_gradient(policy, vf, obs, act, nobs, ret, gd, GAMMA), comps, ["policy", "value_function"])
        if name == "a2c_policy_gradient":
            return Op(name, lambda: A2C.a2c_policy_gradient(policy, obs, act, ret), comps, ["policy"])
        if name == "mse_value_loss":
            return Op(name, lambda: L.mse_value_loss(obs, ret, vf), comps, ["value_function"])
        if name == "stochastic_policy_gradient_pseudo_loss":
            return Op(name, lambda: L.stochastic_policy_gradient_pseudo_loss(obs, act, ret, policy), comps, ["policy"])
        if name == "policy.sample":
            return Op(type(policy).__name__ + ".sample", lambda: (policy.sample(obs, KEY(case["seed"])), policy.sample(obs[0], KEY(case["seed"], 1))),
                      comps, ["policy"])
        raise KeyError(name)

    return comps, make, "create_policy_gradient_%s_state" % ("discrete" if disc else "continuous")


# ---- PETS ensemble -----------------------------------------------------------------------------


def _reward_model(act, obs):
    return -(obs**2).sum(axis=-1) - 0.1 * (act**2).sum(axis=-1)


_MPC = {}


def mpc_parts():
    if "cfg" not in _MPC:
        space = ENV_P.action_space
        sample_fn, update_fn = PETS._init_mpc_optimizer_cem(space, 2, 10)
        cfg = PETS.PETSMPCConfig(
            plan_horizon=2, n_particles=2, n_samples=10, n_opt_iter=2, init_with_previous_plan=True, reward_model=_reward_model,
            action_space_shape=space.shape, avg_act=jnp.asarray(0.5 * (space.high + space.low)),
            init_var=jnp.array([(space.high - space.low) ** 2 / 16.0 for _ in range(2)]), sample_fn=sample_fn, update_fn=update_fn)
        _MPC["cfg"] = cfg
        _MPC["opt"] = nnx.jit(partial(PETS._pets_optimize, cfg))
    return _MPC["cfg"], _MPC["opt"]


def fam_pets(ps, optk, hid, case):
    s, sc = ps
    def mk():
        st = PETS.create_pets_state(ENV_P, seed=s, n_ensemble=2, hidden_nodes=tuple(hid))
        return dict(model=st.model, _optimizer=st.optimizer)

    model = protos(("pets", s, tuple(hid)), mk)["model"]
    scale_params(model, sc)
    opt = opt_for(model, optk)
    N = case["N"]
    rng = np.random.default_rng(53 * N + case["seed"])
    n = 2 * N
    X = rng.normal(size=(n, 3)).round(3).astype(np.float32)
    Y = (rng.normal(size=(n, 2)).round(3) * (0.0 if case["r"] == 1 else 1.0)).astype(np.float32)
    nb = 1 + case["pat"][0]  # number of mini-batches in the epoch
    idx = np.stack([np.stack([(np.arange(N) + e + b) % n for e in range(2)]) for b in range(nb)])  # (nb, 2, N)
    comps = {
        "model.members": Sub(model, ["['ensemble']"], with_graph=True),
        "model.log_var_bounds": Sub(model, ["['raw_min_log_var']", "['raw_max_log_var']"]),
        "optimizer": opt, "X": X, "Y": Y, "indices": idx,
    }
    Xj, Yj, ij = jnp.asarray(X), jnp.asarray(Y), jnp.asarray(idx)

    def make(name):
        if name == "update:epoch":
            def ref():
                fn = lambda m_, dat: PE.gaussian_ensemble_loss(m_, dat[0][dat[2]], dat[1][dat[2]])  # noqa: E731
                g = refgrad("pets:epoch", fn, (model,), (Xj, Yj, ij[0]))[0]
                return {"model.members": g, "model.log_var_bounds": g}

            return Op("train_epoch", lambda: PE.train_epoch(model, opt, X, Y, ij), comps, list(comps),
                      trained=["model.members", "model.log_var_bounds"], allowed=["optimizer"], ref=ref)
        if name == "gaussian_ensemble_loss":
            return Op(name, lambda: PE.gaussian_ensemble_loss(model, Xj[ij[0]], Yj[ij[0]]), comps, ["model.members", "model.log_var_bounds"])
        if name == "GaussianMLPEnsemble.aggregate":
            return Op(name, lambda: (model(Xj), model.aggregate(Xj)), comps, ["model.members", "model.log_var_bounds"])
        if name == "mpc_action":
            cfg, optimize = mpc_parts()
            state = PETS.PETSMPCState(dynamics_model=model, prev_plan=PETS.PETSMPCState.initial_plan(cfg), key=KEY(case["seed"]))
            def call():
                for o in X[:2, :2]:
                    PETS.mpc_action(cfg, state, optimize, o)
            return Op(name, call, comps, ["model.members", "model.log_var_bounds"])
        if name == "evaluate_plans":
            acts = rng.uniform(-1, 2, size=(3, 2, 1)).astype(np.float32)
            traj = rng.normal(size=(3, 2, 3, 2)).astype(np.float32)
            c2 = dict(comps, actions=acts, trajectories=traj)
            return Op(name, lambda: PETS.evaluate_plans(acts, traj, _reward_model), c2, ["actions", "trajectories"])
        raise KeyError(name)

    return comps, make, "create_pets_state"


# ---- tabular acting ----------------------------------------------------------------------------


def fam_tab(ps, optk, hid, case):
    s, sc = ps
    rng = np.random.default_rng(s)
    table = (rng.integers(-3, 4, size=(4, 2)) * sc).astype(np.float32)
    comps = dict(q_table=table)

    def make(name):
        if name == "value_policy.greedy_policy":
            return Op(name, lambda: [value_policy.greedy_policy(table, o) for o in range(4)], comps, ["q_table"])
        if name == "value_policy.epsilon_greedy_policy":
            return Op(name, lambda: [value_policy.epsilon_greedy_policy(table, o, e, KEY(case["seed"], o)) for o in range(4) for e in (0.0, 1.0)],
                      comps, ["q_table"])
        raise KeyError(name)

    return comps, make, None


FAMS = dict(dqn=fam_dqn, ddpg=fam_ddpg, td3=fam_td3, sac=fam_sac, td7=fam_td7, mrq=fam_mrq, ppo=fam_ppo, pg=fam_pg, pets=fam_pets,
            tab=fam_tab)
FAMS["dqn_mt"] = lambda ps, optk, hid, case: fam_dqn(ps, optk, hid, dict(case, mt=True))
FAMS["mrq_mt"] = lambda ps, optk, hid, case: fam_mrq(ps, optk, hid, dict(case, mt=True))
_DQN_LOSSES = ["dqn_loss", "nature_dqn_loss", "ddqn_loss", "ddqn_per_loss"]
UPDATES = dict(
    dqn=["update:" + k for k in _DQN_LOSSES],
    ddpg=["update:critic", "update:actor"],
    td3=["update:critic", "update:critic_lap", "update:actor"],
    sac=["update:critic", "update:actor", "update:alpha", "update:alpha@-5", "update:alpha@2", "update:alpha@-9", "update:alpha@4"],
    td7=["update:sale", "update:critic", "update:actor"],
    mrq=["update:critic_and_policy", "update:encoder"],
    ppo=["update:ppo"],
    pg=["update:value", "update:reinforce", "update:actor_critic", "update:a2c"],
    pets=["update:epoch"],
    tab=[],
)
READONLY = dict(
    dqn=_DQN_LOSSES + ["mse_discrete_action_value_loss", "q_policy.greedy_policy"],
    ddpg=["ddpg_loss", "deterministic_policy_gradient_loss", "mse_continuous_action_value_loss", "sample_actions",
          "DeterministicTanhPolicy.__call__"],
    td3=["td3_loss", "td3_lap_loss", "sample_target_actions"],
    sac=["sac_loss", "sac_actor_loss", "sac_exploration_loss", "GaussianTanhPolicy.sample", "EntropyControl.update[autotune=False]"],
    td7=["state_action_embedding_loss", "deterministic_policy_gradient_loss_sale", "DeterministicSALEPolicy.__call__"],
    mrq=["mrq_loss", "mrq_policy_loss", "model_based_encoder_loss", "DeterministicPolicyWithEncoder.__call__"],
    ppo=["ppo_loss", "SoftmaxPolicy.sample"],
    pg=["reinforce_gradient", "actor_critic_policy_gradient", "a2c_policy_gradient", "mse_value_loss",
        "stochastic_policy_gradient_pseudo_loss", "policy.sample"],
    pets=["gaussian_ensemble_loss", "GaussianMLPEnsemble.aggregate", "mpc_action", "evaluate_plans"],
    tab=["value_policy.greedy_policy", "value_policy.epsilon_greedy_policy"],
)
# components (world roles and prototype names) that some routine of the family trains
TRAINED_ANY = dict(
    dqn={"q"}, ddpg={"policy", "q"}, td3={"policy", "q"}, sac={"policy", "q", "entropy_coefficient"},
    td7={"embedding", "actor", "critic"}, mrq={"encoder", "policy", "q", "pwe"}, ppo={"actor", "critic"},
    pg={"policy", "vf", "value_function"}, pets={"model"}, tab=set(),
)
# updates that go through the un-decorated train_step_with_loss are explored jitted (as the loops ship it) and eager
EAGER_UPDATES = dict(dqn=UPDATES["dqn"], ddpg=["update:critic"], td3=["update:critic", "update:critic_lap"], sac=["update:critic"])
for _f in ("dqn", "mrq"):  # the same routines on multi-task networks
    UPDATES[_f + "_mt"], READONLY[_f + "_mt"], TRAINED_ANY[_f + "_mt"] = UPDATES[_f], READONLY[_f], TRAINED_ANY[_f]
EAGER_UPDATES["dqn_mt"] = EAGER_UPDATES["dqn"]


# ---------------------------------------------------------------------------------------------
# enumeration


def cases_for(fam, N, tier, seed):
    nr = 2 if tier == "quick" else 3
    if fam == "dqn":
        nr = 3  # the x100 reward vector too (every |TD error| far above 1)
    out = []
    if fam.endswith("_mt"):
        return cases_for(fam[:-3], N, tier, seed)
    if fam in ("dqn", "ddpg", "td3", "sac", "td7", "ppo"):
        for pat, r in itertools.product(patterns(N), range(nr)):
            out.append(dict(N=N, pat=list(pat), r=r, seed=seed))
    elif fam == "mrq":
        hs = [1, 2] if (N <= 2 or tier == "thorough") else [1]
        for H in hs:
            if N * H > 6:
                continue
            # the 64 patterns of N=3, H=2 are crossed with one reward vector only
            for pat, r in itertools.product(patterns(N * H), range(nr if N * H <= 4 else 1)):
                out.append(dict(N=N, H=H, pat=list(pat), r=r, seed=seed))
    elif fam == "pg":
        for space, pat, r in itertools.product(["discrete", "continuous"], patterns(2), range(nr)):
            out.append(dict(N=N, space=space, pat=list(pat), r=r, seed=seed))
        for space in ["discrete", "continuous"]:
            for r in range(nr):
                out.append(dict(N=N, space=space, pat=[1, 1], r=r, seed=seed, rscale=1e-7))
        if tier == "thorough":
            for space in ["discrete", "continuous"]:
                out.append(dict(N=N, space=space, pat=[1, 1], r=0, seed=seed, steps=2))
    elif fam == "pets":
        for pat, r in itertools.product(patterns(1), range(2)):
            out.append(dict(N=N, pat=list(pat), r=r, seed=seed))
    elif fam == "tab":
        out.append(dict(N=N, pat=[], r=0, seed=seed))
    if fam == "ppo":
        # several epochs per call (the shipped default is 1): every epoch must reach critic and optimizers too
        out += [dict(c, epochs=2) for c in (out if tier == "thorough" else out[:2]) if c["r"] == 0]
    return out


def items(tier, seed):
    return _items(tier, seed) + c05_loops.items(tier, seed)


def _items(tier, seed):
    s0 = 3 * seed
    pss = [[s0, 1.0], [s0 + 1, 1.0], [s0, 0.0]]
    Ns = [2, 3]
    hids = [[3]]
    if tier == "thorough":
        pss += [[s0 + 2, 1.0], [s0, 1000.0]]
        Ns = [2, 3, 4]
        hids = [[3], [2, 2]]
    out = []
    for fam in FAMS:
        for N, optk, hid in itertools.product(Ns, ["sgd", "adam"], hids):
            if fam == "tab" and (optk != "sgd" or N != 2 or hid != [3]):
                continue
            if fam.endswith("_mt") and (N != 2 or hid != [3]):
                continue
            if hid != [3] and (N != 3 or fam == "tab"):
                continue  # the second network shape is crossed with one batch size only
            modes = ["jit", "eager"] if fam in EAGER_UPDATES else ["jit"]
            for mode in modes:
                if mode == "eager" and (optk != "sgd" or (tier == "quick" and N != 2)):
                    continue
                for pi, ps in enumerate(pss):
                    if mode == "eager" and pi > 0:
                        continue
                    out.append(dict(name=f"{fam}-N{N}-{optk}-h{'x'.join(map(str, hid))}-{mode}-ps{pi}", fam=fam, N=N, opt=optk, hid=hid,
                                    mode=mode, ps=ps, tier=tier, seed=seed))
    # longest items first (pool balance only; the set of items is unchanged)
    cost = dict(mrq=0, mrq_mt=0, pg=1, td7=2, sac=3, td3=4, ddpg=5, dqn=6, dqn_mt=6, pets=7, ppo=8, tab=9)
    out.sort(key=lambda i: (cost[i["fam"]], -i["N"], i["opt"] != "sgd", i["name"]))
    return out


def work(item, col):
    if str(item.get("kind", "")).startswith("loop"):
        return c05_loops.work(item, col)
    fam, N, optk, hid, ps, mode = item["fam"], item["N"], item["opt"], item["hid"], item["ps"], item["mode"]
    build = FAMS[fam]
    _PROTO.clear()
    seen = set()
    for case in cases_for(fam, N, item["tier"], item["seed"]):
        case = dict(case, mode=mode)
        casekey = (N, tuple(case["pat"]), case["r"], case.get("H", 0), case.get("space", ""), case.get("steps", 1),
                   case.get("epochs", 1), tuple(ps), optk, tuple(hid), mode, case.get("rscale", 1.0))
        detail = dict(case=case, ps=ps, opt=optk, hid=hid)
        if mode == "jit" and (case.get("space", "") not in seen or optk == "sgd"):
            comps, make, creator = build(ps, optk, hid, case)
            if creator and case.get("space", "") not in seen:
                for pk, pv in _PROTO.items():  # what the repo's constructor returned (modules and its own optimizers) ...
                    if pk not in seen:
                        check_aliases(col, creator, {k.lstrip("_"): v for k, v in pv.items() if isinstance(v, nnx.Pytree)},
                                      (tuple(ps), optk, tuple(hid), "proto") + tuple(map(str, pk)), TRAINED_ANY[fam])
                        seen.add(pk)
                check_aliases(col, creator, comps, (tuple(ps), optk, tuple(hid), fam), TRAINED_ANY[fam])  # ... and the world the calls run on
            seen.add(case.get("space", ""))
            # read-only calls do not depend on the optimizer kind / call mode: explored in the sgd+jit items only
            for name in READONLY[fam] if optk == "sgd" else []:
                if run_op(col, make(name), casekey, detail):
                    comps, make, creator = build(ps, optk, hid, case)  # keep later calls on a clean world
        for name in UPDATES[fam] if mode == "jit" else EAGER_UPDATES[fam]:
            comps, make, creator = build(ps, optk, hid, case)  # fresh modules for every update call
            run_op(col, make(name), casekey, detail)
