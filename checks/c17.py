"""C17 - PETS model: ensemble consistency, bootstraps and plan evaluation (E3, exploration).

Sections (work-item kinds), every one a complete Cartesian product of small finite alphabets judged against float64
numpy references that share no code with rl-blox:

  ens   GaussianMLPEnsemble: __call__ / aggregate / base_predict / base_distribution on the same inputs
  nll   gaussian_nll against the Gaussian log-density closed form
  boot  bootstrap + train_ensemble with the module-level names `bootstrap` and `train_epoch` wrapped so that the
        bootstrap matrix and every index tensor handed to the epoch trainer are captured
  iso   train_epoch (one batch): member i's parameter update is a function of its own index row only
  plan  evaluate_plans (direct and through mpc_action) and ts_inf
  pend  pendulum_reward against gymnasium's real Pendulum-v1 (state set by hand)
"""

import itertools
import math
from collections import Counter
from functools import partial

import numpy as np

from vlib.num import close

PROPERTY = "C17"
LEVEL = "exploration"
USES_JAX = True
CLEAR_EVERY = 12
RULE = (
    "ens: (members x outputs x features x shared-head x init[ x hidden layout]) x log-variance-head bias pattern x "
    "raw bound pattern (6 uniform (raw_min, raw_max) pairs from {-20,0}x{-20,0,20} + 3 (quick) / 6 (thorough) per-output rotations) x "
    "input kind (vector, batch 1/2/3, per-member batch) x member x {joint call, aggregate, base_predict, "
    "base_distribution}; non-trivial = members > 1 or outputs > 1 (slice / per-output structure can go wrong); "
    "distinct = distinct (architecture, bias, bounds, input kind, member, method). "
    "nll: shapes (N, D) and (E, N, D) x uniform (mean, log-var, target) triples x every single-element deviation; "
    "non-trivial = more than one element. boot: members x data size x train fraction x batch size x epochs x key; one "
    "evaluation = one (epoch, member) multiset comparison; non-trivial = at least one batch and either another member's "
    "row would not cover the used indices or the member's own row has repeated draws. iso: every index tensor "
    "(1, members, batch) over the row alphabet x every perturbed data row x member. plan: (samples x particles x "
    "horizon x action dim x obs dim x reward model) for evaluate_plans, non-trivial = result differs from the "
    "axis-swapped / shifted alternatives; (members x obs dim x samples x particles x horizon x every member assignment "
    "to particles) for ts_inf. pend: angle x velocity x torque grid, every point distinct; non-trivial = all. "
    "One evaluation = one oracle comparison of one returned array."
)
ASSUMPTIONS = [
    "flax nnx.Linear computes x @ kernel + bias and stacked ensemble parameters carry the member axis first (used only "
    "by the float64 reference forward pass)",
    "'soft bounds' = [min_log_var, max_log_var + log1p(exp(-(max_log_var - min_log_var)))] with the model's own public "
    "min_log_var / max_log_var properties, plus 1e-5 float32 slack; raw bound parameters restricted to "
    "{-20,0} x {-20,0,20} per output so that min < max",
    "the joint forward pass of a single vector x is the joint pass of the one-row batch x[None] (the joint __call__ "
    "rejects 1-D input loudly, which is accepted)",
    "'variance of the member means' is the population variance (equal-weight mixture, law of total variance)",
    "gaussian_nll closed form = element-wise mean of -log N(y; mu, exp(log_var)) minus the documented constant "
    "0.5*log(2*pi)",
    "'used at most once per epoch' = within one epoch no index is used by a member more often than it was drawn into "
    "that member's bootstrap sample (bootstrap samples are drawn with replacement)",
    "member isolation in train_epoch is only claimed for single-batch epochs: the learned log-variance bounds are "
    "shared parameters, so from the second batch on members are coupled through them by design",
    "ts_inf: the per-step noise is mean + std * eps with eps independent of the variance parameters (any "
    "reparameterised Gaussian sampler); near-deterministic roll-outs use std = exp(-10) and a tolerance of 2e-3 per step",
    "Pendulum reward tolerance 1e-3 * max(1, |r|) (float32 arccos near +-1); angular velocities within the "
    "environment's observation range [-8, 8]",
    "tanh activations, hidden layouts [3] (quick) and [3], [4,3] (thorough); inputs from a 9-value grid in [-2, 2]",
]
BUDGET_S = {"quick": 3600, "thorough": 14400}  # generous: the wall-clock guard must not trip on a loaded machine
SIG = "C17|{}|{}"

# failure-kind vocabulary (fixed)
K_RAISES = "raises"
K_MSHAPE = "mean-shape"
K_VSHAPE = "not-one-variance-per-output"
K_MSLICE = "mean-differs-from-joint-slice"
K_VSLICE = "variance-differs-from-joint-slice"
K_MREF = "mean-differs-from-member-forward"
K_NONFIN = "log-variance-not-finite"
K_BOUNDS = "log-variance-outside-soft-bounds"
K_AGGM = "aggregate-mean-not-mean-of-member-means"
K_AGGV = "aggregate-variance-not-total-variance"
K_NLL = "value-not-closed-form"
K_BSHAPE = "bootstrap-shape"
K_BRANGE = "bootstrap-index-out-of-range"
K_BSAME = "members-share-one-bootstrap-sample"
K_ISHAPE = "index-tensor-shape"
K_NOTOWN = "index-outside-own-bootstrap-sample"
K_REUSE = "index-used-more-often-than-drawn"
K_FOREIGN = "member-update-depends-on-foreign-row"
K_IGNORE = "member-update-ignores-own-row"
K_PLAN = "value-not-particle-mean-of-summed-rewards"
K_PSHAPE = "output-shape"
K_WIRE = "plan-evaluation-not-fed-the-sampled-plans-and-trajectories"
K_TSHAPE = "trajectory-shape"
K_TSTART = "trajectory-does-not-start-at-observation"
K_TMEMBER = "trajectory-not-propagated-through-the-particles-member"
K_TNOISE = "noise-scale-not-the-members-per-output-std"
K_PEND = "reward-differs-from-environment"
K_PENDROLL = "summed-reward-differs-from-environment-return"

E_CALL = "GaussianMLPEnsemble.__call__"
E_AGG = "GaussianMLPEnsemble.aggregate"
E_BP = "GaussianMLPEnsemble.base_predict"
E_BD = "GaussianMLPEnsemble.base_distribution"

BOUND_PAIRS = [list(p) for p in itertools.product([-20.0, 0.0], [-20.0, 0.0, 20.0])]  # (raw_min, raw_max)


# ------------------------------------------------------------------------------------------------
# enumeration
# ------------------------------------------------------------------------------------------------


def items(tier, seed):
    quick = tier == "quick"
    out = []
    # -- ens
    # "bigmean": member means near +300 (disagreeing by ~1e-2) with log-variance near -6 - a variance that is tiny
    # relative to the squared mean (cancellation-prone formulations of the aggregate variance fail here)
    # "p1e9" / "m1e9": raw log-variances so large that a formulation which adds and subtracts them cancels in float32
    biases = ["zero", "p50", "m50", "mix", "bigmean", "p1e9", "m1e9"] if quick else ["zero", "p50", "m50", "mix", "bigmean", "p1e4", "m1e4", "p1e9", "m1e9"]
    kinds = ["vec", "b1", "b2", "b3", "mb2"] if quick else ["vec", "b1", "b2", "b3", "mb1", "mb2", "mb3"]
    hiddens = [[3]] if quick else [[3], [4, 3]]
    inits = [0] if quick else [0, 1]
    for ne, no, nf, sh in itertools.product([1, 2, 3], [1, 2, 3], [1, 2], [True, False]):
        for hid, init, bias in itertools.product(hiddens, inits, biases):
            if quick and nf == 2 and bias in ("p50", "m50", "p1e9", "m1e9"):
                continue  # quick: the uniform extreme biases only with one input feature
            out.append(
                dict(
                    name=f"ens-E{ne}-O{no}-F{nf}-{'shared' if sh else 'split'}-H{'x'.join(map(str, hid))}-i{init}-{bias}",
                    sec="ens", ne=ne, no=no, nf=nf, shared=sh, hidden=hid, init=init, bias=bias, kinds=kinds,
                    rotations=3 if quick else 6, seed=seed,
                )
            )
    # -- nll
    shapes = [[n, d] for n in (1, 2, 3) for d in (1, 2, 3)] + [[2, 2, 2], [3, 1, 2]]
    if not quick:
        shapes += [[4, 3], [2, 3, 3], [1, 1, 1]]
    for shp in shapes:
        out.append(dict(name="nll-" + "x".join(map(str, shp)), sec="nll", shape=shp, seed=seed))
    # -- boot
    sizes = list(range(2, 8)) if quick else list(range(1, 10))
    fracs = [0.5, 0.7, 1.0]
    members = [2, 3] if quick else [1, 2, 3]
    for ne, n, fr in itertools.product(members, sizes, fracs):
        out.append(
            dict(
                name=f"boot-E{ne}-n{n}-f{fr}", sec="boot", ne=ne, n=n, fracs=[fr],
                batches=[1, 2, 3] if quick else [1, 2, 3, 4], epochs=[1, 2], keys=3 if quick else 5, seed=seed,
            )
        )
    out.append(dict(name="boot-distinct-rows", sec="bootrows", keys=4 if quick else 16, seed=seed))
    # -- iso
    iso = [(2, 1, 3), (3, 1, 3), (2, 2, 3)] if quick else [(2, 1, 3), (3, 1, 3), (2, 2, 3), (2, 1, 4), (3, 2, 2), (2, 3, 2)]
    for ne, bs, n in iso:
        for sh, first in itertools.product((True, False), range(n)):
            out.append(
                dict(name=f"iso-E{ne}-b{bs}-n{n}-{'shared' if sh else 'split'}-first{first}", sec="iso", ne=ne, bs=bs, n=n, shared=sh, first=first, seed=seed)
            )
    # -- plan
    out.append(dict(name="plan-evaluate", sec="planeval", S=[1, 2, 3], P=[1, 2, 3], H=[1, 2, 3], A=[1, 2], O=[1, 2] if quick else [1, 2, 3], seed=seed))
    for ne, nobs in itertools.product([2, 3], [1, 2] if quick else [1, 2, 3]):
        for S, H in itertools.product([1, 2], [1, 2] if quick else [1, 2, 3]):
            out.append(dict(name=f"plan-tsinf-E{ne}-O{nobs}-S{S}-H{H}", sec="tsinf", ne=ne, nobs=nobs, S=S, H=H, P=[1, 2, 3], seed=seed))
    for P, H in itertools.product([1, 2, 3], [1, 2]):
        if quick and (P, H) not in ((2, 2), (3, 1)):
            continue
        out.append(dict(name=f"plan-mpc-P{P}-H{H}", sec="mpc", P=P, H=H, seed=seed))
    # -- pend
    out.append(dict(name="pend-grid", sec="pend", extended=not quick, seed=seed))
    out.append(dict(name="pend-rollout", sec="pendroll", seed=seed))
    # long items first (load balance), the many uniform ens items last
    order = {"tsinf": 0, "mpc": 1, "boot": 2, "iso": 3, "planeval": 4, "pend": 5, "pendroll": 6, "bootrows": 7, "nll": 8, "ens": 9}
    out.sort(key=lambda it: order[it["sec"]])  # stable: keeps the enumeration order inside a section
    return out


def work(item, col):
    {
        "ens": work_ens, "nll": work_nll, "boot": work_boot, "bootrows": work_bootrows, "iso": work_iso,
        "planeval": work_planeval, "tsinf": work_tsinf, "mpc": work_mpc, "pend": work_pend, "pendroll": work_pendroll,
    }[item["sec"]](item, col)


# ------------------------------------------------------------------------------------------------
# shared pieces
# ------------------------------------------------------------------------------------------------


def grid(seed, *idx):
    """Deterministic input value from a 9-point grid in [-2, 2]."""
    k = seed
    for j, v in enumerate(idx):
        k += (2 * j + 3) * (v + 1) * (j + 1)
    return ((k % 9) - 4) * 0.5


def new_ensemble(ne, shared, nf, no, hidden, rng_seed):
    from flax import nnx
    import rl_blox.blox.probabilistic_ensemble as pe

    return pe.GaussianMLPEnsemble(ne, shared, nf, no, list(hidden), "tanh", nnx.Rngs(rng_seed))


def logvar_bias_layer(model):
    """(layer, column slice) holding the log-variance head bias of the stacked ensemble."""
    ens = model.ensemble
    no = model.n_outputs
    if ens.shared_head:
        return ens.output_layers[0], slice(no, 2 * no)
    return ens.output_layers[1], slice(0, no)


def set_logvar_bias(model, add):
    """add: array (n_ensemble, n_outputs) added to the log-variance head bias."""
    import jax.numpy as jnp

    layer, sl = logvar_bias_layer(model)
    b = np.array(layer.bias.value)
    b[:, sl] = b[:, sl] + np.asarray(add, dtype=np.float32)
    layer.bias.value = jnp.asarray(b)


def set_bounds(model, raw_min, raw_max):
    import jax.numpy as jnp

    model.raw_min_log_var.value = jnp.asarray(raw_min, dtype=jnp.float32)
    model.raw_max_log_var.value = jnp.asarray(raw_max, dtype=jnp.float32)


def ref_forward(model, x64, i):
    """float64 forward pass of member i (tanh MLP): returns (mean, raw log-variance)."""
    ens = model.ensemble
    no = model.n_outputs
    h = np.asarray(x64, dtype=np.float64)
    for layer in ens.hidden_layers:
        K = np.asarray(layer.kernel.value, dtype=np.float64)[i]
        b = np.asarray(layer.bias.value, dtype=np.float64)[i]
        h = np.tanh(h @ K + b)
    outs = []
    for layer in ens.output_layers:
        K = np.asarray(layer.kernel.value, dtype=np.float64)[i]
        b = np.asarray(layer.bias.value, dtype=np.float64)[i]
        outs.append(h @ K + b)
    if ens.shared_head:
        return outs[0][..., :no], outs[0][..., no:]
    return outs[0], outs[1]


def bounds64(model):
    mn = np.asarray(model.min_log_var, dtype=np.float64)
    mx = np.asarray(model.max_log_var, dtype=np.float64)
    return mn, mx, np.log1p(np.exp(-(mx - mn)))


def logvar_close(a, b):
    a = np.asarray(a, dtype=np.float64)
    b = np.asarray(b, dtype=np.float64)
    return a.shape == b.shape and bool(np.all(np.isfinite(a))) and bool(np.all(np.abs(a - b) <= 1e-4 * np.maximum(1.0, np.abs(b))))


def check_bounds(col, entry, lv, model, detail):
    """lv: float64 array (..., n_out). Returns True when finite and inside the soft bounds."""
    mn, mx, slack = bounds64(model)
    col.tick(1)
    if not np.all(np.isfinite(lv)):
        col.violation(SIG.format(entry, K_NONFIN), dict(detail, log_var=lv))
        return False
    lo_ok = np.all(lv >= mn - 1e-5)
    hi_ok = np.all(lv <= mx + slack + 1e-5)
    if not (lo_ok and hi_ok):
        col.violation(SIG.format(entry, K_BOUNDS), dict(detail, log_var=lv, min_log_var=mn, max_log_var=mx, slack=slack))
        return False
    return True


# ------------------------------------------------------------------------------------------------
# ens
# ------------------------------------------------------------------------------------------------


def bias_matrix(pattern, ne, no):
    if pattern == "zero":
        return np.zeros((ne, no))
    if pattern == "bigmean":
        return np.full((ne, no), -6.0)
    if pattern in ("p50", "m50", "p1e4", "m1e4", "p1e9", "m1e9"):
        v = {"p50": 50.0, "m50": -50.0, "p1e4": 1e4, "m1e4": -1e4, "p1e9": 1e9, "m1e9": -1e9}[pattern]
        return np.full((ne, no), v)
    vals = [50.0, -50.0, 0.0]
    return np.array([[vals[(i + j) % 3] for j in range(no)] for i in range(ne)])


def bound_patterns(no, rotations=6):
    pats = [("u", k) for k in range(6)]
    if no > 1:
        pats += [("r", k) for k in range(0, 6, 6 // rotations)]
    return pats


def bound_vectors(pat, no):
    typ, k = pat
    pairs = [BOUND_PAIRS[k] if typ == "u" else BOUND_PAIRS[(k + j) % 6] for j in range(no)]
    return [p[0] for p in pairs], [p[1] for p in pairs]


def make_input(kind, ne, nf, seed):
    if kind == "vec":
        return np.array([grid(seed, 0, f) for f in range(nf)], dtype=np.float32)
    n = int(kind[-1])
    if kind.startswith("mb"):
        return np.array([[[grid(seed, i + 1, r, f) for f in range(nf)] for r in range(n)] for i in range(ne)], dtype=np.float32)
    return np.array([[grid(seed, r, f) for f in range(nf)] for r in range(n)], dtype=np.float32)


def work_ens(item, col):
    import jax.numpy as jnp

    ne, no, nf, seed = item["ne"], item["no"], item["nf"], item["seed"]
    model = new_ensemble(ne, item["shared"], nf, no, item["hidden"], 1000 * seed + 17 * item["init"] + ne + 3 * no + 11 * nf)
    set_logvar_bias(model, bias_matrix(item["bias"], ne, no))
    if item["bias"] == "bigmean":
        import jax.numpy as jnp

        layer = model.ensemble.output_layers[0]  # mean head: first n_outputs columns (shared and split layout)
        b = np.array(layer.bias.value)
        b[:, :no] = b[:, :no] + 300.0 + 0.01 * np.arange(ne)[:, None]
        layer.bias.value = jnp.asarray(b)
    nontriv = ne > 1 or no > 1
    arch = item["name"]
    for pat in bound_patterns(no, item["rotations"]):
        rmin, rmax = bound_vectors(pat, no)
        set_bounds(model, rmin, rmax)
        mn, mx, slack = bounds64(model)
        for kind in item["kinds"]:
            x = make_input(kind, ne, nf, seed)
            meta = dict(config=arch, bounds=[rmin, rmax], input=kind, x=x)
            vec = kind == "vec"
            per_member = kind.startswith("mb")
            xj = x[None] if vec else x  # what the joint pass sees
            N = xj.shape[-2]

            def key(i, meth):
                return (arch, pat, kind, i, meth) if nontriv else None

            # -- joint pass ---------------------------------------------------------------
            if vec:
                try:
                    r = model(jnp.asarray(x))
                    col.outcome("joint_call_accepts_vector")
                    vm, vl = np.asarray(r[0]), np.asarray(r[1])
                except ValueError:
                    col.outcome("joint_call_rejects_vector_loudly")
                    vm = vl = None
            try:
                jm, jlv = model(jnp.asarray(xj))
                jm = np.asarray(jm, dtype=np.float64)
                jlv = np.asarray(jlv, dtype=np.float64)
            except Exception as e:  # the joint pass is defined for 2-D and 3-D inputs
                col.tick(1)
                col.violation(SIG.format(E_CALL, K_RAISES), dict(meta, error=repr(e)[:300]))
                continue
            col.tick(1, key(-1, "call"))
            if jm.shape != (ne, N, no):
                col.violation(SIG.format(E_CALL, K_MSHAPE), dict(meta, shape=jm.shape, expected=(ne, N, no)))
                continue
            if jlv.shape != (ne, N, no):
                col.violation(SIG.format(E_CALL, K_VSHAPE), dict(meta, shape=jlv.shape, expected=(ne, N, no)))
                continue
            if vec and vm is not None:
                col.tick(1)
                if not (close(vm, jm[:, 0], 1e-5) and logvar_close(vl, jlv[:, 0])):
                    col.violation(SIG.format(E_CALL, K_MSLICE), dict(meta, vector_result=vm, batch_of_one=jm[:, 0]))
            # independent anchor: member i's mean is its own MLP applied to its own input
            clamp_active = False
            members_differ = False
            for i in range(ne):
                xi = xj[i] if per_member else xj
                rm, rlv = ref_forward(model, xi, i)
                col.tick(1, key(i, "call-vs-member-forward"))
                if not close(jm[i], rm, 2e-5):
                    col.violation(SIG.format(E_CALL, K_MREF), dict(meta, member=i, got=jm[i], expected=rm))
                if np.any(rlv > mx + 0.1) or np.any(rlv < mn - 0.1):
                    clamp_active = True
                if i and np.max(np.abs(jm[i] - jm[0])) > 1e-3:
                    members_differ = True
            check_bounds(col, E_CALL, jlv, model, meta)
            col.outcome("configs")
            if clamp_active:
                col.outcome("configs_where_soft_clamp_is_active")
            if np.any(jlv > mx):
                col.outcome("configs_where_log_var_exceeds_max_within_softness")
            if members_differ:
                col.outcome("configs_where_member_means_differ")

            # -- aggregate ----------------------------------------------------------------
            if not per_member:
                try:
                    am, av = model.aggregate(jnp.asarray(x))
                    am, av = np.asarray(am, dtype=np.float64), np.asarray(av, dtype=np.float64)
                    err = None
                except Exception as e:
                    err = repr(e)[:300]
                want_shape = (no,) if vec else (N, no)
                col.tick(1, key(-1, "aggregate"))
                if err is not None:
                    col.violation(SIG.format(E_AGG, K_RAISES), dict(meta, error=err))
                elif am.shape != want_shape:
                    col.violation(SIG.format(E_AGG, K_MSHAPE), dict(meta, shape=am.shape, expected=want_shape))
                elif av.shape != want_shape:
                    col.violation(SIG.format(E_AGG, K_VSHAPE), dict(meta, shape=av.shape, expected=want_shape))
                else:
                    refm = jm.mean(axis=0).reshape(want_shape)
                    alea = np.exp(jlv).mean(axis=0).reshape(want_shape)
                    epi = jm.var(axis=0).reshape(want_shape)
                    refv = alea + epi
                    if not close(am, refm, 1e-5):
                        col.violation(SIG.format(E_AGG, K_AGGM), dict(meta, got=am, expected=refm))
                    col.tick(1)
                    if not np.all(np.abs(av - refv) <= 2e-5 * np.abs(refv) + 5e-7):
                        col.violation(SIG.format(E_AGG, K_AGGV), dict(meta, got=av, expected=refv, aleatoric=alea, epistemic=epi))
                    if np.any(epi > 1e-3 * refv + 1e-5):
                        col.outcome("aggregates_where_epistemic_term_matters")
                    if ne > 1 and np.any(np.abs(np.exp(jlv) - alea) > 1e-3 * alea):
                        col.outcome("aggregates_where_member_variances_differ")

            # -- member-level calls ---------------------------------------------------------
            for i in range(ne):
                xi = x[i] if per_member else x
                sm = jm[i, 0] if vec else jm[i]
                slv = jlv[i, 0] if vec else jlv[i]
                want = sm.shape
                mmeta = dict(meta, member=i)
                # base_predict
                try:
                    bm, bv = model.base_predict(jnp.asarray(xi), i)
                    bm, bv = np.asarray(bm, dtype=np.float64), np.asarray(bv, dtype=np.float64)
                    err = None
                except Exception as e:
                    err = repr(e)[:300]
                col.tick(1, key(i, "base_predict"))
                if err is not None:
                    col.violation(SIG.format(E_BP, K_RAISES), dict(mmeta, error=err))
                elif bm.shape != want:
                    col.violation(SIG.format(E_BP, K_MSHAPE), dict(mmeta, shape=bm.shape, expected=want))
                elif bv.shape != want:
                    col.violation(SIG.format(E_BP, K_VSHAPE), dict(mmeta, variance_shape=bv.shape, expected=want))
                else:
                    if not close(bm, sm, 1e-5):
                        col.violation(SIG.format(E_BP, K_MSLICE), dict(mmeta, got=bm, joint_slice=sm))
                    col.tick(1)
                    with np.errstate(divide="ignore", invalid="ignore"):
                        blv = np.log(bv)
                    if check_bounds(col, E_BP, blv, model, mmeta) and not logvar_close(blv, slv):
                        col.violation(SIG.format(E_BP, K_VSLICE), dict(mmeta, log_variance=blv, joint_slice=slv))
                # base_distribution
                try:
                    d = model.base_distribution(jnp.asarray(xi), i)
                    dm = np.asarray(d.mean(), dtype=np.float64)
                    dv = np.asarray(d.variance(), dtype=np.float64)
                    ev, bs = tuple(int(v) for v in d.event_shape), tuple(int(v) for v in d.batch_shape)
                    err = None
                except Exception as e:
                    err = repr(e)[:300]
                col.tick(1, key(i, "base_distribution"))
                if err is not None:
                    col.violation(SIG.format(E_BD, K_RAISES), dict(mmeta, error=err))
                elif dv.shape != want or ev != (no,) or bs != want[:-1]:
                    col.violation(
                        SIG.format(E_BD, K_VSHAPE),
                        dict(mmeta, variance_shape=dv.shape, event_shape=ev, batch_shape=bs, expected=want),
                    )
                elif dm.shape != want:
                    col.violation(SIG.format(E_BD, K_MSHAPE), dict(mmeta, shape=dm.shape, expected=want))
                else:
                    if not close(dm, sm, 1e-5):
                        col.violation(SIG.format(E_BD, K_MSLICE), dict(mmeta, got=dm, joint_slice=sm))
                    col.tick(1)
                    with np.errstate(divide="ignore", invalid="ignore"):
                        dlv = np.log(dv)
                    if check_bounds(col, E_BD, dlv, model, mmeta) and not logvar_close(dlv, slv):
                        col.violation(SIG.format(E_BD, K_VSLICE), dict(mmeta, log_variance=dlv, joint_slice=slv))
    col.sample(dict(section="ens", config=arch, bound_patterns=len(bound_patterns(no, item["rotations"])), inputs=item["kinds"]))


# ------------------------------------------------------------------------------------------------
# nll
# ------------------------------------------------------------------------------------------------

NLL_MEAN = [-1.0, 0.0, 2.5]
NLL_LV = [-20.0, -4.0, 0.0, 5.0]
NLL_Y = [-2.0, 0.0, 1.0, 40.0]  # the last: a residual far above 10 (targets on a large scale)


def nll_ref(mu, lv, y):
    mu, lv, y = (np.asarray(a, dtype=np.float32).astype(np.float64) for a in (mu, lv, y))
    neg_logpdf = 0.5 * math.log(2 * math.pi) + 0.5 * lv + 0.5 * (y - mu) ** 2 / np.exp(lv)
    return float(np.mean(neg_logpdf) - 0.5 * math.log(2 * math.pi))


def work_nll(item, col):
    import jax.numpy as jnp
    import rl_blox.blox.probabilistic_ensemble as pe

    shape = tuple(item["shape"])
    size = int(np.prod(shape))
    triples = list(itertools.product(NLL_MEAN, NLL_LV, NLL_Y))
    rot = item["seed"] % len(triples)
    triples = triples[rot:] + triples[:rot]

    def run(mu, lv, y, keyv):
        try:
            got = float(pe.gaussian_nll(jnp.asarray(mu, dtype=jnp.float32), jnp.asarray(lv, dtype=jnp.float32), jnp.asarray(y, dtype=jnp.float32)))
        except Exception as e:
            col.tick(1)
            col.violation(SIG.format("gaussian_nll", K_RAISES), dict(shape=shape, error=repr(e)[:300]))
            return
        ref = nll_ref(mu, lv, y)
        col.tick(1, keyv if size > 1 else None)
        if not close(got, ref, 1e-5):
            col.violation(SIG.format("gaussian_nll", K_NLL), dict(shape=shape, mean=mu, log_var=lv, y=y, got=got, expected=ref))
        if shape[-1] > 1:
            per_sample_sum = ref * shape[-1]
            if not close(per_sample_sum, ref, 1e-5):
                col.outcome("nll_cases_where_sum_over_outputs_would_differ")

    for b, (m0, l0, y0) in enumerate(triples):
        mu = np.full(shape, m0)
        lv = np.full(shape, l0)
        y = np.full(shape, y0)
        run(mu, lv, y, ("nll", shape, b))
        for pos in range(size):
            alts = [(m, l0, y0) for m in NLL_MEAN if m != m0] + [(m0, l, y0) for l in NLL_LV if l != l0] + [(m0, l0, yy) for yy in NLL_Y if yy != y0]
            for a, (m1, l1, y1) in enumerate(alts):
                mu2, lv2, y2 = mu.copy(), lv.copy(), y.copy()
                mu2.flat[pos], lv2.flat[pos], y2.flat[pos] = m1, l1, y1
                run(mu2, lv2, y2, ("nll", shape, b, pos, a))
                col.outcome("nll_non_uniform_inputs")
    col.sample(dict(section="nll", shape=shape, base_triples=len(triples)))


# ------------------------------------------------------------------------------------------------
# boot
# ------------------------------------------------------------------------------------------------


class Patched:
    """Temporarily replace module-level names (restored on exit, also on error)."""

    def __init__(self, mod, **names):
        self.mod, self.names, self.old = mod, names, {}

    def __enter__(self):
        for k, v in self.names.items():
            self.old[k] = getattr(self.mod, k)
            setattr(self.mod, k, v)
        return self

    def __exit__(self, *a):
        for k, v in self.old.items():
            setattr(self.mod, k, v)
        return False


def work_boot(item, col):
    import jax
    import jax.numpy as jnp
    import optax
    from flax import nnx
    import rl_blox.blox.probabilistic_ensemble as pe

    ne, n, seed = item["ne"], item["n"], item["seed"]
    X = np.array([[grid(seed, r, 0), grid(seed + 1, r, 1)] for r in range(n)], dtype=np.float32)
    Y = np.array([[0.5 * X[r, 0] - 0.25 * X[r, 1]] for r in range(n)], dtype=np.float32)
    orig_boot, orig_epoch = pe.bootstrap, pe.train_epoch
    B, epochs = None, []
    for ts, bs, n_epochs, k in itertools.product(item["fracs"], item["batches"], item["epochs"], range(item["keys"])):
        model = new_ensemble(ne, True, 2, 1, [3], 1000 * seed + ne)
        opt = nnx.Optimizer(model, optax.sgd(1e-3), wrt=nnx.Param)
        key = jax.random.key(7 * seed + k)
        boots, epochs = [], []

        def wrap_boot(*a, **kw):
            out = orig_boot(*a, **kw)
            boots.append(np.asarray(out))
            return out

        def wrap_epoch(model, optimizer, X, Y, indices):
            epochs.append(np.asarray(indices))
            return orig_epoch(model, optimizer, X, Y, indices)

        meta = dict(n_ensemble=ne, n_samples=n, train_size=ts, batch_size=bs, n_epochs=n_epochs, key=7 * seed + k)
        with Patched(pe, bootstrap=wrap_boot, train_epoch=wrap_epoch):
            try:
                pe.train_ensemble(model, opt, ts, jnp.asarray(X), jnp.asarray(Y), n_epochs, bs, key)
            except Exception as e:
                n_boot = int(ts * n)
                if n_boot < bs:
                    col.outcome("train_ensemble_rejects_sample_smaller_than_batch")
                    continue
                col.tick(1)
                col.violation(SIG.format("train_ensemble", K_RAISES), dict(meta, error=repr(e)[:300]))
                continue
        if len(boots) != 1:
            col.cap(f"bootstrap() was observed {len(boots)} times inside train_ensemble (expected once): indices not judged")
            continue
        B = boots[0]
        col.tick(1)
        if B.ndim != 2 or B.shape[0] != ne or not np.issubdtype(B.dtype, np.integer):
            col.violation(SIG.format("bootstrap", K_BSHAPE), dict(meta, shape=B.shape, dtype=str(B.dtype)))
            continue
        if B.size and (B.min() < 0 or B.max() >= n):
            col.violation(SIG.format("bootstrap", K_BRANGE), dict(meta, bootstrap=B))
            continue
        n_boot = B.shape[1]
        if n_boot != int(ts * n):
            col.outcome("bootstrap_size_differs_from_int(train_size*n)")
        col.outcome("train_ensemble_calls")
        if len(epochs) != n_epochs:
            col.outcome("calls_where_epoch_trainer_invocations!=n_epochs")
        rows = [Counter(B[i].tolist()) for i in range(ne)]
        for i, j in itertools.combinations(range(ne), 2):
            if rows[i] != rows[j]:
                col.outcome("member_pairs_with_different_bootstrap_samples")
        for e, idx in enumerate(epochs):
            if idx.ndim != 3 or idx.shape[1] != ne:
                col.tick(1)
                col.violation(SIG.format("train_ensemble", K_ISHAPE), dict(meta, epoch=e, shape=idx.shape))
                continue
            nb = idx.shape[0]
            if nb == 0:
                col.outcome("epochs_with_zero_batches")
            elif idx.shape[0] * idx.shape[2] < n_boot:
                col.outcome("epochs_dropping_a_remainder")
            for i in range(ne):
                used = Counter(idx[:, i, :].ravel().tolist())
                own = rows[i]
                foreign_would_fail = any(any(used[v] > rows[j][v] for v in used) for j in range(ne) if j != i)
                repeats = any(c > 1 for c in own.values())
                nontriv = nb > 0 and (foreign_would_fail or repeats)
                col.tick(1, ("boot", ne, n, ts, bs, n_epochs, k, e, i) if nontriv else None)
                if foreign_would_fail:
                    col.outcome("member_epochs_where_another_members_sample_would_not_cover_the_used_indices")
                if nb > 0 and repeats:
                    col.outcome("member_epochs_with_repeated_draws_in_own_sample")
                if any(v not in own for v in used):
                    col.violation(
                        SIG.format("train_ensemble", K_NOTOWN),
                        dict(meta, epoch=e, member=i, used=sorted(used.elements()), own_sample=sorted(own.elements())),
                    )
                elif any(used[v] > own[v] for v in used):
                    col.violation(
                        SIG.format("train_ensemble", K_REUSE),
                        dict(meta, epoch=e, member=i, used=sorted(used.elements()), own_sample=sorted(own.elements())),
                    )
                if nb > 0 and sum(used.values()) == (n_boot // bs) * bs:
                    col.outcome("member_epochs_using_all_full_batches")
    col.sample(dict(section="boot", n_ensemble=ne, n_samples=n, last_bootstrap=B, last_epoch_indices=epochs[-1] if epochs else None))


def work_bootrows(item, col):
    """Each member has its OWN sample: on a 20-sample data set three rows of 20 draws coincide with probability 20^-20."""
    import jax
    import rl_blox.blox.probabilistic_ensemble as pe

    for k in range(item["keys"]):
        for ne, n, ts in [(2, 20, 1.0), (3, 20, 1.0), (3, 30, 0.7)]:
            B = np.asarray(pe.bootstrap(ne, ts, n, jax.random.key(11 * item["seed"] + k)))
            meta = dict(n_ensemble=ne, n_samples=n, train_size=ts, key=11 * item["seed"] + k)
            col.tick(1, ("bootrows", ne, n, ts, k))
            if B.shape != (ne, int(ts * n)):
                col.violation(SIG.format("bootstrap", K_BSHAPE), dict(meta, shape=B.shape))
                continue
            if B.min() < 0 or B.max() >= n:
                col.violation(SIG.format("bootstrap", K_BRANGE), dict(meta, bootstrap=B))
            if any(np.array_equal(np.sort(B[i]), np.sort(B[j])) for i, j in itertools.combinations(range(ne), 2)):
                col.violation(SIG.format("bootstrap", K_BSAME), dict(meta, bootstrap=B))
            if len(set(B[0].tolist())) < B.shape[1]:
                col.outcome("bootstrap_rows_with_replacement_visible")
    col.sample(dict(section="bootrows", example=B))


# ------------------------------------------------------------------------------------------------
# iso
# ------------------------------------------------------------------------------------------------


def work_iso(item, col):
    import jax
    import jax.numpy as jnp
    import optax
    from flax import nnx
    import rl_blox.blox.probabilistic_ensemble as pe

    ne, bs, n, seed = item["ne"], item["bs"], item["n"], item["seed"]
    no = 2
    X0 = np.array([[grid(seed, r, 0), grid(seed + 2, r, 1)] for r in range(n)], dtype=np.float32)
    Y0 = np.array([[0.5 * X0[r, 0] + 0.1 * r, -0.25 * X0[r, 1] + 0.3] for r in range(n)], dtype=np.float32)

    model = new_ensemble(ne, item["shared"], 2, no, [3], 1000 * seed + 5)
    opt = nnx.Optimizer(model, optax.sgd(0.1), wrt=nnx.Param)  # plain SGD: no optimizer state besides the step count
    saved = jax.tree_util.tree_map(np.array, nnx.state(model))

    def run(idx, X, Y):
        nnx.update(model, jax.tree_util.tree_map(jnp.asarray, saved))
        pe.train_epoch(model, opt, jnp.asarray(X), jnp.asarray(Y), jnp.asarray(idx))
        leaves = [np.asarray(x) for x in jax.tree_util.tree_leaves(nnx.state(model.ensemble))]
        return [[leaf[i].copy() for leaf in leaves] for i in range(ne)]

    init = run(np.zeros((0, ne, bs), dtype=np.int32), X0, Y0)  # zero batches: the untouched initial parameters
    for rest in itertools.product(range(n), repeat=ne * bs - 1):
        flat = (item["first"],) + rest
        idx = np.array(flat, dtype=np.int32).reshape(1, ne, bs)
        base = run(idx, X0, Y0)
        if all(all(np.array_equal(a, b) for a, b in zip(base[i], init[i])) for i in range(ne)):
            col.outcome("iso_runs_where_training_changed_nothing")
        for r in range(n):
            X, Y = X0.copy(), Y0.copy()
            X[r] += 0.5
            Y[r] += 1.0
            pert = run(idx, X, Y)
            for i in range(ne):
                mine = r in idx[0, i].tolist()
                same = all(np.array_equal(a, b) for a, b in zip(base[i], pert[i]))
                foreign_used = any(r in idx[0, j].tolist() for j in range(ne) if j != i)
                meta = dict(n_ensemble=ne, batch_size=bs, indices=idx, perturbed_row=r, member=i, shared_head=item["shared"])
                col.tick(1, ("iso", item["name"], flat, r, i) if (mine or foreign_used) else None)
                if mine:
                    if same:
                        col.violation(SIG.format("train_epoch", K_IGNORE), meta)
                    else:
                        col.outcome("iso_member_reacts_to_own_row")
                else:
                    if foreign_used:
                        col.outcome("iso_foreign_row_used_by_another_member")
                    if not same:
                        col.violation(SIG.format("train_epoch", K_FOREIGN), meta)
    col.sample(dict(section="iso", config=item["name"], index_tensors=n ** (ne * bs - 1)))


# ------------------------------------------------------------------------------------------------
# plan: evaluate_plans
# ------------------------------------------------------------------------------------------------


def reward_models():
    import jax.numpy as jnp

    def linear(act, obs):
        wo = jnp.asarray([1.0, 100.0, 7.0])[: obs.shape[-1]]
        wa = jnp.asarray([0.5, 0.25])[: act.shape[-1]]
        return (obs * wo).sum(-1) + (act * wa).sum(-1)

    def linear_ref(a, o):
        return float(np.dot(o, [1.0, 100.0, 7.0][: len(o)]) + np.dot(a, [0.5, 0.25][: len(a)]))

    def quad(act, obs):
        return obs[..., 0] * 2.0 - act[..., 0] ** 2 + obs[..., -1] * act[..., -1]

    def quad_ref(a, o):
        return float(o[0] * 2.0 - a[0] ** 2 + o[-1] * a[-1])

    return {"linear": (linear, linear_ref), "quadratic": (quad, quad_ref)}


def plan_ref(acts, traj, rref, mode="ok"):
    S, H = acts.shape[:2]
    P = traj.shape[1]
    out = []
    for s in range(S):
        rew = np.array([[rref(acts[s, t], traj[s, p, t + (1 if mode == "shift" else 0)]) for t in range(H)] for p in range(P)])
        if mode == "swap":
            out.append(rew.sum(axis=0).mean())  # summed over particles, averaged over the horizon
        elif mode == "sumsum":
            out.append(rew.sum())
        else:
            out.append(rew.sum(axis=1).mean())
    return np.array(out)


def plan_inputs(S, P, H, A, O, seed):
    acts = np.array([[[((3 * s + 5 * t + 2 * a + seed) % 7 - 3) * 0.5 for a in range(A)] for t in range(H)] for s in range(S)], dtype=np.float32)
    traj = np.array(
        [[[[float(1 + o + O * (t + (H + 1) * (p + P * s))) for o in range(O)] for t in range(H + 1)] for p in range(P)] for s in range(S)],
        dtype=np.float32,
    )
    return acts, traj


def work_planeval(item, col):
    import jax.numpy as jnp
    import rl_blox.algorithm.pets as pets

    models = reward_models()
    for S, P, H, A, O in itertools.product(item["S"], item["P"], item["H"], item["A"], item["O"]):
        acts, traj = plan_inputs(S, P, H, A, O, item["seed"])
        for name, (fn, rref) in models.items():
            meta = dict(n_samples=S, n_particles=P, horizon=H, action_dim=A, obs_dim=O, reward_model=name)
            try:
                got = np.asarray(pets.evaluate_plans(jnp.asarray(acts), jnp.asarray(traj), fn), dtype=np.float64)
            except Exception as e:
                col.tick(1)
                col.violation(SIG.format("evaluate_plans", K_RAISES), dict(meta, error=repr(e)[:300]))
                continue
            ref = plan_ref(acts, traj, rref)
            alts = {m: plan_ref(acts, traj, rref, m) for m in ("swap", "sumsum", "shift")}
            distinguishing = all(not close(ref, v, 1e-6) for v in alts.values())
            col.tick(1, ("planeval", S, P, H, A, O, name) if distinguishing else None)
            for m, v in alts.items():
                if not close(ref, v, 1e-6):
                    col.outcome(f"plan_cases_where_{m}_alternative_differs")
            if got.shape != (S,):
                col.violation(SIG.format("evaluate_plans", K_PSHAPE), dict(meta, shape=got.shape))
            elif not close(got, ref, 1e-5):
                col.violation(SIG.format("evaluate_plans", K_PLAN), dict(meta, got=got, expected=ref, actions=acts, trajectories=traj))
        # a reward model with state (a goal that moves between two plannings), the same object used twice on arrays of the
        # same shapes: the second evaluation is of the model as it is THEN
        class Goal:
            def __init__(self):
                self.goal = 0.0

            def __call__(self, act, obs):
                return -jnp.sum((obs - self.goal) ** 2, axis=-1) - 0.1 * jnp.sum(act**2, axis=-1)

        gm = Goal()
        meta = dict(n_samples=S, n_particles=P, horizon=H, action_dim=A, obs_dim=O, reward_model="stateful goal model, used twice")
        try:
            first = np.asarray(pets.evaluate_plans(jnp.asarray(acts), jnp.asarray(traj), gm), dtype=np.float64)
            gm.goal = 2.5
            second = np.asarray(pets.evaluate_plans(jnp.asarray(acts), jnp.asarray(traj), gm), dtype=np.float64)
        except Exception as e:  # noqa: BLE001
            col.tick(1)
            col.violation(SIG.format("evaluate_plans", K_RAISES), dict(meta, error=repr(e)[:300]))
            continue
        refs = [plan_ref(acts, traj, lambda a_, o_, g=g: -np.sum((o_ - g) ** 2, axis=-1) - 0.1 * np.sum(a_**2, axis=-1)) for g in (0.0, 2.5)]
        col.tick(2, ("planeval-stateful", S, P, H, A, O))
        col.outcome("plan_evaluations_of_a_stateful_reward_model_used_twice")
        if not close(first, refs[0], 1e-5) or not close(second, refs[1], 1e-5):
            col.violation(SIG.format("evaluate_plans", K_PLAN), dict(meta, first=first, expected_first=refs[0], second=second, expected_second=refs[1],
                                                                      second_equals_first=bool(np.array_equal(first, second))))
    col.sample(dict(section="planeval", last=meta, got=got, expected=ref))


# ------------------------------------------------------------------------------------------------
# plan: ts_inf
# ------------------------------------------------------------------------------------------------


def work_tsinf(item, col):
    import jax
    import jax.numpy as jnp
    import rl_blox.algorithm.pets as pets

    ne, nobs, S, H, seed = item["ne"], item["nobs"], item["S"], item["H"], item["seed"]
    nf = nobs + 1
    obs = np.array([grid(seed, 4, j) * 0.5 for j in range(nobs)], dtype=np.float32)
    acts = np.array([[[((3 * s + 5 * t + seed) % 7 - 3) / 3.0] for t in range(H)] for s in range(S)], dtype=np.float32)
    for shared in (True, False):
        # (b) near-deterministic roll-outs: std = exp(-10); which member, which action, accumulation of deltas
        det = new_ensemble(ne, shared, nf, nobs, [3], 1000 * seed + 31 + ne)
        set_bounds(det, [-20.0] * nobs, [-20.0] * nobs)
        set_logvar_bias(det, np.full((ne, nobs), -50.0))
        # (c) noise scale: two models that differ only in the log-variance head bias of output 0
        mA = new_ensemble(ne, shared, nf, nobs, [3], 1000 * seed + 77 + ne)
        mB = new_ensemble(ne, shared, nf, nobs, [3], 1000 * seed + 77 + ne)
        for m in (mA, mB):
            set_bounds(m, [-20.0] * nobs, [20.0] * nobs)
        shift = np.zeros((ne, nobs))
        shift[:, 0] = 2.0
        set_logvar_bias(mB, shift)
        for P in item["P"]:
            keys = jax.random.split(jax.random.key(13 * seed + P), (S, P))
            # reference roll-outs of every member (float64 means)
            roll = np.zeros((ne, S, H + 1, nobs))
            for i in range(ne):
                for s in range(S):
                    o = obs.astype(np.float64)
                    roll[i, s, 0] = o
                    for t in range(H):
                        d, _ = ref_forward(det, np.concatenate([o, acts[s, t].astype(np.float64)]), i)
                        o = o + d
                        roll[i, s, t + 1] = o
            tol = 2e-3 * H
            for assign in itertools.product(range(ne), repeat=P):
                meta = dict(n_ensemble=ne, obs_dim=nobs, n_samples=S, n_particles=P, horizon=H, shared_head=shared, model_indices=assign)
                try:
                    traj = np.asarray(
                        pets.ts_inf(keys, jnp.asarray(assign, dtype=jnp.int32), jnp.asarray(acts), jnp.asarray(obs), det), dtype=np.float64
                    )
                except Exception as e:
                    col.tick(1)
                    col.violation(SIG.format("ts_inf", K_RAISES), dict(meta, error=repr(e)[:300]))
                    continue
                col.tick(1)
                if traj.shape != (S, P, H + 1, nobs):
                    col.violation(SIG.format("ts_inf", K_TSHAPE), dict(meta, shape=traj.shape, expected=(S, P, H + 1, nobs)))
                    continue
                if not np.array_equal(traj[:, :, 0], np.broadcast_to(obs.astype(np.float64), (S, P, nobs))):
                    col.violation(SIG.format("ts_inf", K_TSTART), dict(meta, first=traj[:, :, 0], obs=obs))
                for p in range(P):
                    want = roll[assign[p]]
                    others = [roll[j] for j in range(ne) if j != assign[p]]
                    distinguishable = all(np.max(np.abs(o - want)) > 10 * tol for o in others)
                    col.tick(1, ("tsinf-det", item["name"], shared, P, assign, p) if distinguishable else None)
                    if distinguishable:
                        col.outcome("tsinf_particles_whose_member_is_distinguishable")
                    if np.max(np.abs(traj[:, p] - want)) > tol:
                        col.violation(
                            SIG.format("ts_inf", K_TMEMBER),
                            dict(meta, particle=p, got=traj[:, p], expected_member_rollout=want, tolerance=tol),
                        )
            # (c) single-step noise scale, every particle on every member
            if H != 1:
                continue
            for assign in ([i] * P for i in range(ne)):
                meta = dict(n_ensemble=ne, obs_dim=nobs, n_samples=S, n_particles=P, shared_head=shared, model_indices=assign)
                eps = []
                sig0 = []
                bad = False
                for m in (mA, mB):
                    try:
                        traj = np.asarray(
                            pets.ts_inf(keys, jnp.asarray(assign, dtype=jnp.int32), jnp.asarray(acts), jnp.asarray(obs), m), dtype=np.float64
                        )
                    except Exception as e:
                        col.tick(1)
                        col.violation(SIG.format("ts_inf", K_RAISES), dict(meta, error=repr(e)[:300]))
                        bad = True
                        break
                    if traj.shape != (S, P, 2, nobs):
                        col.tick(1)
                        col.violation(SIG.format("ts_inf", K_TSHAPE), dict(meta, shape=traj.shape))
                        bad = True
                        break
                    xb = np.concatenate([np.broadcast_to(obs, (S, nobs)), acts[:, 0]], axis=1)
                    jm, jlv = m(jnp.asarray(xb))
                    mean = np.asarray(jm, dtype=np.float64)[assign[0]]  # (S, nobs)
                    std = np.exp(0.5 * np.asarray(jlv, dtype=np.float64)[assign[0]])
                    delta = traj[:, :, 1] - traj[:, :, 0]  # (S, P, nobs)
                    eps.append((delta - mean[:, None]) / std[:, None])
                    sig0.append(std)
                if bad:
                    continue
                col.tick(1, ("tsinf-noise", item["name"], shared, P, assign[0]) if nobs > 1 else None)
                if np.max(np.abs(sig0[0][:, 0] / sig0[1][:, 0] - 1.0)) > 0.2:
                    col.outcome("tsinf_noise_cases_where_output0_std_really_changes")
                if not np.all(np.abs(eps[0] - eps[1]) <= 1e-3 * np.maximum(1.0, np.abs(eps[1]))):
                    col.violation(
                        SIG.format("ts_inf", K_TNOISE),
                        dict(meta, standardised_noise_model_A=eps[0], standardised_noise_model_B=eps[1], std_A=sig0[0], std_B=sig0[1]),
                    )
    col.sample(dict(section="tsinf", config=item["name"]))


# ------------------------------------------------------------------------------------------------
# plan: the MPC step (wiring of sample_fn -> ts_inf -> evaluate_plans -> update_fn)
# ------------------------------------------------------------------------------------------------


def work_mpc(item, col):
    import gymnasium as gym
    import jax
    import jax.numpy as jnp
    import rl_blox.algorithm.pets as pets

    P, H, seed = item["P"], item["H"], item["seed"]
    S = 10  # n_elite = int(0.1 * n_samples) must be >= 1
    nobs = 2
    space = gym.spaces.Box(np.array([-2.0], dtype=np.float32), np.array([2.0], dtype=np.float32))
    model = new_ensemble(3, True, nobs + 1, nobs, [3], 1000 * seed + 3)
    fn, rref = reward_models()["quadratic"]
    sample_fn, update_fn = pets._init_mpc_optimizer_cem(space, H, S)
    seen = dict(ts=[], ev=[], up=[])
    orig_ts, orig_ev = pets.ts_inf, pets.evaluate_plans

    def wrap_ts(keys, idx, actions, obs, dyn):
        out = orig_ts(keys, idx, actions, obs, dyn)
        seen["ts"].append((np.asarray(actions), np.asarray(out), np.asarray(idx)))
        return out

    def wrap_ev(actions, trajectories, reward_model):
        out = orig_ev(actions, trajectories, reward_model)
        seen["ev"].append((np.asarray(actions), np.asarray(trajectories), np.asarray(out), reward_model))
        return out

    def wrap_up(samples, fitness, mean, var):
        seen["up"].append((np.asarray(samples), np.asarray(fitness)))
        return update_fn(samples, fitness, mean, var)

    config = pets.PETSMPCConfig(
        plan_horizon=H, n_particles=P, n_samples=S, n_opt_iter=2, init_with_previous_plan=True, reward_model=fn,
        action_space_shape=space.shape, avg_act=jnp.asarray(0.5 * (space.high + space.low)),
        init_var=jnp.array([(space.high - space.low) ** 2 / 16.0 for _ in range(H)]), sample_fn=sample_fn, update_fn=wrap_up,
    )
    state = pets.PETSMPCState(dynamics_model=model, prev_plan=pets.PETSMPCState.initial_plan(config), key=jax.random.key(seed))
    obs = np.array([0.25, -0.5], dtype=np.float32)
    meta = dict(n_samples=S, n_particles=P, horizon=H)
    with Patched(pets, ts_inf=wrap_ts, evaluate_plans=wrap_ev):
        try:
            act = pets.mpc_action(config, state, partial(pets._pets_optimize, config), obs)
        except Exception as e:
            col.tick(1)
            col.violation(SIG.format("mpc_action", K_RAISES), dict(meta, error=repr(e)[:400]))
            return
    if not (len(seen["ts"]) == len(seen["ev"]) == len(seen["up"]) == 2):
        col.cap(f"mpc wiring not observable: {[len(v) for v in seen.values()]} captures")
        return
    for it in range(2):
        a_ts, traj, idx = seen["ts"][it]
        a_ev, traj_ev, out, rm = seen["ev"][it]
        a_up, fit = seen["up"][it]
        col.tick(1, ("mpc", P, H, it))
        if traj.shape != (S, P, H + 1, nobs):
            col.violation(SIG.format("ts_inf", K_TSHAPE), dict(meta, shape=traj.shape))
            continue
        wired = (
            np.array_equal(a_ts, a_ev) and np.array_equal(traj, traj_ev) and np.array_equal(a_ev, a_up)
            and np.array_equal(out, fit) and rm is fn and a_ev.shape == (S, H, 1)
        )
        if not wired:
            col.violation(SIG.format("mpc_action", K_WIRE), dict(meta, iteration=it, actions_shape=a_ev.shape, trajectories_shape=traj_ev.shape))
            continue
        ref = plan_ref(a_ev.astype(np.float64), traj_ev.astype(np.float64), rref)
        col.tick(1)
        if not close(out, ref, 2e-5):
            col.violation(SIG.format("mpc_action", K_PLAN), dict(meta, iteration=it, got=out, expected=ref))
        if P > 1 and np.max(np.abs(traj[:, 0] - traj[:, -1])) > 1e-4:
            col.outcome("mpc_iterations_where_particles_differ")
        if len(set(idx.tolist())) > 1:
            col.outcome("mpc_iterations_with_particles_on_different_members")
    col.sample(dict(section="mpc", config=meta, action=act, expected_returns=seen["ev"][-1][2]))


# ------------------------------------------------------------------------------------------------
# pend
# ------------------------------------------------------------------------------------------------


def pend_grid(extended):
    pi = math.pi
    angles = [-pi + k * (2 * pi / 16) for k in range(16)] + [pi]  # includes 0 and both +-pi
    angles += [pi - 1e-3, -pi + 3e-4, 1e-4, -2e-4]
    if extended:
        angles += [1.5 * pi, -2.5 * pi, 2 * pi + 0.5, 7.0, -9.0, 0.5 * pi + 1e-3]
    vels = [-8.0, -1.0, 0.0, 1.0, 8.0] + ([-3.5, 0.125, 5.0] if extended else [])
    torques = [-3.0, -2.0, -0.5, 0.0, 0.5, 2.0, 3.0] + ([-2.0001, 1.9999, 100.0] if extended else [])
    return angles, vels, torques


def work_pend(item, col):
    import gymnasium as gym
    import jax.numpy as jnp
    from rl_blox.algorithm.pets_reward_models import pendulum_reward

    env = gym.make("Pendulum-v1").unwrapped
    env.reset(seed=0)
    angles, vels, torques = pend_grid(item["extended"])
    pts, obs_l, act_l, rew_l = [], [], [], []
    worst = 0.0
    for th, thd, u in itertools.product(angles, vels, torques):
        env.state = np.array([th, thd], dtype=np.float64)
        obs = np.asarray(env._get_obs(), dtype=np.float32)
        _, r, _, _, _ = env.step(np.array([u], dtype=np.float32))
        r = float(r)
        got = float(pendulum_reward(jnp.asarray([u], dtype=jnp.float32), jnp.asarray(obs)))
        col.tick(1, ("pend", th, thd, u))
        err = abs(got - r) / max(1.0, abs(r))
        worst = max(worst, err)
        if not (err <= 1e-3):
            col.violation(SIG.format("pendulum_reward", K_PEND), dict(theta=th, theta_dot=thd, torque=u, obs=obs, got=got, env_reward=r))
        if abs(u) > 2.0:
            col.outcome("pend_points_with_torque_beyond_limit")
        if abs(abs(((th + math.pi) % (2 * math.pi)) - math.pi) - math.pi) < 2e-3:
            col.outcome("pend_points_near_the_arccos_singularity")
        pts.append((th, thd, u)); obs_l.append(obs); act_l.append([u]); rew_l.append(r)
    # the same grid in one vectorised call with leading batch axes (the way evaluate_plans calls it)
    n = len(pts)
    A = np.asarray(act_l, dtype=np.float32).reshape(1, n, 1, 1)
    O = np.asarray(obs_l, dtype=np.float32).reshape(1, n, 1, 3)
    try:
        got = np.asarray(pendulum_reward(jnp.asarray(A), jnp.asarray(O)), dtype=np.float64)
        col.tick(1)
        if got.shape != (1, n, 1):
            col.violation(SIG.format("pendulum_reward", K_PSHAPE), dict(shape=got.shape, expected=(1, n, 1)))
        else:
            R = np.asarray(rew_l)
            bad = np.abs(got.reshape(n) - R) > 1e-3 * np.maximum(1.0, np.abs(R))
            if bad.any():
                k = int(np.argmax(bad))
                col.violation(SIG.format("pendulum_reward", K_PEND), dict(vectorised=True, point=pts[k], got=got.reshape(n)[k], env_reward=R[k]))
    except Exception as e:
        col.tick(1)
        col.violation(SIG.format("pendulum_reward", K_RAISES), dict(error=repr(e)[:300]))
    col.set("pendulum_worst_relative_error", worst)
    col.sample(dict(section="pend", points=n, worst_relative_error=worst))


def work_pendroll(item, col):
    """Real Pendulum-v1 roll-outs: evaluate_plans with the bundled reward model == the environment's own return."""
    import gymnasium as gym
    import jax.numpy as jnp
    import rl_blox.algorithm.pets as pets
    from rl_blox.algorithm.pets_reward_models import pendulum_reward

    env = gym.make("Pendulum-v1").unwrapped
    env.reset(seed=0)
    starts = [(0.0, 0.0), (math.pi, 0.0), (-math.pi + 3e-4, 1.0), (1.0, -2.0), (-2.5, 4.0), (0.3, 8.0)]
    plans = [[2.0, -2.0, 0.5], [-3.0, 3.0, 0.0], [0.0, 0.0, 0.0], [1.5, 1.5, 1.5]]
    for H in (1, 2, 3):
        for P in (1, 2, 3):
            # sample s = plan s; particle p of sample s starts from start (s + p) % len(starts): all real env roll-outs
            S = len(plans)
            acts = np.array([[[plans[s][t]] for t in range(H)] for s in range(S)], dtype=np.float32)
            traj = np.zeros((S, P, H + 1, 3), dtype=np.float32)
            ret = np.zeros((S, P))
            for s in range(S):
                for p in range(P):
                    th, thd = starts[(s + 2 * p + item["seed"]) % len(starts)]
                    env.state = np.array([th, thd], dtype=np.float64)
                    traj[s, p, 0] = env._get_obs()
                    for t in range(H):
                        o, r, _, _, _ = env.step(acts[s, t])
                        traj[s, p, t + 1] = o
                        ret[s, p] += float(r)
            want = ret.mean(axis=1)
            meta = dict(n_samples=S, n_particles=P, horizon=H)
            try:
                got = np.asarray(pets.evaluate_plans(jnp.asarray(acts), jnp.asarray(traj), pendulum_reward), dtype=np.float64)
            except Exception as e:
                col.tick(1)
                col.violation(SIG.format("evaluate_plans", K_RAISES), dict(meta, error=repr(e)[:300]))
                continue
            col.tick(1, ("pendroll", H, P))
            if got.shape != (S,):
                col.violation(SIG.format("evaluate_plans", K_PSHAPE), dict(meta, shape=got.shape))
            elif not np.all(np.abs(got - want) <= 1e-3 * H * np.maximum(1.0, np.abs(want))):
                col.violation(SIG.format("pendulum_reward", K_PENDROLL), dict(meta, via="evaluate_plans", got=got, env_return=want))
    col.sample(dict(section="pendroll", last=meta, got=got, env_return=want))
