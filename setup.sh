#!/bin/bash
# Run once after a fresh restore, offline. Nothing is built: rl-blox is pure Python and is imported from /repo.
set -e
cd "$(dirname "$0")"
mkdir -p evidence replays .cache/jax
/venv/bin/python - <<'PY'
import sys
sys.path.insert(0, "/repo")
import rl_blox, os
p = os.path.dirname(os.path.dirname(os.path.abspath(rl_blox.__file__)))
assert p == "/repo", f"rl_blox resolves to {p}, not /repo"
print("rl_blox imported from", p)
PY
