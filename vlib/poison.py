"""Deterministic content for uninitialised memory.

The buffers allocate with np.empty; what such memory holds depends on the history of the process.  A check that
explores buffer histories owns that source of nondeterminism too: inside the replay-buffer module np.empty returns
memory filled with a sentinel, so code that reads a never-written slot does the same thing in every process (the
violation it causes then reproduces on replay)."""

import numpy as np

SENTINEL = -777.0


class _Np:
    def __init__(self, real, fill):
        self._real, self._fill = real, fill

    def __getattr__(self, name):
        return getattr(self._real, name)

    def empty(self, shape, dtype=float, **kw):
        a = self._real.empty(shape, dtype=dtype, **kw)
        if a.size and a.dtype.kind in "fiub":
            a[...] = self._real.asarray(self._fill).astype(a.dtype) if a.dtype.kind != "b" else True
        return a

    def empty_like(self, x, dtype=None, **kw):
        a = self._real.empty_like(x, dtype=dtype, **kw)
        if a.size and a.dtype.kind in "fiub":
            a[...] = self._real.asarray(self._fill).astype(a.dtype) if a.dtype.kind != "b" else True
        return a


def install(fill=SENTINEL):
    """Idempotent; returns the replay-buffer module."""
    from rl_blox.blox import replay_buffer as rb

    if not isinstance(rb.np, _Np):
        rb.np = _Np(rb.np, fill)
    else:
        rb.np._fill = fill
    return rb
