"""Learning batches of train_mrq when the routine creates its replay buffer itself.

train_mrq(replay_buffer=None) builds a SubtrajectoryReplayBufferPER from its own arguments (buffer_size,
encoder_horizon, q_horizon) and samples windows of length encoder_horizon (full view) and q_horizon (reduced
view) from it.  After a warm-up-only run on a ScriptEnv (observations are (episode, step) tags, reward = global step
number) every window the routine could draw is enumerated with an explorer-owned generator (a grid of uniform
variates covering every admissible start) and judged against the environment log:

  every row of the window is one stored environment transition (observation, action, reward, successor and flags of
  the same step), consecutive rows are consecutive steps of ONE episode, no row is a truncated step, nothing follows
  a terminated step.

Used by C01 (what is kept for learning equals what the environment produced) and by C07 (an n-step return only
uses rewards of the steps that follow, within the episode).  Returns a list of (kind, detail) problems.
"""

import numpy as np

from vlib import drivers as D


class GridRng:
    """Uniform variates on a grid of cell midpoints: with equal priorities every admissible start is drawn."""

    def __init__(self, grid=64):
        self.grid = grid

    def integers(self, low, high=None, size=None):
        if high is None:
            low, high = 0, low
        return low + np.arange(size) % max(high - low, 1)

    def uniform(self, low=0.0, high=1.0, size=None):
        n = size if isinstance(size, int) else int(np.prod(size))
        return low + (high - low) * ((np.arange(n) % self.grid + 0.5) / self.grid)

    def choice(self, a, size=None):
        return np.asarray(list(range(int(a))) if isinstance(a, (int, np.integer)) else list(a))[:1]


K_ROW = "learning-window-row-is-not-a-stored-environment-step"
K_CROSS = "learning-window-crosses-an-episode-end"
K_TRUNC = "learning-window-contains-a-truncated-step"
K_RETURN = "n-step-reward-sequence-not-from-the-following-steps-of-the-episode"
K_HORIZON = "created-buffer-horizon<sampling-horizon"


def run_and_judge(script, eh, qh, cap, seed, prebuilt=None):
    """-> (problems, stats, prebuilt). problems: [(kind, detail)]"""
    T = len(script)
    cfg = dict(buffer_size=cap, env_horizon=T + 3, seed=1 + seed, net_seed=seed, learning_starts=10**6, own_buffer=True,
               encoder_horizon=eh, q_horizon=qh, batch_size=2)
    if prebuilt is not None:
        cfg["prebuilt"] = prebuilt
    run = D.run("mrq", script, **cfg)
    stats = dict(windows=0, windows_near_an_episode_end=0, wrapped=False, error=run.error)
    if run.error is not None or run.result is None:
        return [], stats, run.prebuilt
    rb = run.result.replay_buffer
    trans = run.env.transitions()
    by_tag = {(int(t[0][0]), int(t[0][1])): i for i, t in enumerate(trans)}
    stats["wrapped"] = len(trans) + sum(1 for t in trans if t[4] or t[5]) > cap
    problems = []
    if int(np.count_nonzero(np.asarray(rb.mask_)[: rb.current_len])) == 0:
        # no admissible start exists (short history / tiny capacity): what sampling does then is outside the statement
        # (C04 does not sample in such states either); counted, not judged
        stats["no_admissible_start"] = True
        return problems, stats, run.prebuilt
    det0 = dict(script=script, encoder_horizon=eh, q_horizon=qh, buffer_size=cap, created_buffer_horizon=int(getattr(rb, "horizon", -1)))
    for h, view in ((eh, "encoder batch (full view)"), (qh, "critic batch (reduced view)")):
        try:
            full = rb.sample_batch(64, h, True, GridRng())
            red = rb.sample_batch(64, h, False, GridRng())
        except Exception as e:  # noqa: BLE001 - no admissible start yet (short history): nothing to judge
            stats.setdefault("sampling_rejected", []).append(f"{type(e).__name__}: {str(e)[:80]}")
            continue
        fa = {k: np.asarray(getattr(full, k)) for k in full._fields}
        ra = {k: np.asarray(getattr(red, k)) for k in red._fields}
        seen = set()
        for w in range(fa["terminated"].shape[0]):
            o0 = fa["observation"][w, 0]
            key = (float(o0[0]), float(o0[1]))
            if key in seen:
                continue
            seen.add(key)
            stats["windows"] += 1
            prev = None
            bad = None
            for j in range(h):
                o = fa["observation"][w, j]
                i = by_tag.get((int(o[0]), int(o[1])))
                row_ok = False
                if i is not None:
                    to, ta, tr, to2, tterm, ttrunc = trans[i]
                    f64 = lambda x: np.asarray(x, dtype=np.float64).reshape(-1)  # noqa: E731
                    row_ok = (np.array_equal(f64(o), f64(to)) and np.array_equal(f64(fa["action"][w, j]), f64(ta))
                              and float(fa["reward"][w, j]) == float(tr) and np.array_equal(f64(fa["next_observation"][w, j]), f64(to2))
                              and int(fa["terminated"][w, j]) == int(tterm) and int(fa["truncated"][w, j]) == int(ttrunc))
                if not row_ok:
                    bad = (K_ROW, j)
                    break
                if prev is not None and (i != prev + 1 or int(trans[i][0][0]) != int(trans[prev][0][0])):
                    bad = (K_CROSS, j)
                    break
                if trans[i][5]:
                    bad = (K_TRUNC, j)
                    break
                prev = i
                if trans[i][4]:
                    break
            i0 = by_tag.get((int(o0[0]), int(o0[1])))
            if i0 is not None and any(t[4] or t[5] for t in trans[i0:i0 + h]):
                stats["windows_near_an_episode_end"] += 1
            if bad is not None:
                problems.append((bad[0], dict(det0, view=view, horizon=h, row=bad[1], window_observations=fa["observation"][w].tolist(),
                                              window_rewards=fa["reward"][w].tolist(), window_truncated=fa["truncated"][w].tolist())))
                continue
            # the reduced view (what the critic target is built from) is the same window
            if view.startswith("critic"):
                same = (np.array_equal(ra["observation"][w], fa["observation"][w, 0]) and np.array_equal(ra["reward"][w], fa["reward"][w])
                        and np.array_equal(ra["next_observation"][w], fa["next_observation"][w, h - 1])
                        and np.array_equal(ra["terminated"][w], fa["terminated"][w]))
                if not same:
                    problems.append((K_RETURN, dict(det0, view=view, horizon=h, reduced_rewards=ra["reward"][w].tolist(), window_rewards=fa["reward"][w].tolist())))
    return problems, stats, run.prebuilt


def item_specs(tier, seed):
    """Work-item descriptions shared by C01 and C07 (name, scripts, horizon pairs, capacities)."""
    from vlib import senv

    q = tier == "quick"
    T = 9
    scripts = senv.scripts(T, "cTU", 1) + ["ccUccTccc", "cUcUccccc", "ccTcccUcc", "cccUUcccc", "cTTcccUcc"]
    if not q:
        scripts = senv.scripts(T, "cTU", 2)
    pairs = [(1, 3), (2, 3), (3, 1), (2, 2)] if q else [(1, 2), (1, 3), (2, 3), (1, 4), (3, 1), (2, 2), (3, 2)]
    out = []
    n = 6 if q else 20
    for i in range(0, len(scripts), n):
        out.append(dict(name=f"mrq-own-buffer-{scripts[i]}", kind="mrq-own-buffer", scripts=scripts[i:i + n], pairs=[list(p) for p in pairs], caps=[8, 32], seed=seed))
    return out


def work_item(item, col, sig):
    """sig(kind) -> signature string of the calling check."""
    pb = None
    for script in item["scripts"]:
        for (eh, qh), cap in ((tuple(p), c) for p in item["pairs"] for c in item["caps"]):
            problems, st, pb = run_and_judge(script, eh, qh, cap, item["seed"], pb)
            nontrivial = st["windows_near_an_episode_end"] > 0 or st["wrapped"]
            col.tick(max(1, st["windows"]), ("mrq-own", script, eh, qh, cap) if nontrivial else None)
            if st["error"]:
                col.outcome("mrq_own_buffer_runs_aborted_by_env_guard:" + st["error"])
                continue
            if st.get("no_admissible_start"):
                col.outcome("mrq_own_buffer_runs_without_an_admissible_start(not judged)")
                continue
            col.outcome("mrq_own_buffer_windows_judged", st["windows"])
            if qh > eh:
                col.outcome("mrq_own_buffer_runs_with_critic_horizon_above_encoder_horizon")
            if st["wrapped"]:
                col.outcome("mrq_own_buffer_runs_with_wrapped_buffer")
            for kind, detail in problems[:3]:
                col.violation(sig(kind), detail)
    col.sample(dict(kind="train_mrq(replay_buffer=None): every window the routine could draw", scripts=item["scripts"][:3], horizon_pairs=item["pairs"], capacities=item["caps"]))
