"""C05, loop-level half: (a) whole-routine ensemble training must change the ensemble for every
data-set / batch-size arithmetic; (b) after a learning-enabled run of every training loop, no two
differently named components (online / target / fixed / checkpoint networks, optimizers) share an
nnx.Variable, and a handed-in target is the one that is returned.

Plug-in for checks/c05.py: items(tier, seed) / work(item, col); kinds start with "loop".
"""

import contextlib
import io
import itertools

import jax
import jax.numpy as jnp
import numpy as np
from flax import nnx

from vlib import drivers as D
from vlib import snap as S

SIG = "C05|{}|{}"


def items(tier, seed):
    q = tier == "quick"
    out = []
    sizes = range(2, 9) if q else range(2, 13)
    for ne in (1, 2) if q else (1, 2, 3):
        out.append(dict(name=f"loop-train_ensemble-m{ne}", kind="loop-ensemble", members=ne, sizes=list(sizes), seed=seed))
    for name in D.OFF_POLICY:
        for handed in (True, False):
            out.append(dict(name=f"loop-alias-{name}-{'handed' if handed else 'created'}", kind="loop-alias", routine=name, handed=handed, seed=seed,
                            scripts=["ccTccc", "cccUcc"] if q else ["ccTccc", "cccUcc", "cccccc", "TcTcUc"]))
    # delayed actor updates: on a critic-only step of the loop the actor and its optimizer stay bit-identical
    for name in ("td3", "td3_lap", "sac"):
        for d in ((2, 3) if q else (2, 3, 4)):
            out.append(dict(name=f"loop-delay-{name}-d{d}", kind="loop-delay", routine=name, delay=d, seed=seed))
    return out


def delay_item(item, col):
    name, d = item["routine"], item["delay"]
    entry = "train_" + name
    for script, ls in itertools.product(["cccccccc", "ccTccUcc"], (0, 3)):
        cfg = dict(buffer_size=16, env_horizon=len(script) + 3, learning_starts=ls, batch_size=2, seed=1 + item["seed"], net_seed=item["seed"], snap=True)
        if name == "sac":
            cfg.update(policy_delay=d, delay=1)
        else:
            cfg.update(delay=d)
        run = D.run(name, script, **cfg)
        col.tick(1)
        if run.error or run.result is None:
            col.outcome("runs_aborted_by_env_guard:" + str(run.error))
            continue
        snaps = run.snaps
        moved_somewhere = False
        for (k0, t0, a), (k1, t1, b) in zip(snaps, snaps[1:]):
            step = t0
            critic_only = step >= ls and step % d != 0
            for comp in ("policy", "policy_optimizer"):
                changed = a[comp] != b[comp]
                moved_somewhere = moved_somewhere or changed
                col.tick(1, (entry, d, script, ls, step, comp) if critic_only else None)
                if critic_only:
                    col.outcome("loop_critic_only_steps_checked")
                    if a["q"] != b["q"]:
                        col.outcome("loop_critic_only_steps_where_the_critic_did_move")
                    if changed:
                        col.violation(SIG.format(entry, "changed-untrained:" + comp), dict(routine=name, script=script, learning_starts=ls, policy_delay=d, env_step=step,
                                                                                          what="critic-only step of the delayed schedule"))
        if moved_somewhere:
            col.outcome("loop_delay_runs_where_the_actor_moved_on_its_own_steps")
    col.sample(dict(kind="loop-delay", routine=name, delay=d))


def ensemble_item(item, col):
    import optax

    from rl_blox.blox import probabilistic_ensemble as PE

    ne = item["members"]
    for n, frac, bs, epochs in itertools.product(item["sizes"], (0.5, 0.7, 1.0), (1, 2, 3, 4), (1, 2)):
        n_boot = int(frac * n)
        if n_boot < 1:
            continue
        rng = np.random.default_rng(1000 * n + 10 * bs + item["seed"])
        X = jnp.asarray(rng.normal(size=(n, 2)).round(2), dtype=jnp.float32)
        Y = jnp.asarray(rng.normal(size=(n, 2)).round(2) + 1.0, dtype=jnp.float32)
        model = PE.GaussianMLPEnsemble(ne, True, 2, 2, [3], "tanh", nnx.Rngs(item["seed"]))
        opt = nnx.Optimizer(model, optax.sgd(0.1), wrt=nnx.Param)
        before = S.snap(model)
        det = dict(n_samples=n, train_size=frac, batch_size=bs, epochs=epochs, members=ne, bootstrap_size=n_boot)
        try:
            with contextlib.redirect_stdout(io.StringIO()):
                loss = PE.train_ensemble(model, opt, frac, X, Y, epochs, bs, jax.random.key(item["seed"]))
        except Exception as e:  # noqa: BLE001
            # a bootstrap sample smaller than one batch has no complete batch: a loud rejection is acceptable
            col.tick(1)
            col.outcome("train_ensemble_rejected_loudly" if n_boot < bs else "train_ensemble_raised_with_a_complete_batch_available")
            if n_boot >= bs:
                col.violation(SIG.format("train_ensemble", "raised-on-valid-input"), dict(det, error=f"{type(e).__name__}: {str(e)[:120]}"))
            continue
        jax.effects_barrier()
        changed = S.snap(model) != before
        exact = n_boot % bs == 0
        col.tick(1, ("train_ensemble", ne, n, frac, bs, epochs) if exact else None)
        if exact:
            col.outcome("train_ensemble_bootstrap_size_multiple_of_batch_size")
        if n_boot >= bs:
            # at least one complete batch exists and the data are generic (non-zero NLL gradient): must train
            col.outcome("train_ensemble_must_change_obligations")
            if not changed:
                col.violation(SIG.format("train_ensemble", "trained-unchanged:model"), dict(det, loss=float(np.asarray(loss)) if np.asarray(loss).size == 1 else None))
        elif changed:
            col.outcome("train_ensemble_trained_on_incomplete_batch(informational)")
    col.sample(dict(kind="train_ensemble", members=ne, sizes=item["sizes"]))


def _modules_of(result):
    out = {}
    if result is None:
        return out
    fields = getattr(result, "_fields", None)
    if fields is None:
        return out
    for f in fields:
        v = getattr(result, f)
        if isinstance(v, (nnx.Module, nnx.Optimizer)):
            out[f] = v
    return out


# result-field name -> name under which the harness handed the same object in
SAME_ROLE = {
    "q_net": "q", "q_target_net": "q_target", "optimizer": "q_optimizer", "policy": "policy", "policy_target": "policy_target",
    "policy_optimizer": "policy_optimizer", "q": "q", "q_target": "q_target", "q_optimizer": "q_optimizer", "embedding": "embedding",
    "embedding_optimizer": "embedding_optimizer", "actor_target": "actor_target", "actor_optimizer": "actor_optimizer", "critic": "critic",
    "critic_target": "critic_target", "critic_optimizer": "critic_optimizer",
}


# online components that every learning step of the routine trains (restated from the docstrings)
EVERY_STEP = {"dqn": ["q"], "nature_dqn": ["q"], "ddqn": ["q"], "ddqn_per": ["q"], "ddpg": ["q", "policy"], "td3": ["q"], "td3_lap": ["q"], "sac": ["q"],
              "td7": ["critic", "embedding"], "mrq": ["q"], "pets": ["model"]}


def _parts(name, mods):
    """Named sub-components observed separately."""
    out = {k: v for k, v in mods.items() if isinstance(v, (nnx.Module, nnx.Optimizer))}
    if name == "mrq" and "policy_with_encoder" in mods:
        out["policy_with_encoder.encoder"] = mods["policy_with_encoder"].encoder
        if "policy_with_encoder_target" in mods:
            out["policy_with_encoder_target.encoder"] = mods["policy_with_encoder_target"].encoder
    return out


def alias_item(item, col):
    name = item["routine"]
    entry = "train_" + name
    earlier = []  # (script, parts, snapshot) of the runs already finished in this item
    for script in item["scripts"]:
        script = script + "cc" if name == "mrq" else script
        cfg = dict(buffer_size=16, env_horizon=len(script) + 3, learning_starts=5 if name == "mrq" else 2, batch_size=2, seed=1 + item["seed"], net_seed=item["seed"],
                   delay=2 if name == "mrq" else 5, extra={}, snap=False)
        if name == "td7":
            cfg["use_checkpoints"] = False
        if not item["handed"]:
            cfg["targets_none"] = True
        # build first so that the initial parameters can be snapshotted, then run on the prebuilt objects
        env0 = D.make_env(name, script, cfg)
        call, mods = D.build(name, env0, cfg)
        parts = _parts(name, mods)
        before = S.snap_all(parts)
        run = D.run(name, script, prebuilt=(call, mods, cfg["_envbox"]), **{k: v for k, v in cfg.items() if k != "_envbox"})
        if not item["handed"]:
            run.mods = {k: v for k, v in run.mods.items() if "target" not in k}
        col.tick(1, (entry, item["handed"], script))
        if run.error:
            col.outcome("runs_aborted_by_env_guard:" + run.error)
            continue
        after = S.snap_all(parts)
        det0 = dict(routine=name, script=script, targets_handed_in=item["handed"])
        # (a) the components every learning step trains did change in this learning-enabled run
        for k in EVERY_STEP.get(name, []):
            if k in parts:
                col.outcome("loop_must_change_obligations")
                if before[k] == after[k]:
                    col.violation(SIG.format(entry, "trained-unchanged:" + k), dict(det0, component=k))
        if name == "mrq":
            # learning starts at step 5, target_delay 2: the run contains an encoder round (epoch 2)
            col.outcome("loop_must_change_obligations")
            if before["policy_with_encoder.encoder"] == after["policy_with_encoder.encoder"]:
                col.violation(SIG.format(entry, "trained-unchanged:encoder"), dict(det0, component="policy_with_encoder.encoder"))
        # (b) a later training run leaves the objects of an earlier, finished run alone
        for sc0, parts0, snap0 in earlier:
            now = S.snap_all(parts0)
            ch = S.changed(snap0, now)
            col.tick(1)
            if ch:
                col.violation(SIG.format(entry, "changed-components-of-an-earlier-run"), dict(det0, earlier_script=sc0, changed=ch))
        earlier.append((script, parts, after))
        res = _modules_of(run.result)
        roles = dict(res)
        for k, v in run.mods.items():
            if isinstance(v, (nnx.Module, nnx.Optimizer)) and not any(v is r for r in res.values()):
                roles["handed:" + k] = v
        det = dict(routine=name, script=script, targets_handed_in=item["handed"])
        names = sorted(roles)
        for a, b in itertools.combinations(names, 2):
            if roles[a] is roles[b]:
                col.violation(SIG.format(entry, "two-components-are-one-object"), dict(det, a=a, b=b))
                continue
            sh = S.aliases(roles[a], roles[b])
            col.tick(1)
            if sh:
                col.violation(SIG.format(entry, "components-share-variables"), dict(det, a=a, b=b, shared=len(sh)))
        if item["handed"]:
            # a target network handed in by the caller is the one that is trained against and returned
            for f, obj in res.items():
                h = SAME_ROLE.get(f)
                if h in run.mods and f.endswith("target") and run.mods[h] is not obj:
                    col.violation(SIG.format(entry, "handed-in-target-replaced"), dict(det, field=f))
        col.outcome("loop_runs_checked_for_shared_variables")
    col.sample(dict(kind="loop-alias", routine=name, handed=item["handed"], scripts=item["scripts"]))


def _run_created(name, script, cfg):
    """Same run, but the routine creates its own targets (None passed); the harness' unused
    target objects are dropped from the observed set."""
    r = D.run(name, script, targets_none=True, **cfg)
    r.mods = {k: v for k, v in r.mods.items() if "target" not in k}
    return r


def work(item, col):
    if item["kind"] == "loop-ensemble":
        return ensemble_item(item, col)
    if item["kind"] == "loop-delay":
        return delay_item(item, col)
    return alias_item(item, col)
