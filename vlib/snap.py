"""Bytes-level snapshots of nnx modules / optimizers (DESIGN 2.3)."""

import jax
import numpy as np
from flax import nnx


def snap(module):
    """Tuple of (path, dtype, shape, bytes) for every Variable reachable from the module."""
    out = []
    for path, leaf in jax.tree_util.tree_leaves_with_path(nnx.state(module)):
        a = np.asarray(leaf)
        out.append((jax.tree_util.keystr(path), str(a.dtype), a.shape, a.tobytes()))
    return tuple(out)


def snap_all(mods: dict):
    jax.effects_barrier()
    return {k: snap(v) for k, v in mods.items()}


def changed(before: dict, after: dict):
    return sorted(k for k in before if before[k] != after[k])


def leaves64(module):
    return [np.asarray(x, dtype=np.float64) for x in jax.tree_util.tree_leaves(nnx.state(module))]


def variables(module):
    return [v for _, v in nnx.iter_graph(module) if isinstance(v, nnx.Variable)]


def aliases(a, b):
    """Variable objects shared between two modules (must be empty for online/target pairs)."""
    ia = {id(v) for v in variables(a)}
    return [v for v in variables(b) if id(v) in ia]
