"""Shared plumbing for all checks: collectors, evidence, known findings, replay, CLI.

A check module (checks/cXX.py) exposes

    PROPERTY = "C02"; LEVEL = "model_checking"
    RULE = "...how cases are generated and what makes one non-trivial..."
    ASSUMPTIONS = [...]
    USES_JAX = True/False
    def items(tier, seed) -> list[dict]      # JSON-able work items, the complete enumeration
    def work(item, col) -> None              # explores one item, reports into the collector

`work` is the only thing that touches the implementation; a replay is simply `work` run again
on the item that produced the violation, outside the explorer, and it must reproduce it.
"""

from __future__ import annotations

import hashlib
import importlib
import json
import os
import subprocess
import sys
import time
import traceback

VERIF = os.path.dirname(os.path.dirname(os.path.abspath(__file__)))
_SCRATCH = os.environ.get("VERIF_REPO", "/repo") != "/repo"  # mutant runs never touch committed evidence
EVIDENCE_DIR = os.path.join(VERIF, "scratch", "evidence") if _SCRATCH else os.path.join(VERIF, "evidence")
REPLAY_DIR = os.path.join(VERIF, "scratch", "replays") if _SCRATCH else os.path.join(VERIF, "replays")
KNOWN = os.path.join(VERIF, "known_findings.json")
MAX_SAMPLES = 6
MAX_VIOL_PER_SIG = 3


def jsonable(x):
    import numpy as np

    if isinstance(x, dict):
        return {str(k): jsonable(v) for k, v in x.items()}
    if isinstance(x, (list, tuple, set, frozenset)):
        return [jsonable(v) for v in x]
    if isinstance(x, (np.generic,)):
        return x.item()
    if isinstance(x, np.ndarray):
        return x.tolist()
    if hasattr(x, "tolist") and hasattr(x, "shape"):
        return np.asarray(x).tolist()
    if isinstance(x, float):
        if x != x:
            return "nan"
        if x in (float("inf"), float("-inf")):
            return "inf" if x > 0 else "-inf"
        return x
    if isinstance(x, (str, int, bool)) or x is None:
        return x
    if isinstance(x, bytes):
        return x.hex()
    return repr(x)


def digest(obj) -> str:
    return hashlib.sha1(
        json.dumps(jsonable(obj), sort_keys=True).encode()
    ).hexdigest()


def skey(key) -> int:
    """Process-independent 64-bit key (str hashes are salted per interpreter)."""
    if isinstance(key, int):
        return key
    return int.from_bytes(hashlib.blake2b(repr(key).encode(), digest_size=8).digest(), "big")


class Collector:
    """Picklable accumulator filled by `work`; merged in the parent."""

    def __init__(self):
        self.evaluations = 0
        self.nontrivial = set()
        self.outcomes = {}
        self.samples = []
        self.violations = []  # dicts: signature, item, detail
        self.viol_counts = {}
        self.states = 0
        self.transitions = 0
        self.validated = 0
        self.caps = []
        self.extra = {}
        self.max_depth = 0
        self.lists = {}
        self._item = None

    # -- counting ---------------------------------------------------------------------
    def tick(self, n=1, key=None):
        """n evaluations; `key` marks a distinct non-trivial case (stable across processes)."""
        self.evaluations += n
        if key is not None:
            self.nontrivial.add(skey(key))

    def nontriv(self, key):
        self.nontrivial.add(skey(key))

    def outcome(self, name, n=1):
        self.outcomes[name] = self.outcomes.get(name, 0) + n

    def sample(self, obj):
        if len(self.samples) < MAX_SAMPLES:
            self.samples.append(jsonable(obj))

    def graph(self, states, transitions, validated=0, max_depth=0):
        self.states += states
        self.transitions += transitions
        self.validated += validated
        self.max_depth = max(self.max_depth, max_depth)

    def cap(self, text):
        self.caps.append(text)

    def append(self, name, obj):
        self.lists.setdefault(name, []).append(jsonable(obj))

    def set(self, name, value):
        self.extra[name] = jsonable(value)

    # -- violations -------------------------------------------------------------------
    def violation(self, signature, detail=None, item=None):
        """signature = 'Cxx|entry point|failure kind' (an enumerated vocabulary per check)."""
        n = self.viol_counts.get(signature, 0)
        self.viol_counts[signature] = n + 1
        if n < MAX_VIOL_PER_SIG:
            self.violations.append(
                {
                    "signature": signature,
                    "item": jsonable(item if item is not None else self._item),
                    "detail": jsonable(detail),
                }
            )

    def merge(self, other: "Collector"):
        self.evaluations += other.evaluations
        self.nontrivial |= other.nontrivial
        for k, v in other.outcomes.items():
            self.outcomes[k] = self.outcomes.get(k, 0) + v
        for s in other.samples:
            if len(self.samples) < MAX_SAMPLES:
                self.samples.append(s)
        for v in other.violations:
            have = sum(1 for w in self.violations if w["signature"] == v["signature"])
            if have < MAX_VIOL_PER_SIG:
                self.violations.append(v)
        for k, v in other.viol_counts.items():
            self.viol_counts[k] = self.viol_counts.get(k, 0) + v
        self.states += other.states
        self.transitions += other.transitions
        self.validated += other.validated
        self.max_depth = max(self.max_depth, other.max_depth)
        self.caps += other.caps
        for k, v in other.lists.items():
            self.lists.setdefault(k, []).extend(v)
        self.extra.update(other.extra)


# -- worker side -------------------------------------------------------------------------


def setup_env():
    os.environ.setdefault("JAX_PLATFORMS", "cpu")
    os.environ.setdefault(
        "XLA_FLAGS",
        "--xla_cpu_multi_thread_eigen=false intra_op_parallelism_threads=1",
    )
    os.environ.setdefault("OMP_NUM_THREADS", "1")
    os.environ.setdefault("OPENBLAS_NUM_THREADS", "1")
    os.environ.setdefault("MKL_NUM_THREADS", "1")
    os.environ.setdefault("TF_CPP_MIN_LOG_LEVEL", "3")
    os.environ["RL_BLOX_VERIF"] = "1"
    repo = os.environ.get("VERIF_REPO", "/repo")  # a scratch worktree when trying mutants
    if repo not in sys.path[:1]:
        sys.path.insert(0, repo)
    if VERIF not in sys.path:
        sys.path.insert(0, VERIF)


_WORKER = {}


def _worker_init(modname, uses_jax):
    setup_env()
    import warnings

    warnings.filterwarnings("ignore")
    mod = importlib.import_module(modname)
    _WORKER["mod"] = mod
    _WORKER["n"] = 0
    if uses_jax:
        import jax

        cache = os.path.join(VERIF, ".cache", "jax")
        try:
            os.makedirs(cache, exist_ok=True)
            jax.config.update("jax_compilation_cache_dir", cache)
            jax.config.update("jax_persistent_cache_min_compile_time_secs", 0.0)
            jax.config.update("jax_persistent_cache_min_entry_size_bytes", 0)
        except Exception:
            pass
    if hasattr(mod, "worker_init"):
        mod.worker_init()


def _worker_run(item):
    mod = _WORKER["mod"]
    col = Collector()
    col._item = item
    t0 = time.time()
    try:
        mod.work(item, col)
    except Exception as _e:
        from vlib import e1 as _e1

        if isinstance(_e, _e1.Diverged) and getattr(mod, "DIVERGENCE_ENTRY", None) and not col.violations:
            # checks that declare it: the object under test is meant to be self-contained, so two fresh objects driven
            # through the same operation history must agree; a divergence (shared class-level / module-level state) is a
            # finding about the implementation. The replay gate re-runs the item and requires the divergence again.
            entry = mod.DIVERGENCE_ENTRY(item) if callable(mod.DIVERGENCE_ENTRY) else mod.DIVERGENCE_ENTRY
            col.tick(1)
            col.violation(f"{mod.PROPERTY}|{entry}|behaviour-not-a-function-of-the-operation-history", dict(item=str(item.get("name", ""))[:120] if isinstance(item, dict) else "", what=str(_e)[:300]))
        elif col.violations:
            # the implementation already misbehaved in this item; what followed (e.g. a diverging
            # validation replay caused by uninitialised memory) is reported as a cap, not as a harness error
            col.cap("work item aborted after violations: " + traceback.format_exc().strip().splitlines()[-1][:200])
        else:
            col.extra["__harness_error__"] = {
                "item": jsonable(item),
                "trace": traceback.format_exc()[-3000:],
            }
    col._item = None
    _WORKER["n"] += 1
    if getattr(mod, "USES_JAX", False) and _WORKER["n"] % getattr(mod, "CLEAR_EVERY", 25) == 0:
        try:
            import jax

            jax.clear_caches()
        except Exception:
            pass
    col.extra["__item_time__"] = [str(item.get("name", ""))[:80] if isinstance(item, dict) else "", round(time.time() - t0, 2)]
    return col


# -- parent side -------------------------------------------------------------------------


def load_known():
    if not os.path.exists(KNOWN):
        return []
    with open(KNOWN) as f:
        return json.load(f)


def run_items(mod, items, nproc, deadline, col):
    """Run every item (in a spawned pool when nproc > 1); returns False if the cap tripped."""
    modname = mod.__name__
    uses_jax = getattr(mod, "USES_JAX", False)
    done = 0
    herr = None
    slow = []
    if nproc <= 1 or len(items) <= 1:
        _worker_init(modname, uses_jax)
        for it in items:
            if time.time() > deadline:
                break
            c = _worker_run(it)
            done += 1
            herr = herr or c.extra.pop("__harness_error__", None)
            slow.append(c.extra.pop("__item_time__", 0))
            col.merge(c)
    else:
        import multiprocessing as mp

        ctx = mp.get_context("spawn")
        maxtasks = getattr(mod, "RECYCLE_AFTER", None)
        pool = ctx.Pool(
            min(nproc, len(items)),
            initializer=_worker_init,
            initargs=(modname, uses_jax),
            maxtasksperchild=maxtasks,
        )
        try:
            it = pool.imap_unordered(_worker_run, items, chunksize=1)
            while True:
                try:
                    c = it.next(timeout=max(1.0, deadline - time.time()))
                except StopIteration:
                    break
                except mp.TimeoutError:
                    break
                done += 1
                herr = herr or c.extra.pop("__harness_error__", None)
                slow.append(c.extra.pop("__item_time__", 0))
                col.merge(c)
        finally:
            # a worker stuck in native code (e.g. a checkpoint library's thread pool) must not hang the check: workers are
            # killed outright, then the pool is torn down
            import threading

            workers = list(getattr(pool, "_pool", []))
            th = threading.Thread(target=pool.terminate, daemon=True)
            th.start()
            th.join(20.0)
            if th.is_alive():
                for p in workers:
                    try:
                        p.kill()
                    except Exception:  # noqa: BLE001
                        pass
                th.join(5.0)
                _HUNG_TEARDOWN.append(True)
    col.extra.pop("__item_time__", None)
    col.extra.pop("__harness_error__", None)
    return done, herr, slow


_HUNG_TEARDOWN = []  # set when a worker had to be killed: the interpreter is then left with os._exit (atexit would join the pool)


def validate_evidence(path):
    code = (
        "import json,sys,jsonschema;"
        "jsonschema.validate(json.load(open(sys.argv[1])),json.load(open('/root/.vp/EVIDENCE.schema.json')))"
    )
    if not os.path.exists("/root/.vp/EVIDENCE.schema.json"):
        return True, ""
    try:
        p = subprocess.run(
            ["python3-vt", "-c", code, path], capture_output=True, text=True, timeout=60
        )
    except Exception as e:  # tooling venv missing: do not fail the check for that
        return True, f"validator unavailable: {e}"
    return p.returncode == 0, p.stderr[-2000:]


def main(argv=None):
    import argparse

    ap = argparse.ArgumentParser()
    ap.add_argument("pid")
    ap.add_argument("--tier", default=os.environ.get("VERIF_TIER", "quick"))
    ap.add_argument("--replay")
    ap.add_argument("--nproc", type=int, default=int(os.environ.get("VERIF_NPROC", "16")))
    ap.add_argument("--only", help="substring filter on item 'name' (debugging; evidence marked partial)")
    args = ap.parse_args(argv)
    setup_env()
    import warnings

    warnings.filterwarnings("ignore")
    pid = args.pid.upper()
    seed = int(os.environ.get("VERIF_SEED", "0"))
    tier = args.tier if args.tier in ("quick", "thorough") else "quick"
    mod = importlib.import_module(f"checks.{pid.lower()}")

    if args.replay:
        return replay(mod, pid, args.replay)

    t0 = time.time()
    budget = getattr(mod, "BUDGET_S", {"quick": 8 * 60, "thorough": 40 * 60})[tier]
    deadline = t0 + budget
    items = mod.items(tier, seed)
    if args.only:
        items = [i for i in items if args.only in str(i.get("name", i))]
    col = Collector()
    done, herr, times = run_items(mod, items, args.nproc, deadline, col)
    if herr:
        print("HARNESS-ERROR in work item", json.dumps(herr["item"])[:400])
        print(herr["trace"])
        return 2
    capped = done < len(items)
    if capped:
        col.cap(f"wall-clock cap {budget}s: {done}/{len(items)} work items completed")

    # classify violations
    known = [k for k in load_known() if k.get("property") == pid]
    open_sigs = {k["signature"]: k for k in known if k.get("status") == "open"}
    new = [v for v in col.violations if v["signature"] not in open_sigs]
    new_sigs = sorted({v["signature"] for v in new})
    known_hit = sorted(s for s in col.viol_counts if s in open_sigs)
    rc = 0
    lines = []
    for s in known_hit:
        lines.append(
            f"KNOWN-FINDING: property={pid} {s} :: {open_sigs[s].get('what','')} (reproduced {col.viol_counts[s]}x)"
        )
    replay_paths = []
    if new:
        # replay determinism: re-run the producing item from scratch before reporting
        _worker_init(mod.__name__, getattr(mod, "USES_JAX", False))
        for s in new_sigs:
            v = next(v for v in new if v["signature"] == s)
            c2 = Collector()
            c2._item = v["item"]
            if getattr(mod, "RECYCLE_AFTER", None) == 1:
                # the check runs every item in a fresh process: so does the replay (an earlier replay in this process would
                # otherwise be process history for the next one)
                import multiprocessing as mp

                rp = mp.get_context("spawn").Pool(1, initializer=_worker_init, initargs=(mod.__name__, getattr(mod, "USES_JAX", False)), maxtasksperchild=1)
                try:
                    c2 = rp.apply_async(_worker_run, (v["item"],)).get(timeout=3600)
                except Exception:
                    print("HARNESS-ERROR: replay of violating item raised")
                    traceback.print_exc()
                    return 2
                finally:
                    for p_ in list(getattr(rp, "_pool", [])):
                        try:
                            p_.kill()
                        except Exception:  # noqa: BLE001
                            pass
                    _HUNG_TEARDOWN.append(True)
            else:
                c2 = _worker_run(v["item"])  # the same path as in the pool (incl. the declared divergence rule)
                he = c2.extra.pop("__harness_error__", None)
                if he is not None and s not in c2.viol_counts:
                    print("HARNESS-ERROR: replay of violating item raised")
                    print(he.get("trace", "")[-2000:])
                    return 2
            if s not in c2.viol_counts and getattr(mod, "REPLAY_MATCH", "signature") == "entry":
                # checks whose subject IS nondeterminism (C09): the failure kind is an attribution that may
                # legitimately differ between two executions; the replay must reproduce a violation at the
                # same entry point
                pre = s.rsplit("|", 1)[0] + "|"
                alt = [x for x in c2.viol_counts if x.startswith(pre)]
                if alt:
                    c2.viol_counts[s] = c2.viol_counts[alt[0]]
            if s not in c2.viol_counts:
                print(f"HARNESS-ERROR: violation {s} did not reproduce on replay (nondeterministic harness)")
                return 2
            os.makedirs(os.path.join(REPLAY_DIR, pid), exist_ok=True)
            path = os.path.join(REPLAY_DIR, pid, digest(v)[:16] + ".json")
            with open(path, "w") as f:
                json.dump({"property": pid, "tier": tier, "seed": seed, **v}, f, indent=1)
            replay_paths.append(path)
            lines.append(f"VIOLATION property={pid} replay={path}")
            lines.append(f"  signature={s} count={col.viol_counts[s]} detail={json.dumps(v['detail'])[:600]}")
        rc = 1

    wall = time.time() - t0
    nviol = sum(n for s, n in col.viol_counts.items() if s not in open_sigs)
    cov = {
        "evaluations": col.evaluations,
        "distinct_nontrivial": len(col.nontrivial),
        "rule": getattr(mod, "RULE", ""),
        "samples": col.samples,
        "outcomes": col.outcomes,
        "caps_hit": col.caps,
        "exhaustive": (not capped) and not col.caps and getattr(mod, "EXHAUSTIVE", True),
        "work_items": len(items),
        "work_items_completed": done,
        "known_findings_reproduced": {s: col.viol_counts[s] for s in known_hit},
        "violation_signatures": {s: col.viol_counts[s] for s in col.viol_counts if s not in open_sigs},
    }
    if col.states and col.transitions:
        # (a model-checking run whose searches all aborted has no graph to report: the generic keys remain)
        cov.update(
            states=col.states,
            transitions=col.transitions,
            traces_validated_against_impl=col.validated,
            max_depth=col.max_depth,
        )
    cov.update(col.extra)
    cov["slowest_work_items"] = sorted([t for t in times if t], key=lambda t: -t[1])[:5]
    for k, v in col.lists.items():
        cov[k] = v[:200]
    if args.only:
        cov["partial_run_filter"] = args.only
    ev = {
        "property_id": pid,
        "tier": tier,
        "seed": seed,
        "level": getattr(mod, "LEVEL", "exploration"),
        "coverage": cov,
        "assumptions": list(getattr(mod, "ASSUMPTIONS", [])),
        "wall_s": round(wall, 2),
        "violations": nviol,
    }
    # a filtered (debugging) run never replaces the evidence of the full check
    evdir = os.path.join(VERIF, "scratch", "evidence") if args.only else EVIDENCE_DIR
    os.makedirs(evdir, exist_ok=True)
    path = os.path.join(evdir, f"{pid}.json")
    with open(path, "w") as f:
        json.dump(ev, f, indent=1, sort_keys=False)
    ok, msg = validate_evidence(path)
    for ln in lines:
        print(ln)
    print(
        f"{pid} tier={tier} seed={seed} items={done}/{len(items)} evaluations={col.evaluations} "
        f"distinct_nontrivial={len(col.nontrivial)} states={col.states} transitions={col.transitions} "
        f"violations={nviol} known={len(known_hit)} wall={wall:.1f}s"
    )
    if not ok:
        print("HARNESS-ERROR: evidence file does not validate:", msg)
        if rc != 1:  # a reproduced violation is reported as such even if the coverage record is incomplete
            return 2
    if rc == 0 and col.evaluations == 0:
        print("HARNESS-ERROR: nothing was evaluated")
        return 2
    return rc


def replay(mod, pid, path):
    with open(path) as f:
        rec = json.load(f)
    _worker_init(mod.__name__, getattr(mod, "USES_JAX", False))
    col = Collector()
    col._item = rec["item"]
    sig = rec["signature"]
    try:
        mod.work(rec["item"], col)
    except Exception:
        if sig not in col.viol_counts:
            raise
    print("replaying item:", json.dumps(rec["item"])[:1000])
    if sig in col.viol_counts:
        v = next(v for v in col.violations if v["signature"] == sig)
        print(f"VIOLATION property={pid} replay={path}")
        print(f"  signature={sig} count={col.viol_counts[sig]}")
        print("  detail=" + json.dumps(v["detail"], indent=1)[:4000])
        return 1
    print(f"not reproduced: signature {sig} absent ({sorted(col.viol_counts)} seen)")
    return 0


if __name__ == "__main__":
    _rc = main()
    if _HUNG_TEARDOWN:
        sys.stdout.flush()
        sys.stderr.flush()
        os._exit(_rc if isinstance(_rc, int) else 0)
    sys.exit(_rc)
