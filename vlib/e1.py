"""E1: explicit-state breadth-first search over operation histories of a real object.

A state is a live bundle (implementation object + reference model + anything the oracle needs),
reached by deep-copying its parent and applying one op with the real method.  `canon(bundle)` is
the canonical key used to close the search.  Oracles run inside `apply` (per transition) and
`on_state` (per new state) and report into the collector.  After the search every BFS tree path
is re-executed from a *fresh* bundle (no deepcopy) and must reach the same canonical key and
produce the same observation: this validates the deepcopy shortcut and is the replay-determinism
check (`traces_validated_against_impl`).
"""

from __future__ import annotations

import collections
import copy


class Diverged(Exception):
    pass


def bfs(
    make,
    ops,
    apply,
    canon,
    on_state=None,
    max_depth=None,
    max_states=None,
    validate=True,
    copier=copy.deepcopy,
    validate_make=None,
):
    """Returns dict(states, transitions, max_depth, fixpoint, validated, paths).

    make() -> bundle; ops(bundle) -> iterable of ops; apply(bundle, op) -> observation
    (hashable/comparable, may be None) and mutates bundle; canon(bundle) -> hashable.
    """
    root = make()
    k0 = canon(root)
    seen = {k0: ()}
    obs_of = {}
    frontier = collections.deque([(root, ())])
    if on_state:
        on_state(root, ())
    transitions = 0
    maxd = 0
    fixpoint = True
    while frontier:
        st, hist = frontier.popleft()
        if max_depth is not None and len(hist) >= max_depth:
            fixpoint = False
            continue
        for op in list(ops(st)):
            nxt = copier(st)
            if hasattr(nxt, "__dict__"):
                nxt.__dict__["hist_ops"] = hist + (op,)  # shared, never copied (see Bundle.SHARED)
            obs = apply(nxt, op)
            transitions += 1
            k = canon(nxt)
            if k not in seen:
                h2 = hist + (op,)
                seen[k] = h2
                obs_of[k] = obs
                maxd = max(maxd, len(h2))
                if on_state:
                    on_state(nxt, h2)
                if max_states is not None and len(seen) >= max_states:
                    fixpoint = False
                    frontier.clear()
                    break
                frontier.append((nxt, h2))
    validated = 0
    if validate:
        for k, hist in seen.items():
            if not hist:
                continue
            b = (validate_make or make)()
            obs = None
            for i, op in enumerate(hist):
                if hasattr(b, "__dict__"):
                    b.__dict__["hist_ops"] = hist[: i + 1]
                obs = apply(b, op)
            if canon(b) != k or not _same(obs, obs_of.get(k)):
                raise Diverged(f"fresh replay of {hist!r} diverged from the explored state")
            validated += 1
    return dict(
        states=len(seen),
        transitions=transitions,
        max_depth=maxd,
        fixpoint=fixpoint,
        validated=validated,
        paths=seen,
    )


def _same(a, b):
    try:
        import numpy as np

        if isinstance(a, np.ndarray) or isinstance(b, np.ndarray):
            return np.array_equal(a, b)
    except Exception:
        pass
    return a == b


class Bundle:
    """State bundle whose attributes named in SHARED are not copied (collector, config)."""

    SHARED = ("col", "cfg", "hist_ops")

    def __deepcopy__(self, memo):
        new = self.__class__.__new__(self.__class__)
        for k, v in self.__dict__.items():
            if k in self.SHARED:
                new.__dict__[k] = v
            else:
                new.__dict__[k] = copy.deepcopy(v, memo)
        return new


class NullCol:
    """Collector stand-in for validation replays (oracles already ran during the search)."""

    def __getattr__(self, name):
        return lambda *a, **k: None


def hidden_state(obj, known=(), depth=2):
    """Digest of every instance attribute NOT named in `known`.

    A canonical key that is an abstraction is only sound if the object carries no state beyond what
    the abstraction looks at.  Appending hidden_state(obj, known) to the key makes any attribute the
    abstraction does not know about (a cache, a cursor added by a later change) part of the state,
    so such states are not merged away and their futures are explored."""
    import hashlib

    import numpy as np

    out = []
    for k in sorted(vars(obj)):
        if k in known:
            continue
        v = vars(obj)[k]
        out.append((k, _dig(v, depth)))
    return tuple(out)


def _dig(v, depth):
    import hashlib

    import numpy as np

    if isinstance(v, np.ndarray):
        return ("nd", str(v.dtype), v.shape, hashlib.sha1(np.ascontiguousarray(v).tobytes()).hexdigest()[:16])
    if isinstance(v, (int, float, str, bool, type(None), np.generic)):
        return repr(v)
    if isinstance(v, (list, tuple)):
        return tuple(_dig(x, depth) for x in v)
    if isinstance(v, (set, frozenset)):
        return tuple(sorted(repr(x) for x in v))
    if isinstance(v, dict):
        return tuple((repr(k), _dig(x, depth)) for k, x in sorted(v.items(), key=lambda kv: repr(kv[0])))
    if hasattr(v, "__dict__") and depth > 0:
        return tuple((k, _dig(x, depth - 1)) for k, x in sorted(vars(v).items()))
    if callable(v) or isinstance(v, type):
        return "callable"
    return repr(type(v))
