"""Scripted, recording environments (DESIGN 2.1) and script enumerations (engine E2)."""

import itertools

import gymnasium as gym
import numpy as np


class HorizonExceeded(RuntimeError):
    """The routine under test executed more environment steps than the explicit horizon."""


class StepAfterEnd(RuntimeError):
    """The routine stepped an environment whose episode had ended without resetting it."""


class LoggingBox(gym.spaces.Box):
    def sample(self, mask=None, probability=None):
        a = super().sample()
        self.calls.append(np.array(a))
        return a


class LoggingDiscrete(gym.spaces.Discrete):
    def sample(self, mask=None, probability=None):
        a = super().sample()
        self.calls.append(int(a))
        return a


class ScriptEnv(gym.Env):
    """Answers c/T/U/B come from `script` (default 'c' beyond its end).

    Observation tag: (episode_no, step_in_episode, 0...) - small integers exact in float32.
    Reward of global step t (1-based) is `level*100 + t` where level comes from `levels`
    (a string of digits parallel to script, default 0).  Every reset/step is logged with copies.
    """

    def __init__(self, script="", discrete=False, obs_dim=2, low=(-1.0, 0.0), high=(2.0, 3.0),
                 n_actions=2, horizon=None, levels="", reward_fn=None, discrete_obs=0, reward_kind=None, act_dtype=np.float32):
        if discrete_obs:
            self.observation_space = gym.spaces.Discrete(discrete_obs)
        else:
            self.observation_space = gym.spaces.Box(-np.inf, np.inf, (obs_dim,), dtype=np.float32)
        if discrete:
            self.action_space = LoggingDiscrete(n_actions)
        else:
            self.action_space = LoggingBox(np.array(low, dtype=act_dtype), np.array(high, dtype=act_dtype), dtype=act_dtype)
        self.action_space.calls = []
        self.script, self.levels = script, levels
        self.horizon = horizon
        self.reward_fn = reward_fn
        self.reward_kind = reward_kind  # "intfirst": first reward a Python int, later ones fractional floats
        self.discrete_obs = discrete_obs
        self.obs_dim = obs_dim
        self.t = 0  # global steps executed
        self.ep = 0
        self.k = 0
        self.done = True
        self.log = []  # ("reset", obs) | ("step", action, obs, reward, term, trunc)
        self.on_step = None  # callback(env) invoked at the top of every step()
        self.n_resets = 0
        self.sampler_calls_at_step = []  # len(action_space.calls) when step() no. i was entered

    def _obs(self):
        if self.discrete_obs:
            return int(self.uid % self.discrete_obs)
        o = np.zeros(self.obs_dim, dtype=np.float32)
        o[0] = self.ep
        o[1 % self.obs_dim] = self.k if self.obs_dim > 1 else self.ep * 100 + self.k
        return o

    def reset(self, seed=None, options=None):
        super().reset(seed=seed)
        if seed is not None:
            self.action_space.seed(seed)
        self.ep += 1
        self.k = 0
        self.uid = self.t + self.ep  # unique id per (episode, k) for tabular variants
        self.done = False
        self.n_resets += 1
        o = self._obs()
        self.log.append(("reset", np.array(o)))
        return o, {}

    def step(self, a):
        if self.on_step is not None:
            self.on_step(self)
        if self.done:
            self.log.append(("step-after-end",))
            raise StepAfterEnd("step() after episode end without reset()")
        if self.horizon is not None and self.t >= self.horizon:
            self.log.append(("horizon",))
            raise HorizonExceeded(f"more than {self.horizon} environment steps")
        self.sampler_calls_at_step.append(len(self.action_space.calls))
        c = self.script[self.t] if self.t < len(self.script) else "c"
        lvl = int(self.levels[self.t]) if self.t < len(self.levels) else 0
        self.t += 1
        self.k += 1
        self.uid = self.t + self.ep
        o = self._obs()
        term = c in "TB"
        trunc = c in "UB"
        self.done = term or trunc
        r = float(lvl * 100 + self.t) if self.reward_fn is None else float(self.reward_fn(self, lvl))
        if self.reward_kind == "intfirst":
            r = int(lvl * 100 + 1) if self.t == 1 else lvl * 100 + self.t + 0.1
        self.log.append(("step", np.array(a), np.array(o), r, term, trunc))
        return o, r, term, trunc, {}

    # ground truth ---------------------------------------------------------------------
    def transitions(self):
        """[(obs, action, reward, next_obs, terminated, truncated)] in execution order."""
        out, cur = [], None
        for e in self.log:
            if e[0] == "reset":
                cur = e[1]
            elif e[0] == "step":
                out.append((cur, e[1], e[3], e[2], e[4], e[5]))
                cur = e[2]
        return out

    @property
    def executed(self):
        return sum(1 for e in self.log if e[0] == "step")


def scripts(T, alphabet="cTU", max_dev=None):
    """All scripts of length T over `alphabet` (first symbol is the default answer) with at most
    max_dev deviations from the default; max_dev=None -> full product. Ordered by #deviations."""
    d = alphabet[0]
    others = alphabet[1:]
    if max_dev is None:
        max_dev = T
    out = []
    for k in range(0, min(max_dev, T) + 1):
        for pos in itertools.combinations(range(T), k):
            for sub in itertools.product(others, repeat=k):
                s = [d] * T
                for p, ch in zip(pos, sub):
                    s[p] = ch
                out.append("".join(s))
    return out
