"""C09 drivers: one tiny, learning-enabled invocation of EVERY training routine + a bytes-level digest.

`run_digest(name, script_id, seed, net_seed)` -> {"parts": {component: sha1}, "meta": {...}}.
The 11 step-granular off-policy routines go through the shared table vlib/drivers.py (with an
action-dependent scripted environment handed in); the 13 remaining routines have small drivers here.

The module is also the runner of the cross-interpreter runs:
    PYTHONHASHSEED=<h> /venv/bin/python /verif/vlib/c09_drivers.py '<json {"jobs": [...], "perturb": {...}}>'
prints one JSON line  C09RESULT {...}.
"""

from __future__ import annotations

import contextlib
import hashlib
import io
import json
import os
import random
import sys
import time as _time
from collections import deque
from functools import partial

if __name__ == "__main__":  # runner: set the environment up before jax is imported
    _V = os.path.dirname(os.path.dirname(os.path.abspath(__file__)))
    sys.path.insert(0, _V)
    from vlib import core as _core

    _core.setup_env()
    import warnings as _w

    _w.filterwarnings("ignore")

import gymnasium as gym
import jax
import jax.numpy as jnp
import numpy as np
import optax
from flax import nnx

from vlib import drivers, senv

OFF_POLICY = list(drivers.OFF_POLICY)
EPISODIC = ["reinforce", "ac"]
VECTOR = ["a2c", "ppo"]
TABULAR = ["q_learning", "sarsa", "double_q_learning", "monte_carlo", "dynaq"]
MULTITASK = ["smt", "active_mt", "uts"]
# configuration variants of a routine (same entry point): MR.Q learning from step 0 (sampling while no admissible
# sub-trajectory start exists yet) and the active scheduler with undiscounted UCB and constant rewards (exact ties)
# MR.Q with a buffer that wraps around during the run; A2C with a budget that is no multiple of one rollout
# td3 / sac on an environment whose Box action space is float64 (the routines build float32 views of it)
# MR.Q continued on a replay buffer that already holds more than 100 000 transitions (a non-initial state far beyond what
# the exhaustive part can reach; one deterministic deep state)
VARIANTS = {"mrq@ls0": "mrq", "active_mt@ties": "active_mt", "mrq@full": "mrq", "a2c@partial": "a2c", "td3@f64box": "td3", "sac@f64box": "sac",
            "mrq@prefilled": "mrq", "ddpg@gs3": "ddpg"}  # ddpg@gs3: three gradient steps per environment step
POLLUTABLE = {"ddpg", "td3", "td3_lap", "sac", "td7", "mrq", "pets"}  # continuous Box actions: an alt-bounds run exists
ROUTINES = OFF_POLICY + EPISODIC + VECTOR + TABULAR + ["cmaes"] + MULTITASK + list(VARIANTS)

ENTRY = {n: "train_" + VARIANTS.get(n, n) for n in ROUTINES}
ENTRY.update(ac="train_ac", ddqn_per="train_ddqn_per")

FAMILIES = {
    "dqn-family": ["dqn", "nature_dqn", "ddqn", "ddqn_per"],
    "ddpg-td3": ["ddpg", "td3", "td3_lap", "td3@f64box", "ddpg@gs3"],
    "sac": ["sac", "sac@f64box"],
    "td7": ["td7"],
    "mrq": ["mrq", "mrq@ls0", "mrq@full", "mrq@prefilled"],
    "pets": ["pets"],
    "policy-gradient": ["reinforce", "ac"],
    "a2c-ppo": ["a2c", "ppo", "a2c@partial"],
    "tabular": TABULAR,
    "cmaes": ["cmaes"],
    "multi-task": MULTITASK + ["active_mt@ties"],
}

# scripts: every one contains a termination and a truncation inside the executed horizon; all
# episodes have >= 2 steps (train_uts never advances on one-step episodes).
STEP_SCRIPTS = ["ccTccUccc", "cUcccTccc"]  # step-granular routines: 8 executed steps (+1 slack)
PERIODIC = ["ccTcU", "cUccTc"]  # whole-episode collectors: repeated up to the explicit horizon
SCRIPT_IDS = [0, 1]


def _periodic(i, n):
    p = PERIODIC[i % 2]
    return (p * (n // len(p) + 2))[:n]


# -- action-dependent scripted environment ------------------------------------------------------


class ActEnv(senv.ScriptEnv):
    """ScriptEnv whose observation and reward also depend on the last action, so that every random
    decision of the routine under test feeds back into everything that happens afterwards
    (a deterministic function of the action sequence; episode ends still come from the script)."""

    last_s = 0.0

    def _act_scalar(self, a):
        s = float(np.sum(np.asarray(a, dtype=np.float64)))
        return float(np.clip(s, -4.0, 4.0))

    def _obs(self):
        if self.discrete_obs:
            return int((self.uid + int(self.last_s)) % self.discrete_obs)
        o = super()._obs()
        o[1 % self.obs_dim] += np.float32(0.125 * self.last_s)
        return o

    def reset(self, seed=None, options=None):
        self.last_s = 0.0
        return super().reset(seed=seed, options=options)

    def step(self, a):
        self.last_s = self._act_scalar(a)
        return super().step(a)


def _reward(env, lvl):
    return float(env.t) + 0.25 * env.last_s


def make_env(script, discrete=False, discrete_obs=0, horizon=None, low=(-1.0, 0.0), high=(2.0, 3.0), act_dtype=np.float32):
    return ActEnv(script, discrete=discrete, discrete_obs=discrete_obs, horizon=horizon if horizon is not None else len(script),
                  low=low, high=high, reward_fn=_reward, act_dtype=act_dtype)


# -- logger ---------------------------------------------------------------------------------------


def make_logger():
    from rl_blox.logging.logger import MemoryLogger

    class SeqLogger(MemoryLogger):
        """The repo's MemoryLogger, additionally remembering the global order of the calls."""

        def __init__(self):
            super().__init__()
            self.seq = []

        def start_new_episode(self):
            super().start_new_episode()
            self.seq.append(("start",))

        def record_stat(self, key, value, *a, **k):
            super().record_stat(key, value, *a, **k)
            ep, st, _t = self.stats_loc[key][-1]  # wall-clock field dropped
            self.seq.append(("stat", key, value, ep, st))

        def record_epoch(self, key, value, episode=None, step=None, t=None):
            super().record_epoch(key, value, episode=episode, step=step, t=t)
            self.seq.append(("epoch", key, episode, step))

    return SeqLogger()


# -- digest ---------------------------------------------------------------------------------------


class Feeder:
    """Feeds a canonical byte encoding of an object graph into a hash. Never uses repr() of arbitrary
    objects (memory addresses) and never iterates sets in their native order."""

    def __init__(self):
        self.h = hashlib.sha1()
        self.opaque = []

    def b(self, *xs):
        for x in xs:
            self.h.update(x if isinstance(x, bytes) else str(x).encode())
            self.h.update(b"|")

    def arr(self, a):
        a = np.ascontiguousarray(a)
        self.b("A", a.dtype, a.shape)
        self.h.update(a.tobytes())

    def feed(self, o, depth=0):
        if depth > 12:
            self.opaque.append("depth")
            return
        if o is None or isinstance(o, (bool, int, str)):
            self.b(type(o).__name__, repr(o))
        elif isinstance(o, float):
            self.arr(np.float64(o))
        elif isinstance(o, (np.generic, np.ndarray)):
            self.arr(np.asarray(o))
        elif isinstance(o, jax.Array):
            if jnp.issubdtype(o.dtype, jax.dtypes.prng_key):
                o = jax.random.key_data(o)
            self.arr(np.asarray(o))
        elif isinstance(o, (nnx.Module, nnx.Optimizer)):
            self.b("M", type(o).__name__)
            for path, leaf in jax.tree_util.tree_leaves_with_path(nnx.state(o)):
                self.b(jax.tree_util.keystr(path))
                self.feed(leaf, depth + 1)
        elif hasattr(o, "buffers") and hasattr(o, "selected_task"):
            self.b("MT", len(o.buffers), int(o.selected_task))
            self.feed(o.active_buffers, depth + 1)  # a set: fed in sorted order
            self.feed(getattr(o, "sampled_task_idx", -1), depth + 1)
            for buf in o.buffers:
                self.feed(buf, depth + 1)
        elif hasattr(o, "buffer") and hasattr(o, "current_len"):
            n = int(o.current_len)
            self.b("RB", type(o).__name__, n, int(o.insert_idx), int(o.buffer_size))
            for k, v in o.buffer.items():  # OrderedDict, order is part of the returned object
                self.b(k)
                self.arr(np.asarray(v)[:n])
            if hasattr(o, "priority"):
                p = o.priority
                self.arr(np.asarray(p.priority)[:n])
                self.feed(float(p.max_priority))
                self.arr(np.asarray(p.sampled_indices))
            if hasattr(o, "mask_"):
                self.arr(np.asarray(o.mask_))
                self.feed(int(o.episode_timesteps))
                self.feed(bool(o.environment_terminates))
        elif isinstance(o, tuple) and hasattr(o, "_fields"):
            self.b("NT", type(o).__name__)
            for k in o._fields:
                self.b(k)
                self.feed(getattr(o, k), depth + 1)
        elif isinstance(o, (list, tuple, deque)):
            self.b("L", len(o))
            for x in o:
                self.feed(x, depth + 1)
        elif isinstance(o, dict):
            self.b("D", len(o))
            for k, v in o.items():
                self.b(repr(k) if isinstance(k, (str, int)) else type(k).__name__)
                self.feed(v, depth + 1)
        elif isinstance(o, (set, frozenset)):
            self.b("S", len(o))
            for x in sorted(o, key=repr):
                self.feed(x, depth + 1)
        elif callable(o) and not hasattr(o, "__dict__"):
            self.b("F")
        elif callable(o) and (hasattr(o, "__code__") or isinstance(o, partial) or hasattr(o, "__wrapped__")):
            self.b("F")
        else:
            leaves = None
            try:
                lp = jax.tree_util.tree_leaves_with_path(o)
                if not (len(lp) == 1 and lp[0][1] is o):
                    leaves = lp
            except Exception:  # noqa: BLE001
                leaves = None
            if leaves is not None:
                self.b("PT", type(o).__name__)
                for path, leaf in leaves:
                    self.b(jax.tree_util.keystr(path))
                    self.feed(leaf, depth + 1)
            elif hasattr(o, "__dict__") and not isinstance(o, type):
                self.b("O", type(o).__name__)
                for k, v in vars(o).items():
                    if isinstance(v, gym.Env) or isinstance(v, gym.spaces.Space):
                        continue
                    self.b(k)
                    self.feed(v, depth + 1)
            else:
                self.opaque.append(type(o).__name__)
                self.b("?", type(o).__name__)


def part(o):
    f = Feeder()
    f.feed(o)
    return f.h.hexdigest()[:16], f.opaque


def logger_part(lg):
    f = Feeder()
    f.b(int(lg.n_episodes), int(lg.n_steps))
    f.feed(list(lg.stats))  # order in which statistic names first appeared
    for e in lg.seq:
        f.b(e[0])
        for x in e[1:]:
            f.feed(x)
    # the MemoryLogger's own containers, per key
    for k in sorted(lg.stats):
        f.b(k, len(lg.stats[k]))
        for v, loc in zip(lg.stats[k], lg.stats_loc[k]):
            f.feed(v)
            f.feed([loc[0], loc[1]])
    return f.h.hexdigest()[:16], f.opaque


def env_part(envs):
    """What the environment saw (actions) and answered - equal by construction if the run is deterministic."""
    f = Feeder()
    for e in envs:
        f.b("env", e.t, e.ep, e.n_resets)
        for ev in e.log:
            f.b(ev[0])
            for x in ev[1:]:
                f.feed(x)
        f.feed(list(e.action_space.calls))
    return f.h.hexdigest()[:16], f.opaque


# -- building blocks ------------------------------------------------------------------------------


def _opt(m, lr=1e-2):
    return nnx.Optimizer(m, optax.adam(lr), wrt=nnx.Param)


def _quiet():
    return contextlib.redirect_stdout(io.StringIO())


class Out(dict):
    pass


def _finish(name, comps, envs, logger, before, err=None):
    """comps: {component name: object}. Returns parts + meta."""
    jax.effects_barrier()
    parts, opaque = {}, []
    for k, v in comps.items():
        parts[k], op = part(v)
        opaque += op
    if logger is not None:
        parts["logger"], op = logger_part(logger)
        opaque += op
    parts["env_trace"], op = env_part(envs)
    parts["status"] = err or "completed"
    learned = sorted(k for k in before if k in comps and part(comps[k])[0] != before[k])
    return dict(
        parts=parts,
        meta=dict(
            opaque=sorted(set(opaque)), learned=learned, executed=[int(e.t) for e in envs],
            episodes=[int(e.ep) for e in envs], n_stats=(len(logger.seq) if logger is not None else 0),
            sampler_calls=sum(len(e.action_space.calls) for e in envs), error=err,
        ),
    )


def _guard(fn):
    """Run the routine; the explicit horizon stops livelocks: 'run did not complete'."""
    try:
        with _quiet():
            return fn(), None
    except senv.HorizonExceeded:
        return None, "horizon-exceeded"
    except senv.StepAfterEnd:
        return None, "step-after-end"


# -- the 11 step-granular off-policy routines -----------------------------------------------------


def _prefilled_subtrajectory_buffer(n):
    """A SubtrajectoryReplayBufferPER holding n synthetic transitions (50-step truncated episodes, deterministic values)."""
    from rl_blox.blox import replay_buffer as rbm

    rb = rbm.SubtrajectoryReplayBufferPER(n + 400, horizon=2)
    for i in range(n):
        k = i % 50
        rb.add_sample(observation=np.array([0.1 * (i % 7), 0.1 * k], np.float32), action=np.array([0.25 * (i % 5) - 0.5, 1.0 + 0.125 * (i % 3)], np.float32),
                      reward=0.1 * ((i * 37) % 11 - 5), next_observation=np.array([0.1 * ((i + 1) % 7), 0.1 * (k + 1)], np.float32),
                      terminated=False, truncated=k == 49)
    return rb


def run_off_policy(name, sid, seed, net_seed, alt_bounds=False):
    variant, name = name, VARIANTS.get(name, name)
    script = STEP_SCRIPTS[sid]
    T = 8
    if name == "pets":
        env = make_env(script, horizon=T + 1, low=(-3.0,) if alt_bounds else (-1.0,), high=(5.0,) if alt_bounds else (2.0,))
    elif alt_bounds and name not in drivers.DISCRETE:
        env = make_env(script, horizon=T + 1, low=(-3.0, -2.0), high=(5.0, 7.0))
    elif variant.endswith("@f64box"):
        env = make_env(script, horizon=T + 1, act_dtype=np.float64)
    else:
        env = make_env(script, discrete=name in drivers.DISCRETE, horizon=T + 1)
    lg = make_logger()
    cfg = dict(env=env, seed=seed, net_seed=net_seed, total_timesteps=T, learning_starts=2, batch_size=2, delay=2,
               buffer_size=6, extra={"logger": lg}, width=3)
    if name == "mrq":
        cfg.update(learning_starts=0 if variant == "mrq@ls0" else 4, buffer_size=7 if variant == "mrq@full" else 12)
    if variant == "ddpg@gs3":
        cfg.update(gradient_steps=3)
    if variant == "mrq@prefilled":
        cfg.update(replay_buffer=_prefilled_subtrajectory_buffer(100_200), learning_starts=2)
    if name == "pets":
        cfg.update(learning_starts=3)
    if name == "dqn":
        env.action_space.seed(net_seed)  # the other routines' create_*_state / reset(seed=) seed the sampler
    # snapshot of the handed-in modules before the run (non-vacuity: did anything learn?)
    holder = {}
    orig_build = drivers.build

    def build(n, e, c):
        call, mods = orig_build(n, e, c)
        holder["before"] = {k: part(v)[0] for k, v in mods.items()}
        return call, mods

    drivers.build = build
    try:
        r = drivers.run(name, script, **cfg)
    finally:
        drivers.build = orig_build
    comps = dict(r.mods)
    comps["replay_buffer"] = r.rb
    if r.result is not None:
        comps["returned"] = r.result
    return _finish(name, comps, [env], lg, holder["before"], r.error)


# -- REINFORCE / actor-critic -----------------------------------------------------------------------


def run_episodic(name, sid, seed, net_seed):
    from rl_blox.algorithm.actor_critic import train_ac
    from rl_blox.algorithm.reinforce import create_policy_gradient_continuous_state, create_policy_gradient_discrete_state, train_reinforce

    budget = 10
    discrete = sid == 0  # script 0: softmax policy on a discrete env; script 1: Gaussian policy on a Box env
    env = make_env(_periodic(sid, budget + 8), discrete=discrete)
    env.action_space.seed(seed)
    mk = create_policy_gradient_discrete_state if discrete else create_policy_gradient_continuous_state
    st = mk(env, policy_hidden_nodes=[3], value_network_hidden_nodes=[3], policy_learning_rate=1e-2, value_network_learning_rate=1e-2, seed=net_seed)
    comps = dict(policy=st.policy, policy_optimizer=st.policy_optimizer, value_function=st.value_function,
                 value_function_optimizer=st.value_function_optimizer)
    before = {k: part(v)[0] for k, v in comps.items()}
    lg = make_logger()
    f = train_reinforce if name == "reinforce" else train_ac
    res, err = _guard(lambda: f(env, st.policy, st.policy_optimizer, st.value_function, st.value_function_optimizer, seed=seed,
                                total_timesteps=budget, gamma=0.9, steps_per_update=4, logger=lg, progress_bar=False))
    if res is not None:
        comps["returned"] = res
    return _finish(name, comps, [env], lg, before, err)


# -- A2C / PPO ----------------------------------------------------------------------------------------


def run_vector(name, sid, seed, net_seed):
    from rl_blox.blox.function_approximator.mlp import MLP
    from rl_blox.blox.function_approximator.policy_head import SoftmaxPolicy

    variant, name = name, VARIANTS.get(name, name)
    n = 16
    scripts = [_periodic(sid, n), _periodic(sid + 1, n)]
    mode = gym.vector.AutoresetMode.SAME_STEP if name == "ppo" else gym.vector.AutoresetMode.NEXT_STEP
    envs = gym.vector.SyncVectorEnv([(lambda s=s: make_env(s, discrete=True)) for s in scripts], autoreset_mode=mode)
    actor = SoftmaxPolicy(MLP(2, 2, [3], "relu", nnx.Rngs(net_seed)))
    critic = MLP(2, 1, [3], "relu", nnx.Rngs(net_seed + 1))
    oa, oc = _opt(actor), _opt(critic)
    lg = make_logger()
    if name == "ppo":
        from rl_blox.algorithm.ppo import train_ppo

        comps = dict(actor=actor, critic=critic, optimizer_actor=oa, optimizer_critic=oc)
        before = {k: part(v)[0] for k, v in comps.items()}
        res, err = _guard(lambda: train_ppo(envs, actor, critic, oa, oc, iterations=3, epochs=1, batch_size=3, seed=seed, logger=lg, progress_bar=False))
    else:
        from rl_blox.algorithm.a2c import train_a2c

        wenvs = gym.wrappers.vector.RecordEpisodeStatistics(envs)
        comps = dict(policy=actor, policy_optimizer=oa, value_function=critic, value_function_optimizer=oc)
        before = {k: part(v)[0] for k, v in comps.items()}
        res, err = _guard(lambda: train_a2c(wenvs, actor, oa, critic, oc, seed=seed, total_timesteps=20 if variant == "a2c@partial" else 18, gamma=0.9, gae_lambda=0.8,
                                            steps_per_update=3, log_frequency=None, logger=lg, progress_bar=False))
    if res is not None:
        comps["returned"] = res
    return _finish(name, comps, list(envs.envs), lg, before, err)


# -- tabular ------------------------------------------------------------------------------------------


def run_tabular(name, sid, seed, net_seed):
    import importlib

    T = 14
    nS = 12
    base = make_env(STEP_SCRIPTS[sid] + "cTccUc", discrete=True, discrete_obs=nS, horizon=T + 1)
    base.action_space.seed(seed)
    base.observation_space.seed(seed)
    env = gym.wrappers.RecordEpisodeStatistics(base)
    q0 = jnp.asarray(np.random.default_rng(1000 + net_seed).integers(-2, 3, size=(nS, 2)).astype(np.float32) * 0.25)
    lg = make_logger()
    mod = importlib.import_module("rl_blox.algorithm." + name)
    f = getattr(mod, "train_" + name)
    kw = dict(total_timesteps=T, seed=seed, logger=lg, progress_bar=False, gamma=0.9, epsilon=0.5)
    if name == "double_q_learning":
        q1 = jnp.asarray(np.random.default_rng(2000 + net_seed).integers(-2, 3, size=(nS, 2)).astype(np.float32) * 0.25)
        res, err = _guard(lambda: f(env, q0, q1, learning_rate=0.5, **kw))
        before = {"returned": part((q0, q1))[0]}
    elif name == "monte_carlo":
        res, err = _guard(lambda: f(env, q0, **kw))
        before = {"returned": part((q0, jnp.zeros_like(q0)))[0]}
    elif name == "dynaq":
        res, err = _guard(lambda: f(env, q0, learning_rate=0.5, n_planning_steps=3, buffer_size=4, **kw))
        before = {"returned": part(q0)[0]}
    else:
        res, err = _guard(lambda: f(env, q0, learning_rate=0.5, **kw))
        before = {"returned": part(q0)[0]}
    comps = {}
    if res is not None:
        comps["returned"] = tuple(res) if isinstance(res, tuple) else res
    return _finish(name, comps, [base], lg, before, err)


# -- CMA-ES -------------------------------------------------------------------------------------------


def run_cmaes(name, sid, seed, net_seed):
    from rl_blox.algorithm.cmaes import train_cmaes
    from rl_blox.blox.function_approximator.mlp import MLP

    n_eps = 9
    env = make_env(_periodic(sid, 4 * n_eps + 6))
    env.action_space.seed(seed)
    policy = MLP(2, 2, [2], "tanh", nnx.Rngs(net_seed))
    before = {"policy": part(policy)[0]}
    lg = make_logger()
    res, err = _guard(lambda: train_cmaes(env, policy, total_episodes=n_eps, seed=seed, variance=0.5, n_samples_per_update=4,
                                          active=bool(sid), logger=lg, progress_bar=False))
    comps = dict(policy=policy)
    if res is not None:
        comps["returned"] = res
    return _finish(name, comps, [env], lg, before, err)


# -- multi-task schedulers ----------------------------------------------------------------------------


def run_multitask(name, sid, seed, net_seed):
    from rl_blox.blox.replay_buffer import MultiTaskReplayBuffer, ReplayBuffer

    variant, name = name, VARIANTS.get(name, name)
    ties = variant == "active_mt@ties"

    n_tasks = {"active_mt": 2, "smt": 4}.get(name, 3)  # SMT: 4 tasks so that the main pool holds tied candidates
    budget = 24 if name == "active_mt" else 14  # active-MT: long enough to leave the bandit's initial round-robin phase
    envs = gym.vector.SyncVectorEnv([(lambda i=i: make_env(_periodic(sid if ties else sid + i, budget + 8))) for i in range(n_tasks)])
    if ties:
        for e in envs.envs:
            e.reward_fn = lambda env, lvl: 1.0  # every episode of every task has the same return: exact UCB ties
    env0 = envs.envs[0]
    lg = make_logger()
    H = [3]
    if name == "uts":
        from rl_blox.algorithm.td3 import create_td3_state, train_td3
        from rl_blox.algorithm.uniform_task_sampling import train_uts

        st = create_td3_state(env0, policy_hidden_nodes=H, q_hidden_nodes=H, policy_learning_rate=1e-2, q_learning_rate=1e-2, seed=net_seed)
        pt, qt = nnx.clone(st.policy), nnx.clone(st.q)
        rb = ReplayBuffer(8)
        comps = dict(policy=st.policy, policy_optimizer=st.policy_optimizer, q=st.q, q_optimizer=st.q_optimizer, policy_target=pt, q_target=qt, replay_buffer=rb)
        train_st = partial(train_td3, policy=st.policy, policy_optimizer=st.policy_optimizer, q=st.q, q_optimizer=st.q_optimizer,
                           policy_target=pt, q_target=qt, replay_buffer=rb, batch_size=2, gamma=0.9, tau=0.5, policy_delay=2)
        before = {k: part(v)[0] for k, v in comps.items()}
        res, err = _guard(lambda: train_uts(envs, train_st, total_timesteps=budget, episodes_per_task=1, seed=seed, exploring_starts=3,
                                            progress_bar=False, logger=lg))
    else:
        from rl_blox.algorithm.ddpg import create_ddpg_state, train_ddpg

        st = create_ddpg_state(env0, policy_hidden_nodes=H, q_hidden_nodes=H, policy_learning_rate=1e-2, q_learning_rate=1e-2, seed=net_seed)
        pt, qt = nnx.clone(st.policy), nnx.clone(st.q)
        rb = MultiTaskReplayBuffer(ReplayBuffer(buffer_size=8), n_tasks)
        comps = dict(policy=st.policy, policy_optimizer=st.policy_optimizer, q=st.q, q_optimizer=st.q_optimizer, policy_target=pt, q_target=qt, replay_buffer=rb)
        train_st = partial(train_ddpg, policy=st.policy, policy_optimizer=st.policy_optimizer, q=st.q, q_optimizer=st.q_optimizer,
                           policy_target=pt, q_target=qt, batch_size=2, gamma=0.9, tau=0.5)
        before = {k: part(v)[0] for k, v in comps.items()}
        if name == "smt":
            from rl_blox.algorithm.smt import train_smt

            res, err = _guard(lambda: train_smt(envs, train_st, rb, b1=9, b2=5, solved_threshold=1e6, unsolvable_threshold=-1e6,
                                                scheduling_interval=1, kappa=0.3, K=2, n_average=2, learning_starts=3, seed=seed,
                                                logger=lg, progress_bar=False))
        else:
            from rl_blox.algorithm.active_mt import train_active_mt

            from rl_blox.algorithm.active_mt import TASK_SELECTORS
            from rl_blox.blox.multitask import DUCBGeneralized

            sel_name = ["Monotonic Progress", "1-step Progress"][sid % 2]
            sel = DUCBGeneralized(tasks=np.arange(n_tasks), upper_bound=20.0, ducb_gamma=1.0 if ties else 0.9, zeta=0.5, **TASK_SELECTORS[sel_name][1])
            comps["task_selector"] = sel
            res, err = _guard(lambda: train_active_mt(envs, train_st, rb, r_max=20.0, ducb_gamma=0.9, xi=0.5, task_selector=sel,
                                                      total_timesteps=budget, scheduling_interval=1, learning_starts=3, seed=seed,
                                                      logger=lg, progress_bar=False))
    if res is not None:
        comps["returned"] = res
    return _finish(name, comps, list(envs.envs), lg, before, err)


def run_digest(name, sid, seed, net_seed, alt_bounds=False):
    if VARIANTS.get(name, name) in OFF_POLICY:
        return run_off_policy(name, sid, seed, net_seed, alt_bounds)
    if name in EPISODIC:
        return run_episodic(name, sid, seed, net_seed)
    if VARIANTS.get(name, name) in VECTOR:
        return run_vector(name, sid, seed, net_seed)
    if name in TABULAR:
        return run_tabular(name, sid, seed, net_seed)
    if name == "cmaes":
        return run_cmaes(name, sid, seed, net_seed)
    if VARIANTS.get(name, name) in MULTITASK:
        return run_multitask(name, sid, seed, net_seed)
    raise KeyError(name)


# -- perturbation of the sources the routines do not own -----------------------------------------

T_VIRTUAL = 1_700_000_000.0


@contextlib.contextmanager
def perturbed(glob=0, shift=0.0, vclock=False):
    """Global `random` / `numpy.random` state seeded with `glob` (and advanced by `glob % 7` draws);
    `time.time` / `time.time_ns` shifted by `shift` seconds; vclock: a virtual clock (fixed origin, advances
    1 ms per call) instead of the real one, used only when attributing a difference."""
    random.seed(glob)
    np.random.seed(glob % (2**32))
    for _ in range(glob % 7):
        random.random()
        np.random.rand()
    real_time, real_ns = _time.time, _time.time_ns
    n = [0]
    if vclock:
        def now():
            n[0] += 1
            return T_VIRTUAL + shift + 1e-3 * n[0]
    else:
        def now():
            return real_time() + shift
    _time.time = now
    _time.time_ns = lambda: int(now() * 1e9)
    # uninitialised memory: the buffers allocate with np.empty; its content is whatever the heap held.  The
    # harness owns that source too: inside the replay-buffer module np.empty returns memory filled with a value
    # that depends on the perturbation, so a result that reads a never-written slot differs between the runs
    from rl_blox.blox import replay_buffer as _rb

    real_np = _rb.np
    # large for odd perturbation values, small for even ones (a result that clamps the garbage away on one side still differs)
    fill = 1000.0 + (glob % 997) + 0.25 if glob % 2 else 2.0**-6 * (1 + glob % 13)

    class _Np:
        def __getattr__(self, name):
            return getattr(real_np, name)

        @staticmethod
        def empty(shape, dtype=float, **kw):
            a = real_np.empty(shape, dtype=dtype, **kw)
            if a.size:
                a[...] = real_np.asarray(fill).astype(a.dtype)
            return a

    _rb.np = _Np()
    # the monotonic / performance clocks: a run must not depend on how fast the machine is.  Both run at a rate that depends
    # on the perturbation (1 ms per reading for odd, 80 ms per reading for even values)
    # (only for the library's own modules: the interpreter's time.monotonic is left alone, because threading, subprocess and
    # the JAX runtime compute their timeouts with it)
    import sys as _sys

    ticks = [0]
    rate = 1e-3 if glob % 2 else 8e-2

    def mono():
        ticks[0] += 1
        return 5000.0 + rate * ticks[0]

    class _TimeProxy:
        monotonic = staticmethod(mono)
        perf_counter = staticmethod(mono)
        monotonic_ns = staticmethod(lambda: int(mono() * 1e9))
        perf_counter_ns = staticmethod(lambda: int(mono() * 1e9))

        def __getattr__(self, name):
            return getattr(_time, name)

    proxied = []
    for mname, mod in list(_sys.modules.items()):
        if mname.startswith("rl_blox") and getattr(mod, "time", None) is _time:
            mod.time = _TimeProxy()
            proxied.append(mod)
    try:
        yield
    finally:
        _time.time, _time.time_ns = real_time, real_ns
        for mod in proxied:
            mod.time = _time
        _rb.np = real_np


def _other_flavours():
    """More process history: buffers of the other flavours (discrete actions, custom keys / dtypes, prioritized) are built
    and used, so state shared between instances (class attributes, module-level defaults) is touched before the job."""
    from rl_blox.blox import replay_buffer as rbm

    for b in (rbm.ReplayBuffer(3, discrete_actions=True), rbm.LAP(3, discrete_actions=True), rbm.PrioritizedReplayBuffer(3, discrete_actions=True)):
        for i in range(4):
            b.add_sample(observation=np.zeros(2), action=i % 2, reward=0.5, next_observation=np.ones(2), termination=bool(i % 2))
    c = rbm.ReplayBuffer(2, keys=["a", "b"], dtypes=[np.float32, np.int16])
    c.add_sample(a=1.5, b=2)
    from rl_blox.blox.mapb import DUCB

    d = DUCB(n_arms=2, upper_bound=1.0, gamma=0.9)
    for r in (0.5, 1.0, 0.0):
        d.choose_arm()
        d.reward(r)


def run_jobs(jobs, perturb):
    """jobs: [[name, sid, seed, net_seed], ...] -> {job key: result}. Each job is run under the same perturbation
    (global RNGs re-seeded per job so that a job's result does not depend on its position in the list)."""
    out = {}
    perturb = dict(perturb)
    pollute = perturb.pop("pollute", False)
    for name, sid, seed, net_seed in jobs:
        if pollute and VARIANTS.get(name, name) in POLLUTABLE:
            # process history: in this (fresh) interpreter a different training - same routine, other action
            # bounds - runs BEFORE the job, so anything kept across calls is filled by the other run first
            with perturbed(**perturb):
                run_digest(name, sid, seed + 77, net_seed, alt_bounds=True)
                _other_flavours()
        with perturbed(**perturb):
            out[job_key(name, sid, seed, net_seed)] = run_digest(name, sid, seed, net_seed)
    return out


def job_key(name, sid, seed, net_seed):
    return f"{name}/script{sid}/seed{seed}/net{net_seed}"


# small string sets whose iteration order the interpreters report: evidence that the hash-seed perturbation really
# reorders unordered containers (the hash seeds in checks/c09.py were chosen so that all of them are reordered)
PROBE_SETS = [
    ["q loss", "q mean", "policy loss"],
    ["q", "q_target", "policy", "policy_target"],
    ["observation", "action", "reward", "next_observation", "termination"],
    ["task-0", "task-1", "task-2"],
    ["a", "b", "c"],
    ["0", "1", "2", "3"],
    ["return", "episode_length", "loss"],
    ["policy", "value_function", "critic", "actor"],
    ["Round Robin", "1-step Progress", "Monotonic Progress", "Best Reward", "Diversity"],
    ["obs", "actions", "rewards", "terminations", "truncations"],
]


def main(argv):
    spec = json.loads(argv[1])
    cache = os.path.join(os.path.dirname(os.path.dirname(os.path.abspath(__file__))), ".cache", "jax")
    try:
        os.makedirs(cache, exist_ok=True)
        jax.config.update("jax_compilation_cache_dir", cache)
        jax.config.update("jax_persistent_cache_min_compile_time_secs", 0.0)
        jax.config.update("jax_persistent_cache_min_entry_size_bytes", 0)
    except Exception:  # noqa: BLE001
        pass
    res = run_jobs(spec["jobs"], spec.get("perturb", {}))
    info = dict(hashseed=os.environ.get("PYTHONHASHSEED"), hash_probe=hash("c09-probe") & 0xFFFF, repo=os.environ.get("VERIF_REPO", "/repo"),
                probe_orders=[list(set(p)) for p in PROBE_SETS])
    sys.stdout.write("\nC09RESULT " + json.dumps(dict(results=res, info=info)) + "\n")
    sys.stdout.flush()


if __name__ == "__main__":
    main(sys.argv)
