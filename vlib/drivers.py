"""Driver table for engine E2 (DESIGN appendix C): one entry per step-granular training routine.

run(name, script, **cfg) builds tiny approximators with the repo's own constructors, a ScriptEnv whose
answers are `script`, hands in its own replay buffer / target networks / logger (so it keeps
references to everything it must observe) and calls the real train_* once.
"""

from __future__ import annotations

import contextlib
import io
import types

import jax
import jax.numpy as jnp
import numpy as np
import optax
from flax import nnx

from vlib import senv, snap as S

OFF_POLICY = ["dqn", "nature_dqn", "ddqn", "ddqn_per", "ddpg", "td3", "td3_lap", "sac", "td7", "mrq", "pets"]
DISCRETE = {"dqn", "nature_dqn", "ddqn", "ddqn_per"}
SUBTRAJ = {"mrq"}
HAS_TOTAL_EPISODES = {"nature_dqn", "ddqn", "ddqn_per", "ddpg", "td3", "sac", "td7", "mrq"}
HAS_GLOBAL_STEP = {"dqn", "nature_dqn", "ddqn", "ddqn_per", "ddpg", "td3", "td3_lap", "sac", "td7", "mrq"}
DOC_WARMUP = {"nature_dqn", "ddqn", "ddqn_per", "ddpg", "td3", "td3_lap", "sac", "td7", "mrq", "pets"}


class RecLogger:
    """LoggerBase-compatible recorder; optional callback at every record_* call (update boundary)."""

    def __init__(self, on_record=None):
        self.stats = []  # (key, value, episode, step)
        self.epochs = []  # (key, step)
        self.n_eps = 0
        self.n_steps = 0
        self.on_record = on_record
        self.events = []

    @property
    def n_episodes(self):
        return self.n_eps

    def start_new_episode(self):
        self.n_eps += 1
        self.events.append(("start",))

    def stop_episode(self, total_steps):
        self.n_steps += total_steps
        self.events.append(("stop", total_steps))

    def define_experiment(self, env_name=None, algorithm_name=None, hparams=None):
        pass

    def record_stat(self, key, value, episode=None, step=None, t=None, verbose=None, format_str="{0:.3f}"):
        try:
            v = np.asarray(value).tolist()
        except Exception:  # noqa: BLE001
            v = repr(value)
        self.stats.append((key, v, episode, step))
        self.events.append(("stat", key, step))
        if self.on_record:
            self.on_record("stat", key, value, step)

    def define_checkpoint_frequency(self, key, checkpoint_interval):
        pass

    def record_epoch(self, key, value, episode=None, step=None, t=None):
        self.epochs.append((key, step))
        self.events.append(("epoch", key, step))
        if self.on_record:
            self.on_record("epoch", key, value, step)


def _register_logger():
    from rl_blox.logging.logger import LoggerBase

    LoggerBase.register(RecLogger)


class Run(types.SimpleNamespace):
    pass


def make_env(name, script, cfg):
    return senv.ScriptEnv(
        script,
        discrete=name in DISCRETE,
        horizon=cfg.get("env_horizon"),
        levels=cfg.get("levels", ""),
        low=cfg.get("low", (-1.0, 0.0)) if name != "pets" else cfg.get("low", (-1.0,)),
        high=cfg.get("high", (2.0, 3.0)) if name != "pets" else cfg.get("high", (2.0,)),
        reward_fn=cfg.get("reward_fn"),
        reward_kind=cfg.get("reward_kind"),
    )


def new_buffer(name, cfg):
    from rl_blox.blox import replay_buffer as rb

    cap = cfg.get("buffer_size", 64)
    if name in ("dqn", "nature_dqn", "ddqn"):
        return rb.ReplayBuffer(cap, discrete_actions=True)
    if name == "ddqn_per":
        return rb.PrioritizedReplayBuffer(cap, discrete_actions=True)
    if name in ("td3_lap", "td7"):
        return rb.LAP(cap)
    if name == "mrq":
        return rb.SubtrajectoryReplayBufferPER(cap, horizon=max(cfg.get("encoder_horizon", 2), cfg.get("q_horizon", 2)))
    return rb.ReplayBuffer(cap)


def _opt(module, lr=1e-2, kind="adam"):
    tx = optax.adam(lr) if kind == "adam" else optax.sgd(lr)
    return nnx.Optimizer(module, tx, wrt=nnx.Param)


def build(name, env, cfg):
    """Returns (call, mods) where call(**loop_kwargs) runs the routine and mods are the observed modules."""
    ns = cfg.get("net_seed", 0)
    box = cfg.setdefault("_envbox", [env])  # run(..., prebuilt=...) swaps the env in here
    tn = bool(cfg.get("targets_none"))  # let the routine create its own target networks
    H = [cfg.get("width", 3)]
    lr = cfg.get("lr", 1e-2)
    if name in DISCRETE:
        from rl_blox.blox.function_approximator.mlp import MLP

        q = MLP(2, 2, H, "relu", nnx.Rngs(ns))
        if cfg.get("greedy_bias") is not None:
            q.output_layer.bias.value = jnp.asarray(cfg["greedy_bias"], dtype=jnp.float32)
        opt = _opt(q, lr)
        mods = dict(q=q, q_optimizer=opt)
        if name == "dqn":
            from rl_blox.algorithm.dqn import train_dqn

            def call(rb, kw):
                return train_dqn(q, box[0], rb, opt, **kw)

            return call, mods
        qt = nnx.clone(q)
        if cfg.get("global_step"):
            # a resumed call continues with the target of the earlier call, which in general differs from the online network
            _scale_params(qt, 0.5)
        mods["q_target"] = qt
        fn = {
            "nature_dqn": ("rl_blox.algorithm.nature_dqn", "train_nature_dqn"),
            "ddqn": ("rl_blox.algorithm.ddqn", "train_ddqn"),
            "ddqn_per": ("rl_blox.algorithm.per", "train_ddqn_per"),
        }[name]
        import importlib

        f = getattr(importlib.import_module(fn[0]), fn[1])

        def call(rb, kw):
            return f(q, box[0], rb, opt, q_target_net=None if tn else qt, **kw)

        return call, mods
    if name in ("ddpg", "td3", "td3_lap"):
        from rl_blox.algorithm.ddpg import create_ddpg_state, train_ddpg
        from rl_blox.algorithm.td3 import create_td3_state, train_td3
        from rl_blox.algorithm.td3_lap import train_td3_lap

        mk = create_ddpg_state if name == "ddpg" else create_td3_state
        st = mk(env, policy_hidden_nodes=H, q_hidden_nodes=H, policy_learning_rate=lr, q_learning_rate=lr, seed=ns)
        policy = st.policy
        if cfg.get("policy_cls") is not None:
            policy = cfg["policy_cls"](st.policy.policy_net, env.action_space)
        if cfg.get("policy_scale") is not None:
            for p in jax.tree_util.tree_leaves(nnx.state(policy, nnx.Param)):
                pass
            _scale_params(policy, cfg["policy_scale"])
        popt = _opt(policy, lr) if policy is not st.policy or cfg.get("policy_scale") is not None else st.policy_optimizer
        pt, qt = nnx.clone(policy), nnx.clone(st.q)
        if cfg.get("target_scale") is not None:  # handed-in targets that differ from the online networks
            _scale_params(pt, cfg["target_scale"])
            _scale_params(qt, cfg["target_scale"])
        mods = dict(policy=policy, policy_optimizer=popt, q=st.q, q_optimizer=st.q_optimizer, policy_target=pt, q_target=qt)
        f = {"ddpg": train_ddpg, "td3": train_td3, "td3_lap": train_td3_lap}[name]

        strip = cfg.get("strip_target")  # "policy" / "q": hand in only the OTHER target (the routine creates the stripped one)

        def call(rb, kw):
            return f(box[0], policy, popt, st.q, st.q_optimizer, replay_buffer=rb, policy_target=None if (tn or strip == "policy") else pt,
                     q_target=None if (tn or strip == "q") else qt, **kw)

        return call, mods
    if name == "sac":
        from rl_blox.algorithm.sac import EntropyControl, create_sac_state, train_sac

        st = create_sac_state(env, policy_hidden_nodes=H, q_hidden_nodes=H, policy_learning_rate=lr, q_learning_rate=lr, seed=ns)
        qt = nnx.clone(st.q)
        ec = EntropyControl(env, cfg.get("alpha", 0.2), cfg.get("autotune", True), cfg.get("entropy_lr", 1e-2))
        mods = dict(policy=st.policy, policy_optimizer=st.policy_optimizer, q=st.q, q_optimizer=st.q_optimizer, q_target=qt)
        if cfg.get("autotune", True):
            mods["entropy_coefficient"] = ec._alpha if hasattr(ec, "_alpha") else _first_module(ec)

        def call(rb, kw):
            return train_sac(box[0], st.policy, st.policy_optimizer, st.q, st.q_optimizer, replay_buffer=rb, q_target=None if tn else qt, entropy_control=ec, **kw)

        r = (call, {k: v for k, v in mods.items() if v is not None})
        return r
    if name == "td7":
        from rl_blox.algorithm.td7 import create_td7_state, train_td7

        st = create_td7_state(
            env, n_embedding_dimensions=3, state_embedding_hidden_nodes=H, state_action_embedding_hidden_nodes=H,
            policy_sa_encoding_nodes=3, policy_hidden_nodes=H, q_sa_encoding_nodes=3, q_hidden_nodes=H,
            embedding_learning_rate=lr, policy_learning_rate=lr, q_learning_rate=lr, seed=ns,
        )
        at, ct = nnx.clone(st.actor), nnx.clone(st.critic)
        mods = dict(embedding=st.embedding, embedding_optimizer=st.embedding_optimizer, actor=st.actor, actor_optimizer=st.actor_optimizer,
                    critic=st.critic, critic_optimizer=st.critic_optimizer, actor_target=at, critic_target=ct)

        def call(rb, kw):
            return train_td7(box[0], st.embedding, st.embedding_optimizer, st.actor, st.actor_optimizer, st.critic, st.critic_optimizer,
                             replay_buffer=rb, actor_target=None if tn else at, critic_target=None if tn else ct, **kw)

        return call, mods
    if name == "mrq":
        from rl_blox.algorithm.mrq import create_mrq_state, train_mrq

        st = create_mrq_state(
            env, policy_hidden_nodes=H, q_hidden_nodes=H, encoder_n_bins=5, encoder_zs_dim=3, encoder_za_dim=2, encoder_zsa_dim=3,
            encoder_hidden_nodes=H, policy_learning_rate=lr, q_learning_rate=lr, encoder_learning_rate=lr, seed=ns,
        )
        if cfg.get("policy_scale") is not None:
            _scale_params(st.policy_with_encoder.policy, cfg["policy_scale"])
        pt, qt = nnx.clone(st.policy_with_encoder), nnx.clone(st.q)
        mods = dict(policy_with_encoder=st.policy_with_encoder, encoder_optimizer=st.encoder_optimizer, policy_optimizer=st.policy_optimizer,
                    q=st.q, q_optimizer=st.q_optimizer, policy_with_encoder_target=pt, q_target=qt)

        def call(rb, kw):
            return train_mrq(box[0], st.policy_with_encoder, st.encoder_optimizer, st.policy_optimizer, st.q, st.q_optimizer, st.the_bins,
                             replay_buffer=rb, policy_with_encoder_target=None if tn else pt, q_target=None if tn else qt, **kw)

        return call, mods
    if name == "pets":
        from rl_blox.algorithm.pets import create_pets_state, train_pets

        dm = create_pets_state(env, seed=ns, n_ensemble=2, hidden_nodes=tuple(H), learning_rate=lr, batch_size=cfg.get("ens_batch", 2))
        mods = dict(model=dm.model, model_optimizer=dm.optimizer)
        reward_model = cfg.get("reward_model") or (lambda act, obs: -jnp.sum(obs**2, axis=-1) - 0.1 * jnp.sum(act**2, axis=-1))

        def call(rb, kw):
            return train_pets(box[0], reward_model, dm, replay_buffer=rb, **kw)

        return call, mods
    raise KeyError(name)


ACTING = {"dqn": "q", "nature_dqn": "q", "ddqn": "q", "ddqn_per": "q", "ddpg": "policy", "td3": "policy", "td3_lap": "policy",
          "sac": "policy", "td7": "actor", "mrq": "policy_with_encoder"}


def make_recording(obj, sink, batch1=False):
    """Turn `obj` into an instance of a recording subclass of its own class: rank-1 (single
    observation) inputs of __call__ are appended to `sink` through an ordered jax.debug.callback,
    so it sees what the acting network sees under the shipped nnx.jit path too."""
    cls = obj.__class__

    class Rec(cls):
        def __call__(self, x, *a, **k):
            if getattr(x, "ndim", None) == 1:
                jax.debug.callback(lambda o: sink.append(np.array(o)), x, ordered=True)
            elif batch1 and getattr(x, "ndim", None) == 2 and x.shape[0] == 1:
                # greedy_policy(q_net, obs) wraps the single observation into a batch of one
                jax.debug.callback(lambda o: sink.append(np.array(o)), x[0], ordered=True)
            return super().__call__(x, *a, **k)

    if hasattr(cls, "sample"):
        # stochastic heads: record at the sample() entry point (some heads call their network
        # directly instead of self(...)); suppress the nested __call__ record while tracing it
        plain_call = Rec.__call__

        def sample(self, observation, *a, **k):
            if getattr(observation, "ndim", None) == 1:
                jax.debug.callback(lambda o: sink.append(np.array(o)), observation, ordered=True)
                self.__dict__["_rec_off"] = True
                try:
                    return cls.sample(self, observation, *a, **k)
                finally:
                    self.__dict__.pop("_rec_off", None)
            return cls.sample(self, observation, *a, **k)

        def call(self, x, *a, **k):
            if self.__dict__.get("_rec_off"):
                return cls.__call__(self, x, *a, **k)
            return plain_call(self, x, *a, **k)

        Rec.sample = sample
        Rec.__call__ = call
    Rec.__name__ = cls.__name__
    Rec.__qualname__ = cls.__qualname__
    obj.__class__ = Rec
    return obj


def _first_module(obj):
    for v in vars(obj).values():
        if isinstance(v, nnx.Module):
            return v
    return None


def _scale_params(module, factor):
    state = nnx.state(module, nnx.Param)
    nnx.update(module, jax.tree_util.tree_map(lambda x: x * factor, state))


def loop_kwargs(name, script, cfg):
    """Translate the harness' uniform configuration into the routine's own keyword arguments."""
    T = cfg.get("total_timesteps", len(script))
    kw = dict(total_timesteps=T, seed=cfg.get("seed", 1), progress_bar=False)
    ls = cfg.get("learning_starts", 10**6)
    bs = cfg.get("batch_size", 2)
    delay = cfg.get("delay", 2)
    if name in DISCRETE:
        kw.update(batch_size=bs, gamma=cfg.get("gamma", 0.9))
        if name != "dqn":
            kw.update(learning_starts=ls if ls < 10**6 else 0, update_frequency=cfg.get("update_frequency", 1), target_update_frequency=delay)
    elif name in ("ddpg", "td3", "td3_lap"):
        kw.update(batch_size=bs, learning_starts=ls, gamma=cfg.get("gamma", 0.9), tau=cfg.get("tau", 0.5), exploration_noise=cfg.get("exploration_noise", 0.1))
        if name != "ddpg":
            kw.update(policy_delay=delay, noise_clip=cfg.get("noise_clip", 0.5))
        if cfg.get("gradient_steps"):
            kw.update(gradient_steps=cfg["gradient_steps"])
    elif name == "sac":
        kw.update(batch_size=bs, learning_starts=ls, gamma=cfg.get("gamma", 0.9), tau=cfg.get("tau", 0.5), policy_delay=cfg.get("policy_delay", 1), target_network_delay=delay,
                  autotune=cfg.get("autotune", True))
    elif name == "td7":
        kw.update(batch_size=bs, learning_starts=ls, gamma=cfg.get("gamma", 0.9), target_delay=delay, policy_delay=cfg.get("policy_delay", 2),
                  use_checkpoints=cfg.get("use_checkpoints", False), max_episodes_when_checkpointing=cfg.get("window", 2),
                  steps_before_checkpointing=cfg.get("threshold", 3), reset_weight=cfg.get("reset_weight", 0.9),
                  exploration_noise=cfg.get("exploration_noise", 0.1))
    elif name == "mrq":
        kw.update(batch_size=bs, learning_starts=ls, gamma=cfg.get("gamma", 0.9), target_delay=delay, encoder_horizon=cfg.get("encoder_horizon", 2),
                  q_horizon=cfg.get("q_horizon", 2), exploration_noise=cfg.get("exploration_noise", 0.2))
        if cfg.get("own_buffer"):
            kw["buffer_size"] = cfg.get("buffer_size", 64)
    elif name == "pets":
        kw.pop("progress_bar")
        kw.update(plan_horizon=2, n_particles=2, n_samples=10, n_opt_iter=2, learning_starts=min(ls, 10**6), learning_starts_gradient_steps=1,
                  n_steps_per_iteration=cfg.get("n_steps_per_iteration", 2), gradient_steps=1, progress_bar=False)
    if cfg.get("total_episodes") is not None and name in HAS_TOTAL_EPISODES:
        kw["total_episodes"] = cfg["total_episodes"]
    if cfg.get("global_step") and name in HAS_GLOBAL_STEP:
        kw["global_step"] = cfg["global_step"]
    kw.update(cfg.get("extra", {}))
    return kw


def run(name, script, **cfg) -> Run:
    _register_logger()
    env = cfg.get("env") or make_env(name, script, cfg)
    if cfg.get("prebuilt") is not None:
        # reuse approximators built by an earlier run (only sound when that run did not learn)
        call, mods, box = cfg["prebuilt"]
        box[0] = env
    else:
        call, mods = build(name, env, cfg)
        box = cfg["_envbox"]
    rb = None if cfg.get("own_buffer") else (cfg["replay_buffer"] if cfg.get("replay_buffer") is not None else new_buffer(name, cfg))  # own_buffer: the routine creates its buffer
    r = Run(name=name, script=script, cfg=cfg, env=env, mods=mods, rb=rb, snaps=[], result=None, error=None, logger=None, prebuilt=(call, mods, box), acting=[])
    if cfg.get("record_acting") and cfg.get("prebuilt") is None:
        if name == "pets":
            inner = cfg.get("reward_model") or (lambda act, obs: -jnp.sum(obs**2, axis=-1) - 0.1 * jnp.sum(act**2, axis=-1))

            def rec_reward(act, obs):
                jax.debug.callback(lambda o: r.acting.append(np.array(o)), obs[(0,) * (obs.ndim - 1)], ordered=True)
                return inner(act, obs)

            cfg["reward_model"] = rec_reward
            call, mods = build(name, env, cfg)
        else:
            make_recording(mods[ACTING[name]], r.acting, batch1=name in DISCRETE)
    if cfg.get("snap"):
        def on_step(e):
            r.snaps.append(("step", e.t, S.snap_all(mods)))

        env.on_step = on_step
    if cfg.get("logger"):
        def on_record(kind, key, value, step):
            if cfg.get("snap_on_record"):
                r.snaps.append((kind + ":" + key, step, S.snap_all(mods)))

        r.logger = RecLogger(on_record)
    kw = loop_kwargs(name, script, cfg)
    if r.logger is not None:
        kw["logger"] = r.logger
    r.kwargs = {k: v for k, v in kw.items() if k != "logger"}
    ctx = jax.disable_jit() if cfg.get("disable_jit") else contextlib.nullcontext()
    try:
        with ctx, contextlib.redirect_stdout(io.StringIO()):
            r.result = call(rb, kw)
    except senv.HorizonExceeded:
        r.error = "horizon"
    except senv.StepAfterEnd:
        r.error = "step-after-end"
    jax.effects_barrier()
    if cfg.get("snap"):
        r.snaps.append(("end", env.t, S.snap_all(mods)))
    return r
